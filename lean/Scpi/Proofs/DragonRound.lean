/-
Two bridges between the float → text side (`decodeFinite`, the input of the Dragon digit
generation) and the text → float side (`roundRat`), both stated on the grid of float values
`fscaled` (units of the smallest sub-normal):

* `roundRat_of_between`: every rational between the two midpoints around the pattern `b`
  (end points allowed only for even `b`) rounds to `b`;
* `decode_interval`: the interval `flt2dec::decode` hands to Dragon is exactly that
  midpoint interval (in quarter units), or — at a binade boundary from below — inside it.
-/
import Scpi.Props.C03

namespace Scpi
namespace Dragon
open C03

/-! ### Part 1: between the midpoints rounds to `b` -/

theorem two_dvd_pow_mbits (f : FloatFmt) (hm : 1 ≤ f.mbits) : 2 ∣ 2 ^ f.mbits := by
  obtain ⟨k, hk⟩ : ∃ k, f.mbits = k + 1 := ⟨f.mbits - 1, by omega⟩
  rw [hk, Nat.pow_succ]
  exact ⟨2 ^ k, Nat.mul_comm _ _⟩

/-- With at least one fraction bit, the parity of the fraction field is the parity of the
pattern. -/
theorem fracOf_mod_two (f : FloatFmt) (hm : 1 ≤ f.mbits) (x : Nat) : f.fracOf x % 2 = x % 2 := by
  unfold FloatFmt.fracOf
  exact Nat.mod_mod_of_dvd x (two_dvd_pow_mbits f hm)

/-- Any rational n/d between the midpoints to the two neighbouring patterns (boundaries allowed
only when `b` is even) rounds to `b`. -/
theorem roundRat_of_between (f : FloatFmt) (hm : 1 ≤ f.mbits) (he : 2 ≤ f.ebits) (b : Nat)
    (hb0 : 0 < b) (hb : b < f.infBits) (n d : Nat) (hd : 0 < d)
    (hlo : (fscaled f (b - 1) + fscaled f b) * d ≤ 2 * (n * funitDen f))
    (hhi : 2 * (n * funitDen f) ≤ (fscaled f b + fscaled f (b + 1)) * d)
    (hodd : b % 2 = 1 →
      (fscaled f (b - 1) + fscaled f b) * d < 2 * (n * funitDen f) ∧
      2 * (n * funitDen f) < (fscaled f b + fscaled f (b + 1)) * d) :
    roundRat f n d = b := by
  have h1 := fscaled_lt f (b - 1) b (by omega) (by omega)
  have h2 := fscaled_lt f b (b + 1) (by omega) (by omega)
  have hbpos : 0 < fscaled f b := by
    have := fscaled_lt f 0 b hb0 (by omega)
    omega
  have h1' : fscaled f (b - 1) * d < fscaled f b * d := Nat.mul_lt_mul_of_pos_right h1 hd
  have h2' : fscaled f b * d < fscaled f (b + 1) * d := Nat.mul_lt_mul_of_pos_right h2 hd
  rw [Nat.add_mul] at hlo hhi hodd
  rw [Nat.add_mul] at hodd
  have hn : 0 < n := by
    rcases Nat.eq_zero_or_pos n with h | h
    · subst h
      rw [Nat.zero_mul] at hlo
      omega
    · exact h
  have hr := (roundRat_nearest' f hm he n d (by omega) hd).1
  obtain ⟨hle, htie⟩ := roundRat_nearest f hm he n d hn hd b (by omega)
  generalize roundRat f n d = r at *
  unfold fdist absDiff at hle htie
  rcases Nat.lt_trichotomy r b with hlt | heq | hgt
  · exfalso
    by_cases hrb : r = b - 1
    · subst hrb
      have hpar := fracOf_mod_two f hm (b - 1)
      generalize fscaled f (b - 1) * d = p at *
      generalize fscaled f b * d = c at *
      generalize fscaled f (b + 1) * d = s at *
      generalize n * funitDen f = X at *
      have hE : p - X + (X - p) = c - X + (X - c) := by omega
      have := htie hE (by omega)
      have hbodd : b % 2 = 1 := by omega
      have := hodd hbodd
      omega
    · have h3 := fscaled_lt f r (b - 1) (by omega) (by omega)
      have h3' : fscaled f r * d < fscaled f (b - 1) * d := Nat.mul_lt_mul_of_pos_right h3 hd
      generalize fscaled f (b - 1) * d = p at *
      generalize fscaled f b * d = c at *
      generalize fscaled f r * d = t at *
      generalize n * funitDen f = X at *
      omega
  · exact heq
  · exfalso
    by_cases hrb : r = b + 1
    · subst hrb
      have hpar := fracOf_mod_two f hm (b + 1)
      generalize fscaled f (b - 1) * d = p at *
      generalize fscaled f b * d = c at *
      generalize fscaled f (b + 1) * d = s at *
      generalize n * funitDen f = X at *
      have hE : s - X + (X - s) = c - X + (X - c) := by omega
      have := htie hE (by omega)
      have hbodd : b % 2 = 1 := by omega
      have := hodd hbodd
      omega
    · have h3 := fscaled_lt f (b + 1) r (by omega) hr
      have h3' : fscaled f (b + 1) * d < fscaled f r * d := Nat.mul_lt_mul_of_pos_right h3 hd
      generalize fscaled f (b + 1) * d = s at *
      generalize fscaled f b * d = c at *
      generalize fscaled f r * d = t at *
      generalize n * funitDen f = X at *
      omega

/-! ### Part 2: what `decodeFinite` returns, on the grid -/

/-- The twelve facts about `decodeFinite f b` (see `decode_interval`). -/
def DecodeSpec (f : FloatFmt) (b : Nat) : Prop :=
  ∃ (mant plus s : Nat) (exp : Int) (incl : Bool),
    decodeFinite f b = (mant, 1, plus, exp, incl) ∧
    (s : Int) = exp + f.bias + f.mbits + 1 ∧
    4 * fscaled f b = mant * 2 ^ s ∧
    2 * (fscaled f (b - 1) + fscaled f b) ≤ (mant - 1) * 2 ^ s ∧
    (mant + plus) * 2 ^ s = 2 * (fscaled f b + fscaled f (b + 1)) ∧
    2 ≤ mant ∧ (plus = 1 ∨ plus = 2) ∧ mant + plus ≤ 2 ^ (f.mbits + 3) ∧
    (b % 2 = 0 → incl = true) ∧
    (f.expOf b = 0 → exp = -((f.bias + f.mbits : Nat) : Int) ∧ plus = 1 ∧ mant % 2 = 0 ∧ incl = true) ∧
    -((f.bias + f.mbits : Nat) : Int) - 1 ≤ exp ∧ exp + f.mbits + 1 ≤ f.bias

theorem expMax_eq (f : FloatFmt) (he : 2 ≤ f.ebits) : f.expMax = 2 * f.bias + 1 ∧ 1 ≤ f.bias := by
  obtain ⟨k, hk⟩ : ∃ k, f.ebits = k + 2 := ⟨f.ebits - 2, by omega⟩
  unfold FloatFmt.expMax FloatFmt.bias
  have h1 : f.ebits - 1 = k + 1 := by omega
  rw [h1, hk, Nat.pow_succ, Nat.pow_succ]
  have := two_pow_pos' k
  omega

theorem pow_mbits_three (f : FloatFmt) : 2 ^ (f.mbits + 3) = 2 ^ f.mbits * 8 := by
  rw [Nat.pow_add]

theorem fs (f : FloatFmt) (E F x : Nat) (hF : F < 2 ^ f.mbits) (hE : E ≤ f.expMax)
    (hx : x = E * 2 ^ f.mbits + F) : fscaled f x = gridVal (2 ^ f.mbits) E F := by
  subst hx
  exact fscaled_of_fields f E F hF hE

theorem gridVal_zero (M F : Nat) : gridVal M 0 F = F := by simp [gridVal]

theorem gridVal_succ (M E F : Nat) : gridVal M (E + 1) F = (M + F) * 2 ^ E := by simp [gridVal]

theorem le_pred_mul (A m S : Nat) (h : A + S ≤ m * S) : A ≤ (m - 1) * S := by
  rw [Nat.sub_mul]
  omega

/-- Sub-normal patterns. -/
theorem decode_case_sub (f : FloatFmt) (he : 2 ≤ f.ebits) (F : Nat)
    (hF1 : 1 ≤ F) (hF : F < 2 ^ f.mbits) : DecodeSpec f F := by
  obtain ⟨hbias, hb1⟩ := expMax_eq f he
  obtain ⟨hE, hFr⟩ := fields_of f 0 F hF (Nat.zero_le _)
  rw [Nat.zero_mul, Nat.zero_add] at hE hFr
  have hb : fscaled f F = F := by
    rw [fs f 0 F F hF (Nat.zero_le _) (by simp), gridVal_zero]
  have hbm : fscaled f (F - 1) = F - 1 := by
    rw [fs f 0 (F - 1) (F - 1) (by omega) (Nat.zero_le _) (by simp), gridVal_zero]
  have hbp : fscaled f (F + 1) = F + 1 := by
    by_cases h : F + 1 < 2 ^ f.mbits
    · rw [fs f 0 (F + 1) (F + 1) h (Nat.zero_le _) (by simp), gridVal_zero]
    · rw [fs f 1 0 (F + 1) (two_pow_pos' _) (by omega) (by omega), gridVal_succ]
      omega
  refine ⟨F * 2, 1, 1, -((f.bias + f.mbits : Nat) : Int), true, ?_, ?_, ?_, ?_, ?_, ?_, ?_, ?_,
    ?_, ?_, ?_, ?_⟩
  · unfold decodeFinite
    simp [hE, hFr]
  · omega
  · rw [hb]; omega
  · rw [hb, hbm]; omega
  · rw [hb, hbp]; omega
  · omega
  · exact Or.inl rfl
  · rw [pow_mbits_three]; omega
  · intro _; rfl
  · intro _; exact ⟨rfl, rfl, by omega, rfl⟩
  · omega
  · omega

theorem pow_mbits_even (f : FloatFmt) (hm : 1 ≤ f.mbits) (E : Nat) :
    2 ^ f.mbits % 2 = 0 ∧ (E * 2 ^ f.mbits) % 2 = 0 := by
  obtain ⟨H, hH⟩ := two_dvd_pow_mbits f hm
  have : E * 2 ^ f.mbits = 2 * (E * H) := by rw [hH, Nat.mul_left_comm]
  omega

/-- Normal patterns with a non-zero fraction field. -/
theorem decode_case_mid (f : FloatFmt) (hm : 1 ≤ f.mbits) (he : 2 ≤ f.ebits) (E F : Nat)
    (hE : E + 1 < f.expMax) (hF : F + 1 < 2 ^ f.mbits) :
    DecodeSpec f ((E + 1) * 2 ^ f.mbits + (F + 1)) := by
  obtain ⟨hbias, hb1⟩ := expMax_eq f he
  obtain ⟨hEx, hFr⟩ := fields_of f (E + 1) (F + 1) hF (by omega)
  obtain ⟨hMe, hEMe⟩ := pow_mbits_even f hm (E + 1)
  have hb := fs f (E + 1) (F + 1) _ hF (by omega) rfl
  have hbm := fs f (E + 1) F ((E + 1) * 2 ^ f.mbits + (F + 1) - 1) (by omega) (by omega) (by omega)
  have hbp : fscaled f ((E + 1) * 2 ^ f.mbits + (F + 1) + 1) =
      (2 ^ f.mbits + (F + 2)) * 2 ^ E := by
    by_cases h : F + 2 < 2 ^ f.mbits
    · rw [fs f (E + 1) (F + 2) _ h (by omega) (by omega), gridVal_succ]
    · have h2 : (E + 1 + 1) * 2 ^ f.mbits = (E + 1) * 2 ^ f.mbits + 2 ^ f.mbits := Nat.succ_mul _ _
      rw [fs f (E + 1 + 1) 0 _ (two_pow_pos' _) (by omega) (by omega), gridVal_succ, Nat.pow_succ]
      have h3 : F + 2 = 2 ^ f.mbits := by omega
      rw [h3]
      generalize 2 ^ f.mbits = M
      generalize 2 ^ E = P
      grind
  rw [gridVal_succ] at hb hbm
  refine ⟨(F + 1 + 2 ^ f.mbits) * 2, 1, E + 1,
    ((E + 1 : Nat) : Int) - ((f.bias + f.mbits : Nat) : Int) - 1,
    ((F + 1 + 2 ^ f.mbits) % 2 == 0), ?_, ?_, ?_, ?_, ?_, ?_, ?_, ?_, ?_, ?_, ?_, ?_⟩
  · unfold decodeFinite
    simp [hEx, hFr]
  · omega
  · rw [hb, Nat.pow_succ]
    generalize 2 ^ f.mbits = M
    generalize 2 ^ E = P
    grind
  · apply le_pred_mul
    rw [hb, hbm, Nat.pow_succ]
    generalize 2 ^ f.mbits = M
    generalize 2 ^ E = P
    grind
  · rw [hb, hbp, Nat.pow_succ]
    generalize 2 ^ f.mbits = M
    generalize 2 ^ E = P
    grind
  · omega
  · exact Or.inl rfl
  · rw [pow_mbits_three]; omega
  · intro h
    rw [beq_iff_eq]
    omega
  · intro h; omega
  · omega
  · omega

/-- The first pattern of a normal binade (zero fraction field): the lower neighbour is
closer (half the spacing), `decode` reports `plus = 2`. -/
theorem decode_case_pow (f : FloatFmt) (hm : 1 ≤ f.mbits) (he : 2 ≤ f.ebits) (E : Nat)
    (hE : E + 1 < f.expMax) : DecodeSpec f ((E + 1) * 2 ^ f.mbits + 0) := by
  obtain ⟨hbias, hb1⟩ := expMax_eq f he
  have hM2 := two_le_pow_mbits f hm
  obtain ⟨hEx, hFr⟩ := fields_of f (E + 1) 0 (by omega) (by omega)
  simp only [Nat.add_zero] at hEx hFr
  obtain ⟨hMe, hEMe⟩ := pow_mbits_even f hm (E + 1)
  have hb := fs f (E + 1) 0 _ (by omega) (by omega) rfl
  have hbp := fs f (E + 1) 1 ((E + 1) * 2 ^ f.mbits + 0 + 1) (by omega) (by omega) (by omega)
  rw [gridVal_succ] at hb hbp
  have hbm : 2 * (fscaled f ((E + 1) * 2 ^ f.mbits + 0 - 1) + 2 ^ f.mbits * 2 ^ E) + 2 ^ E ≤
      2 ^ f.mbits * 4 * 2 ^ E := by
    cases E with
    | zero =>
      rw [fs f 0 (2 ^ f.mbits - 1) _ (by omega) (by omega) (by omega), gridVal_zero]
      omega
    | succ E =>
      have h2 : (E + 1 + 1) * 2 ^ f.mbits = (E + 1) * 2 ^ f.mbits + 2 ^ f.mbits := Nat.succ_mul _ _
      rw [fs f (E + 1) (2 ^ f.mbits - 1) _ (by omega) (by omega) (by omega), gridVal_succ,
        Nat.pow_succ]
      obtain ⟨M, hM⟩ : ∃ M, 2 ^ f.mbits = M + 1 := ⟨2 ^ f.mbits - 1, by omega⟩
      rw [hM, Nat.add_sub_cancel]
      generalize 2 ^ E = P
      grind
  refine ⟨(0 + 2 ^ f.mbits) * 4, 2, E,
    ((E + 1 : Nat) : Int) - ((f.bias + f.mbits : Nat) : Int) - 2,
    ((0 + 2 ^ f.mbits) % 2 == 0), ?_, ?_, ?_, ?_, ?_, ?_, ?_, ?_, ?_, ?_, ?_, ?_⟩
  · unfold decodeFinite
    simp [hEx, hFr]
  · omega
  · rw [hb]
    generalize 2 ^ f.mbits = M
    generalize 2 ^ E = P
    grind
  · apply le_pred_mul
    rw [hb, Nat.zero_add, Nat.add_zero]
    exact hbm
  · rw [hb, hbp]
    generalize 2 ^ f.mbits = M
    generalize 2 ^ E = P
    grind
  · omega
  · exact Or.inr rfl
  · rw [pow_mbits_three]; omega
  · intro _
    rw [beq_iff_eq]
    omega
  · intro h; rw [Nat.add_zero] at h; omega
  · omega
  · omega

/-- What `decodeFinite` returns, related to the grid of float values (in quarter units:
`4 · fscaled b = mant · 2^s`). -/
theorem decode_interval (f : FloatFmt) (hm : 1 ≤ f.mbits) (he : 2 ≤ f.ebits) (b : Nat)
    (hb0 : 0 < b) (hb : b < f.infBits) :
    ∃ (mant plus s : Nat) (exp : Int) (incl : Bool),
      decodeFinite f b = (mant, 1, plus, exp, incl) ∧
      (s : Int) = exp + f.bias + f.mbits + 1 ∧
      4 * fscaled f b = mant * 2 ^ s ∧
      2 * (fscaled f (b - 1) + fscaled f b) ≤ (mant - 1) * 2 ^ s ∧
      (mant + plus) * 2 ^ s = 2 * (fscaled f b + fscaled f (b + 1)) ∧
      2 ≤ mant ∧ (plus = 1 ∨ plus = 2) ∧ mant + plus ≤ 2 ^ (f.mbits + 3) ∧
      (b % 2 = 0 → incl = true) ∧
      (f.expOf b = 0 → exp = -((f.bias + f.mbits : Nat) : Int) ∧ plus = 1 ∧ mant % 2 = 0 ∧ incl = true) ∧
      -((f.bias + f.mbits : Nat) : Int) - 1 ≤ exp ∧ exp + f.mbits + 1 ≤ f.bias := by
  have hM := two_pow_pos' f.mbits
  obtain ⟨E, F, hF, hE, rfl⟩ : ∃ E F, F < 2 ^ f.mbits ∧ E < f.expMax ∧ b = E * 2 ^ f.mbits + F := by
    refine ⟨b / 2 ^ f.mbits, b % 2 ^ f.mbits, Nat.mod_lt _ hM, ?_, ?_⟩
    · exact (Nat.div_lt_iff_lt_mul hM).2 hb
    · have := Nat.div_add_mod b (2 ^ f.mbits)
      rw [Nat.mul_comm] at this
      exact this.symm
  show DecodeSpec f _
  cases E with
  | zero =>
    rw [Nat.zero_mul, Nat.zero_add] at hb0 ⊢
    exact decode_case_sub f he F hb0 hF
  | succ E =>
    cases F with
    | zero => exact decode_case_pow f hm he E hE
    | succ F => exact decode_case_mid f hm he E F hE hF

/-- Non-vacuity: the hypotheses of `roundRat_of_between` hold for binary32 `1.0`
(pattern `0x3F800000`) and the rational `1/1`; and for the odd pattern `0x3F800001`
with `n/d = 8388609/8388608` strictly inside. -/
example : roundRat fmt32 1 1 = 1065353216 :=
  roundRat_of_between fmt32 (by decide) (by decide) 1065353216 (by decide) (by decide) 1 1
    (by decide) (by decide) (by decide) (by decide)

example : roundRat fmt32 8388609 8388608 = 1065353217 :=
  roundRat_of_between fmt32 (by decide) (by decide) 1065353217 (by decide) (by decide)
    8388609 8388608 (by decide) (by decide) (by decide) (by decide)

/-- Non-vacuity of `decode_interval`: binary32 `1.0` is the `plus = 2` case. -/
example : decodeFinite fmt32 1065353216 = (33554432, 1, 2, -25, true) := by decide


end Dragon
end Scpi
