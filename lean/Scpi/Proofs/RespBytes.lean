/-
Byte-level facts about the model's response encoders (Response.lean) used by C04:
evaluation of `strBytes` on literals, decimal digits, the bytes of every kind of
response.
-/
import Scpi.Spec.Decode

namespace Scpi
open C04

/-! ### `strBytes` of a literal can be computed -/

theorem ByteArray_toList_loop (ba : ByteArray) (n : Nat) : ∀ (i : Nat) (r : List UInt8),
    ba.size - i = n → i ≤ ba.size →
    ByteArray.toList.loop ba i r = r.reverse ++ ba.data.toList.drop i := by
  induction n with
  | zero =>
    intro i r h hi
    have : i = ba.size := by omega
    subst this
    rw [ByteArray.toList.loop, if_neg (Nat.lt_irrefl _), ← ByteArray.size_data,
      ← Array.length_toList, List.drop_length, List.append_nil]
  | succ n ih =>
    intro i r h hi
    have hlt : i < ba.size := by omega
    rw [ByteArray.toList.loop, if_pos hlt, ih (i+1) _ (by omega) (by omega)]
    have hlt' : i < ba.data.toList.length := by
      rw [Array.length_toList, ByteArray.size_data]; exact hlt
    rw [List.drop_eq_getElem_cons hlt']
    have : ba.get! i = ba.data.toList[i] := by
      cases ba with
      | mk d =>
        have : i < d.size := by simpa using hlt'
        simp [ByteArray.get!, this]
    rw [this]
    simp

theorem ByteArray_toList (ba : ByteArray) : ba.toList = ba.data.toList := by
  unfold ByteArray.toList
  rw [ByteArray_toList_loop ba _ 0 [] rfl (Nat.zero_le _)]
  simp

theorem strBytes_ofList (l : List Char) :
    strBytes (String.ofList l) = (l.flatMap String.utf8EncodeChar).map UInt8.toNat := by
  unfold strBytes
  simp [String.toUTF8, List.utf8Encode, ByteArray_toList]

/-- `#10` -/
theorem strBytes_hash10 : strBytes "#10" = [35, 49, 48] := by
  have h : "#10" = String.ofList ['#', '1', '0'] := rfl
  rw [h, strBytes_ofList]; decide

/-- `9.91E+37` -/
theorem strBytes_nan : strBytes "9.91E+37" = [57, 46, 57, 49, 69, 43, 51, 55] := by
  have h : "9.91E+37" = String.ofList ['9', '.', '9', '1', 'E', '+', '3', '7'] := rfl
  rw [h, strBytes_ofList]; decide

/-- `9.9E+37` -/
theorem strBytes_inf : strBytes "9.9E+37" = [57, 46, 57, 69, 43, 51, 55] := by
  have h : "9.9E+37" = String.ofList ['9', '.', '9', 'E', '+', '3', '7'] := rfl
  rw [h, strBytes_ofList]; decide

/-- `-9.9E+37` -/
theorem strBytes_ninf : strBytes "-9.9E+37" = [45, 57, 46, 57, 69, 43, 51, 55] := by
  have h : "-9.9E+37" = String.ofList ['-', '9', '.', '9', 'E', '+', '3', '7'] := rfl
  rw [h, strBytes_ofList]; decide

/-! ### Generic list facts -/

theorem takeWhile_dropWhile_app {p : Nat → Bool} {l rest : Bytes} (hl : ∀ b ∈ l, p b = true)
    (hr : ∀ b, rest.head? = some b → p b = false) :
    (l ++ rest).takeWhile p = l ∧ (l ++ rest).dropWhile p = rest := by
  induction l with
  | nil =>
    cases rest with
    | nil => simp
    | cons c r =>
      have := hr c rfl
      simp [this]
  | cons a l ih =>
    have ha := hl a (by simp)
    have := ih (fun b hb => hl b (by simp [hb]))
    simp [ha, this]

/-! ### Decimal digits -/

theorem natDigits_eq_if (n : Nat) :
    natDigits n = if n < 10 then [48 + n] else natDigits (n / 10) ++ [48 + n % 10] := by
  unfold natDigits
  rw [Nat.toDigits_eq_if (by decide : 1 < 10)]
  split
  · rename_i h
    simp [Nat.toNat_digitChar_of_lt_ten h]
  · simp [Nat.toNat_digitChar_of_lt_ten (Nat.mod_lt n (by decide : 0 < 10))]

theorem natDigits_ne_nil (n : Nat) : natDigits n ≠ [] := by
  unfold natDigits; simp

theorem natDigits_all_dig (n : Nat) : ∀ b ∈ natDigits n, isDig b = true := by
  induction n using Nat.strongRecOn with
  | _ n ih =>
    rw [natDigits_eq_if]
    split
    · intro b hb
      simp only [List.mem_singleton] at hb
      subst hb; simp [isDig]; omega
    · intro b hb
      simp only [List.mem_append, List.mem_singleton] at hb
      rcases hb with hb | hb
      · exact ih (n / 10) (by omega) b hb
      · subst hb; simp [isDig]; omega

theorem decVal_snoc (l : Bytes) (d : Nat) : decVal (l ++ [d]) = decVal l * 10 + (d - 48) := by
  simp [decVal, List.foldl_append]

theorem decVal_natDigits (n : Nat) : decVal (natDigits n) = n := by
  induction n using Nat.strongRecOn with
  | _ n ih =>
    rw [natDigits_eq_if]
    split
    · simp [decVal]
    · rw [decVal_snoc, ih (n / 10) (by omega)]; omega

theorem natDigits_length_le_iff (n k : Nat) (h : 0 < k) :
    (natDigits n).length ≤ k ↔ n < 10 ^ k := by
  unfold natDigits
  rw [List.length_map]
  exact Nat.length_toDigits_le_iff (by decide) h

theorem natDigits_length_pos (n : Nat) : 0 < (natDigits n).length :=
  List.length_pos_iff.mpr (natDigits_ne_nil n)

/-- A single digit. -/
theorem natDigits_of_lt_ten (n : Nat) (h : n < 10) : natDigits n = [48 + n] := by
  rw [natDigits_eq_if, if_pos h]

/-- The first byte of a decimal number is a digit. -/
theorem natDigits_head (n : Nat) : ∃ d ds, natDigits n = d :: ds ∧ isDig d = true := by
  cases h : natDigits n with
  | nil => exact absurd h (natDigits_ne_nil n)
  | cons d ds => exact ⟨d, ds, rfl, natDigits_all_dig n d (by simp [h])⟩

/-- Reading back the digits of a natural number (followed by something that is
not a digit). -/
theorem decNat_natDigits (n : Nat) (rest : Bytes)
    (hr : ∀ b, rest.head? = some b → isDig b = false) :
    decNat (natDigits n ++ rest) = some (n, rest) := by
  unfold decNat
  obtain ⟨h1, h2⟩ := takeWhile_dropWhile_app (natDigits_all_dig n) hr
  simp only [h1, h2, decVal_natDigits]
  have := natDigits_ne_nil n
  cases h : natDigits n with
  | nil => exact absurd h this
  | cons d ds => simp

/-- Reading back an integer printed by `Display`. -/
theorem decInt_intPieces (v : Int) (rest : Bytes)
    (hr : ∀ b, rest.head? = some b → isDig b = false) :
    decInt ((intPieces v).flatten ++ rest) = some (v, rest) := by
  unfold intPieces decInt
  split
  · rename_i hneg
    simp only [List.flatten_cons, List.flatten_nil, List.append_nil, List.cons_append,
      List.nil_append, List.head?_cons, if_true, List.tail_cons]
    rw [decNat_natDigits _ _ hr]
    simp only [Option.map_some]
    congr 2
    omega
  · rename_i hpos
    simp only [List.flatten_cons, List.flatten_nil, List.append_nil]
    obtain ⟨d, ds, hd, hdig⟩ := natDigits_head v.toNat
    have h45 : ((natDigits v.toNat ++ rest).head? = some 45) = False := by
      rw [hd]
      simp only [List.cons_append, List.head?_cons, Option.some.injEq, eq_iff_iff, iff_false]
      intro h; subst h; simp [isDig] at hdig
    rw [if_neg (by rw [h45]; exact id)]
    rw [decNat_natDigits _ _ hr]
    simp only [Option.map_some]
    congr 2
    omega

/-! ### Quoted strings -/

/-- The text with every double quote doubled. -/
def dbl (s : Bytes) : Bytes := s.flatMap fun b => if b = 34 then [34, 34] else [b]

theorem quotedGo_bytes (s cur : Bytes) (first : Bool) :
    ((quotedCalls.go (splitQuote s cur) first).map WCall.bytes).flatten =
      (if first then [] else [34, 34]) ++ cur ++ dbl s := by
  induction s generalizing cur first with
  | nil => cases first <;> simp [splitQuote, quotedCalls.go, WCall.bytes, dbl]
  | cons b rest ih =>
    unfold splitQuote
    by_cases hb : b = 34
    · subst hb
      simp only [beq_self_eq_true, if_true]
      rw [quotedCalls.go]
      simp only [List.map_append, List.flatten_append, ih]
      cases first <;> simp [WCall.bytes, dbl]
    · have : (b == 34) = false := by simp [hb]
      simp only [this, Bool.false_eq_true, if_false]
      rw [ih]
      simp [dbl, hb]

/-- The bytes of `write_quoted`. -/
theorem quoted_bytes (s : Bytes) :
    ((quotedCalls s).map WCall.bytes).flatten = 34 :: dbl s ++ [34] := by
  unfold quotedCalls
  simp only [List.map_append, List.flatten_append, quotedGo_bytes]
  simp [WCall.bytes]

/-- Undoubling is the inverse of doubling. -/
theorem unquote_dbl (s rest : Bytes) (hr : rest.head? ≠ some 34) :
    unquote (dbl s ++ 34 :: rest) = some (s, rest) := by
  induction s with
  | nil =>
    simp only [dbl, List.flatMap_nil, List.nil_append]
    unfold unquote
    cases rest with
    | nil => simp
    | cons c r =>
      have : c ≠ 34 := by intro h; subst h; simp at hr
      simp [this]
  | cons b s ih =>
    have hd : dbl (b :: s) = (if b = 34 then [34, 34] else [b]) ++ dbl s := by
      simp [dbl]
    rw [hd]
    by_cases hb : b = 34
    · subst hb
      simp only [if_true, List.cons_append, List.nil_append]
      unfold unquote
      simp only [if_true]
      rw [ih]
      rfl
    · simp only [hb, if_false, List.cons_append, List.nil_append]
      unfold unquote
      simp only [hb, if_false]
      rw [ih]
      rfl

theorem decStr_quoted (s rest : Bytes) (hr : rest.head? ≠ some 34) :
    decStr (((quotedCalls s).map WCall.bytes).flatten ++ rest) = some (s, rest) := by
  rw [quoted_bytes]
  simp only [List.cons_append, List.append_assoc, List.nil_append]
  unfold decStr
  simp only [if_true]
  exact unquote_dbl s rest hr

/-! ### Bytes of each kind of response -/

/-- The bytes of a comma-separated sequence. -/
def seqEnc (l : List Resp) (first : Bool) : Bytes :=
  ((Resp.seqCalls l first).map WCall.bytes).flatten

theorem encode_unit : Resp.unit.encode = [] := by simp [Resp.encode, Resp.calls]

theorem encode_bool (b : Bool) : (Resp.bool b).encode = [if b then 49 else 48] := by
  simp [Resp.encode, Resp.calls, WCall.bytes]

theorem encode_int (v : Int) : (Resp.int v).encode = (intPieces v).flatten := by
  simp [Resp.encode, Resp.calls, WCall.bytes]

theorem encode_str (s : Bytes) : (Resp.str s).encode = 34 :: dbl s ++ [34] := by
  simp only [Resp.encode, Resp.calls]; exact quoted_bytes s

theorem encode_chars (s : Bytes) : (Resp.chars s).encode = s := by
  simp [Resp.encode, Resp.calls, WCall.bytes]

theorem floatCalls_bytes_finite (f : FloatFmt) (b : Nat) (hn : f.isNan b = false)
    (hi : f.isInf b = false) : ((floatCalls f b).map WCall.bytes).flatten = floatText f b := by
  simp [floatCalls, hn, hi, WCall.bytes, floatText]

theorem encode_f32 (b : Nat) (hn : fmt32.isNan b = false) (hi : fmt32.isInf b = false) :
    (Resp.f32 b).encode = floatText fmt32 b := by
  simp only [Resp.encode, Resp.calls]; exact floatCalls_bytes_finite _ _ hn hi

theorem encode_f64 (b : Nat) (hn : fmt64.isNan b = false) (hi : fmt64.isInf b = false) :
    (Resp.f64 b).encode = floatText fmt64 b := by
  simp only [Resp.encode, Resp.calls]; exact floatCalls_bytes_finite _ _ hn hi

theorem encode_err (e : Err) :
    (Resp.err e).encode = (intPieces e.number).flatten ++ 44 :: (34 :: dbl e.descBytes ++ [34]) := by
  simp only [Resp.encode, Resp.calls, List.map_append, List.flatten_append, quoted_bytes]
  simp [WCall.bytes]

theorem encode_arb_empty : (Resp.arb []).encode = [35, 49, 48] := by
  simp [Resp.encode, Resp.calls, WCall.bytes, strBytes_hash10]

/-- The number of length digits of a non-empty block below 10^9 bytes is a single
digit `1..9`. -/
theorem lenDigits_small (n : Nat) (h : n < 10 ^ 9) :
    (natDigits n).length ≤ 9 := (natDigits_length_le_iff n 9 (by decide)).mpr h

theorem encode_arb (s : Bytes) (h0 : 0 < s.length) (h : s.length < 10 ^ 9) :
    (Resp.arb s).encode =
      35 :: (48 + (natDigits s.length).length) :: (natDigits s.length ++ s) := by
  have hk := lenDigits_small _ h
  have hk' : ¬ (natDigits s.length).length > 9 := by omega
  simp only [Resp.encode, Resp.calls, h0, if_true, hk', if_false]
  rw [natDigits_of_lt_ten _ (by omega)]
  simp [WCall.bytes]

/-- A block of 10^9 bytes or more is refused before anything is written. -/
theorem calls_arb_too_long (s : Bytes) (h : 10 ^ 9 ≤ s.length) :
    (Resp.arb s).calls = [.fail (.std .TooMuchData)] := by
  have h0 : s.length > 0 := Nat.lt_of_lt_of_le (by decide) h
  have hk : (natDigits s.length).length > 9 := by
    have := (natDigits_length_le_iff s.length 9 (by decide))
    omega
  simp only [Resp.calls, h0, if_true, hk]

theorem encode_seq (l : List Resp) : (Resp.seq l).encode = seqEnc l true := by
  simp [Resp.encode, Resp.calls, seqEnc]

theorem seqEnc_nil (first : Bool) : seqEnc [] first = [] := by
  simp [seqEnc, Resp.seqCalls]

theorem seqEnc_cons (r : Resp) (rs : List Resp) (first : Bool) :
    seqEnc (r :: rs) first = (if first then [] else [44]) ++ r.encode ++ seqEnc rs false := by
  simp only [seqEnc, Resp.seqCalls, List.map_append, List.flatten_append, Resp.encode]
  cases first <;> simp [WCall.bytes]

/-- Reading back a block. -/
theorem decArb_encode (s rest : Bytes) (h : s.length < 10 ^ 9) :
    decArb ((Resp.arb s).encode ++ rest) = some (s, rest) := by
  by_cases h0 : s.length = 0
  · have : s = [] := List.length_eq_zero_iff.mp h0
    subst this
    rw [encode_arb_empty]
    simp [decArb, isDig, decVal]
  · have h0' : 0 < s.length := by omega
    rw [encode_arb s h0' h]
    have hk := lenDigits_small _ h
    have hp := natDigits_length_pos s.length
    simp only [List.cons_append, List.append_assoc]
    unfold decArb
    have hcond : (35 = 35 ∧ 49 ≤ 48 + (natDigits s.length).length ∧
        48 + (natDigits s.length).length ≤ 57) := ⟨rfl, by omega, by omega⟩
    simp only [hcond, and_self, if_true]
    have hsub : 48 + (natDigits s.length).length - 48 = (natDigits s.length).length := by omega
    rw [hsub]
    have ht : List.take (natDigits s.length).length (natDigits s.length ++ (s ++ rest))
        = natDigits s.length := by simp
    have hd : List.drop (natDigits s.length).length (natDigits s.length ++ (s ++ rest))
        = s ++ rest := by simp
    rw [ht, hd]
    have hall : (natDigits s.length).all isDig = true := by
      rw [List.all_eq_true]; exact natDigits_all_dig _
    simp [hall, decVal_natDigits]

end Scpi
