/-
Dispatcher-level facts for C04 (Exec.lean): when a response is written, what
exactly reaches the writer, and when nothing does.
-/
import Scpi.Exec
import Scpi.Spec.Decode
import Scpi.Proofs.RespWriter

namespace Scpi
open C04

/-! ### Values whose `write_response` never refuses -/

/-- The only refusal of `write_response` is a block of 10^9 bytes or more. -/
def LeafBlockOk : Resp → Prop
  | .arb s => s.length < 10 ^ 9
  | _ => True

mutual
theorem all_mono {P Q : Resp → Prop} (h : ∀ r, P r → Q r) : ∀ r : Resp, Resp.All P r → Resp.All Q r
  | .seq l, hr => by simp only [Resp.All] at hr ⊢; exact allL_mono h l hr
  | .unit, hr | .bool _, hr | .int _, hr | .f32 _, hr | .f64 _, hr | .str _, hr | .chars _, hr
  | .arb _, hr | .err _, hr => by simp only [Resp.All] at hr ⊢; exact h _ hr
theorem allL_mono {P Q : Resp → Prop} (h : ∀ r, P r → Q r) :
    ∀ l : List Resp, Resp.AllL P l → Resp.AllL Q l
  | [], _ => by simp [Resp.AllL]
  | r :: rs, hr => by
    simp only [Resp.AllL] at hr ⊢
    exact ⟨all_mono h r hr.1, allL_mono h rs hr.2⟩
end

theorem leafWF_blockOk (r : Resp) (h : r.LeafWF) : LeafBlockOk r := by
  cases r <;> simp only [LeafBlockOk] <;> first | trivial | exact h

theorem quotedGo_no_fail : ∀ (ps : List Bytes) (first : Bool),
    ∀ c ∈ quotedCalls.go ps first, c.isFail = false
  | [], _, c, hc => by simp [quotedCalls.go] at hc
  | p :: ps, first, c, hc => by
    rw [quotedCalls.go] at hc
    simp only [List.mem_append] at hc
    rcases hc with (hc | hc) | hc
    · cases first <;> simp at hc; subst hc; rfl
    · simp at hc; subst hc; rfl
    · exact quotedGo_no_fail ps false c hc

theorem quoted_no_fail (s : Bytes) : ∀ c ∈ quotedCalls s, c.isFail = false := by
  intro c hc
  unfold quotedCalls at hc
  simp only [List.mem_append, List.mem_singleton] at hc
  rcases hc with (hc | hc) | hc
  · subst hc; rfl
  · exact quotedGo_no_fail _ _ c hc
  · subst hc; rfl

theorem floatCalls_no_fail (f : FloatFmt) (b : Nat) : ∀ c ∈ floatCalls f b, c.isFail = false := by
  intro c hc
  unfold floatCalls at hc
  split at hc
  · simp at hc; subst hc; rfl
  · split at hc
    · split at hc <;> (simp at hc; subst hc; rfl)
    · simp at hc; subst hc; rfl

mutual
/-- A value without over-long blocks makes no refusing call. -/
theorem calls_no_fail : ∀ r : Resp, Resp.All LeafBlockOk r → ∀ c ∈ r.calls, c.isFail = false
  | .unit, _, c, hc => by simp [Resp.calls] at hc
  | .bool b, _, c, hc => by simp [Resp.calls] at hc; subst hc; rfl
  | .int v, _, c, hc => by simp [Resp.calls] at hc; subst hc; rfl
  | .f32 b, _, c, hc => by simp only [Resp.calls] at hc; exact floatCalls_no_fail _ _ c hc
  | .f64 b, _, c, hc => by simp only [Resp.calls] at hc; exact floatCalls_no_fail _ _ c hc
  | .str s, _, c, hc => by simp only [Resp.calls] at hc; exact quoted_no_fail s c hc
  | .chars s, _, c, hc => by simp [Resp.calls] at hc; subst hc; rfl
  | .arb s, h, c, hc => by
    simp only [Resp.All, LeafBlockOk] at h
    simp only [Resp.calls] at hc
    split at hc
    · have : ¬ (natDigits s.length).length > 9 := by
        have := (Nat.length_toDigits_le_iff (b := 10) (n := s.length) (k := 9) (by decide)
          (by decide)).mpr h
        simp only [natDigits, List.length_map]; omega
      simp only [this, if_false, List.mem_cons, List.not_mem_nil, or_false] at hc
      rcases hc with hc | hc <;> (subst hc; rfl)
    · simp at hc; subst hc; rfl
  | .err e, _, c, hc => by
    simp only [Resp.calls, List.mem_append, List.mem_cons, List.not_mem_nil, or_false] at hc
    rcases hc with (hc | hc) | hc
    · subst hc; rfl
    · subst hc; rfl
    · exact quoted_no_fail _ c hc
  | .seq l, h, c, hc => by
    simp only [Resp.All] at h
    simp only [Resp.calls] at hc
    exact seqCalls_no_fail l true h c hc
theorem seqCalls_no_fail : ∀ (l : List Resp) (first : Bool), Resp.AllL LeafBlockOk l →
    ∀ c ∈ Resp.seqCalls l first, c.isFail = false
  | [], _, _, c, hc => by simp [Resp.seqCalls] at hc
  | r :: rs, first, h, c, hc => by
    simp only [Resp.AllL] at h
    simp only [Resp.seqCalls, List.mem_append] at hc
    rcases hc with (hc | hc) | hc
    · cases first <;> simp at hc; subst hc; rfl
    · exact calls_no_fail r h.1 c hc
    · exact seqCalls_no_fail rs false h.2 c hc
end

theorem wf_no_fail (r : Resp) (h : r.WF) : ∀ c ∈ r.calls, c.isFail = false :=
  calls_no_fail r (all_mono leafWF_blockOk r h)

theorem encode_eq_callsBytes (r : Resp) : r.encode = callsBytes r.calls := rfl

/-! ### `execute_command` -/

/-- The handler of command `id` ran on the converted arguments in state `s`; it
left the state `s'` and returned the response value `resp`. -/
def Returned {σ : Type} (I : Iface σ) (id : Nat) (args : List Value) (s s' : σ) (resp : Resp) :
    Prop :=
  ∃ c tvs, I.cmds[id]? = some c ∧ args.length = c.argTys.length ∧
    convertArgs c.argTys args = .ok tvs ∧ c.handler s tvs = (s', .ok resp)

/-- What `execute_command` does once the handler has returned a value: it writes it. -/
theorem executeCommand_of_returned_ok {σ : Type} {I : Iface σ} {id : Nat} {args : List Value}
    {s s' : σ} {resp : Resp} (h : Returned I id args s s' resp) {w w' : Writer}
    (hw : w.writeResp resp = (w', .ok ())) :
    executeCommand I id args w s = (s', w', .ok) := by
  obtain ⟨c, tvs, hc, hlen, hconv, hh⟩ := h
  simp only [executeCommand, hc, hlen, ne_eq, not_true_eq_false, if_false, hconv, hh, hw]

theorem executeCommand_of_returned_err {σ : Type} {I : Iface σ} {id : Nat} {args : List Value}
    {s s' : σ} {resp : Resp} (h : Returned I id args s s' resp) {w w' : Writer} {e : Err}
    (hw : w.writeResp resp = (w', .error e)) :
    executeCommand I id args w s = (s', w', .err e) := by
  obtain ⟨c, tvs, hc, hlen, hconv, hh⟩ := h
  simp only [executeCommand, hc, hlen, ne_eq, not_true_eq_false, if_false, hconv, hh, hw]

/-- If `execute_command` succeeds, the handler returned a value and that value was
written successfully. -/
theorem executeCommand_ok {σ : Type} {I : Iface σ} {id : Nat} {args : List Value} {w w' : Writer}
    {s s' : σ} (h : executeCommand I id args w s = (s', w', .ok)) :
    ∃ resp, Returned I id args s s' resp ∧ w.writeResp resp = (w', .ok ()) := by
  unfold executeCommand at h
  cases hc : I.cmds[id]? with
  | none => simp [hc] at h
  | some c =>
    simp only [hc] at h
    by_cases hlen : args.length = c.argTys.length
    · simp only [hlen, ne_eq, not_true_eq_false, if_false] at h
      cases hconv : convertArgs c.argTys args with
      | error x => cases x <;> simp [hconv] at h
      | ok tvs =>
        simp only [hconv] at h
        cases hh : c.handler s tvs with
        | mk s1 res =>
          cases res with
          | error e => simp [hh] at h
          | ok resp =>
            simp only [hh] at h
            cases hw : w.writeResp resp with
            | mk w1 res' =>
              cases res' with
              | error e => simp [hw] at h
              | ok u =>
                simp only [hw, Prod.mk.injEq, and_true] at h
                obtain ⟨hs, hw'⟩ := h
                subst hs; subst hw'
                exact ⟨resp, ⟨c, tvs, hc, hlen, hconv, hh⟩, hw⟩
    · simp [hlen] at h

/-- If the handler was not run, or it failed, the writer is untouched and the
result is not `ok`. -/
theorem executeCommand_not_returned {σ : Type} {I : Iface σ} {id : Nat} {args : List Value}
    {s : σ} (h : ∀ s' resp, ¬ Returned I id args s s' resp) (w : Writer) :
    (executeCommand I id args w s).2.1 = w ∧
      ∀ s' w', executeCommand I id args w s ≠ (s', w', .ok) := by
  refine ⟨?_, fun s' w' he => ?_⟩
  · unfold executeCommand
    cases hc : I.cmds[id]? with
    | none => rfl
    | some c =>
      simp only
      by_cases hlen : args.length = c.argTys.length
      · simp only [hlen, ne_eq, not_true_eq_false, if_false]
        cases hconv : convertArgs c.argTys args with
        | error x => cases x <;> rfl
        | ok tvs =>
          simp only
          cases hh : c.handler s tvs with
          | mk s1 res =>
            cases res with
            | error e => rfl
            | ok resp => exact absurd ⟨c, tvs, hc, hlen, hconv, hh⟩ (h s1 resp)
      · simp [hlen]
  · obtain ⟨resp, hr, _⟩ := executeCommand_ok he
    exact h s' resp hr

/-! ### `Interface::execute` -/

/-- The handler slot a call selects. -/
def callSlot (call : CommandCall) : Option Nat :=
  if call.query then call.node.query else call.node.command

theorem execute_undefined {σ : Type} (I : Iface σ) (call : CommandCall) (w : Writer) (s : σ)
    (h : callSlot call = none) : execute I call w s = (s, w, .err (.std .UndefinedHeader)) := by
  unfold callSlot at h
  simp only [execute, h]

theorem execute_cmd_err {σ : Type} (I : Iface σ) (call : CommandCall) (w : Writer) (s : σ) (id : Nat)
    (h : callSlot call = some id) {s' : σ} {w' : Writer} {e : Err}
    (hec : executeCommand I id call.args w s = (s', w', .err e)) :
    execute I call w s = (s', w', .err e) := by
  unfold callSlot at h
  simp only [execute, h, hec]

theorem execute_cmd_crash {σ : Type} (I : Iface σ) (call : CommandCall) (w : Writer) (s : σ)
    (id : Nat) (h : callSlot call = some id) {s' : σ} {w' : Writer} {c : Crash}
    (hec : executeCommand I id call.args w s = (s', w', .crash c)) :
    execute I call w s = (s', w', .crash c) := by
  unfold callSlot at h
  simp only [execute, h, hec]

/-- A command (not a query) that succeeded: nothing is added after the response. -/
theorem execute_cmd_ok_command {σ : Type} (I : Iface σ) (call : CommandCall) (w : Writer) (s : σ)
    (id : Nat) (h : callSlot call = some id) (hq : call.query = false) {s' : σ} {w' : Writer}
    (hec : executeCommand I id call.args w s = (s', w', .ok)) :
    execute I call w s = (s', w', .ok) := by
  unfold callSlot at h
  simp only [hq, Bool.false_eq_true, if_false] at h
  simp only [execute, hq, Bool.false_eq_true, if_false, h, hec]

/-- A query that succeeded and whose newline fits: newline, then flush. -/
theorem execute_cmd_ok_query {σ : Type} (I : Iface σ) (call : CommandCall) (w : Writer) (s : σ)
    (id : Nat) (h : callSlot call = some id) (hq : call.query = true) {s' : σ} {w' : Writer}
    (hec : executeCommand I id call.args w s = (s', w', .ok)) (hf : w'.fits 1 = true) :
    execute I call w s = (s', (w'.push [10]).flush, .ok) := by
  unfold callSlot at h
  simp only [hq, if_true] at h
  simp only [execute, hq, if_true, h, hec, Writer.call, List.length_singleton, hf]

/-- A query that succeeded but whose newline does not fit. -/
theorem execute_cmd_ok_query_full {σ : Type} (I : Iface σ) (call : CommandCall) (w : Writer)
    (s : σ) (id : Nat) (h : callSlot call = some id) (hq : call.query = true) {s' : σ}
    {w' : Writer} (hec : executeCommand I id call.args w s = (s', w', .ok))
    (hf : w'.fits 1 = false) :
    execute I call w s = (s', w', .err (.std .TooMuchData)) := by
  unfold callSlot at h
  simp only [hq, if_true] at h
  simp only [execute, hq, if_true, h, hec, Writer.call, List.length_singleton, hf,
    Bool.false_eq_true, if_false]

/-- A successful query: the handler returned `resp`; the writer received the bytes
of `resp`, a newline, and then exactly one flush. -/
theorem execute_query_ok_aux {σ : Type} {I : Iface σ} {call : CommandCall} {w w' : Writer}
    {s s' : σ} (h : execute I call w s = (s', w', .ok)) (hq : call.query = true) :
    ∃ id resp w1, call.node.query = some id ∧ Returned I id call.args s s' resp ∧
      w.writeResp resp = (w1, .ok ()) ∧ w' = (w1.push [10]).flush ∧ w1.fits 1 = true := by
  cases hs : callSlot call with
  | none => rw [execute_undefined I call w s hs] at h; simp at h
  | some id =>
    have hs' : call.node.query = some id := by simpa [callSlot, hq] using hs
    cases hec : executeCommand I id call.args w s with
    | mk s1 p =>
      cases p with
      | mk w1 r1 =>
        cases r1 with
        | err e => rw [execute_cmd_err I call w s id hs hec] at h; simp at h
        | crash c => rw [execute_cmd_crash I call w s id hs hec] at h; simp at h
        | ok =>
          cases hf : w1.fits 1 with
          | false => rw [execute_cmd_ok_query_full I call w s id hs hq hec hf] at h; simp at h
          | true =>
            rw [execute_cmd_ok_query I call w s id hs hq hec hf] at h
            simp only [Prod.mk.injEq, and_true] at h
            obtain ⟨hs1, hw1⟩ := h
            subst hs1
            obtain ⟨resp, hr, hw⟩ := executeCommand_ok hec
            exact ⟨id, resp, w1, hs', hr, hw, hw1.symm, hf⟩

end Scpi
