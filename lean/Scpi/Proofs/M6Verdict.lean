/-
C06 at the level of whole messages — vocabulary and the simulation lemmas.

* `UnitVerdict`: the classification of one program message unit against an interface,
  a current path, and the writer and user state at the point where the unit is reached
  (`verdict`, `verdictOn` — the branches of `Scpi.Msg.specUnit`, read off one by one).
* `reports`: the verdict of every unit that `specExec` REACHES, in order, paired with
  the handler invocation the unit makes (`invokedOn`).  The list stops behind a unit
  whose header does not resolve: the units after it are dropped, not classified.
* `specUnit_instrument`, `specExec_instrument`: the instrumented interface
  (`Iface.instrument`, in particular `Iface.logged` and `Iface.traced`) does to writer
  and user state what the plain one does and appends to its log, unit by unit, the
  invocation made and the error of the verdict.
-/
import Scpi.Proofs.MsgCor

namespace Scpi
namespace M6
open Msg

/-- What happens to one unit. -/
inductive UnitVerdict where
  /-- the header does not resolve to a node: a parse-level fault -/
  | undefined
  /-- the node exists but has no handler of the kind (command / query) asked for -/
  | noSlot
  /-- wrong number of parameters -/
  | arity
  /-- a parameter does not convert to its declared type (`e`: the first such error) -/
  | conversion (e : Err)
  /-- the handler ran and returned the error `e` -/
  | handlerError (e : Err)
  /-- the handler ran and succeeded; writing its response failed with `e` -/
  | writeError (e : Err)
  /-- executed, response written -/
  | ok
  deriving DecidableEq, Repr

namespace UnitVerdict

/-- The error the verdict hands to the error handler. -/
def error : UnitVerdict → Option Err
  | undefined => some (.std .UndefinedHeader)
  | noSlot => some (.std .UndefinedHeader)
  | arity => some (.std .UnexpectedNumberOfParameters)
  | conversion e => some e
  | handlerError e => some e
  | writeError e => some e
  | ok => none

/-- The unit's handler is invoked. -/
def invokes : UnitVerdict → Bool
  | handlerError _ => true
  | writeError _ => true
  | ok => true
  | _ => false

/-- An execution-level fault: the unit was accepted by the parser and failed later. -/
def execLevel : UnitVerdict → Bool
  | undefined => false
  | ok => false
  | _ => true

end UnitVerdict

/-- The verdict of a unit on the node its header designates: the branches of
`specUnit`. -/
def verdictOn {σ : Type} (I : Iface σ) (node : Node) (query : Bool) (args : List Value)
    (w : Writer) (s : σ) : UnitVerdict :=
  match slotCmd I node query with
  | none => .noSlot
  | some c =>
    if args.length ≠ c.argTys.length then .arity
    else
      match convertAll c.argTys args with
      | .error e => .conversion e
      | .ok tvs =>
        match c.handler s tvs with
        | (_, .error e) => .handlerError e
        | (_, .ok resp) =>
          match reply query w resp with
          | (_, .error e) => .writeError e
          | (_, .ok ()) => .ok

/-- The verdict of the unit `u` read with the current path `cur`, on writer `w` and user
state `s`. -/
def verdict {σ : Type} (I : Iface σ) (cur : Node) (u : MsgUnit) (w : Writer) (s : σ) : UnitVerdict :=
  match resolve I.root cur u.hdr.path with
  | none => .undefined
  | some (node, _) => verdictOn I node u.hdr.query (u.lits.map Lit.value) w s

/-- The handler invocation a unit on `node` makes — table index and converted
parameters — if it gets that far (slot present, arity right, all parameters convert).
It does not depend on writer and state. -/
def invokedOn {σ : Type} (I : Iface σ) (node : Node) (query : Bool) (args : List Value) :
    Option (Nat × List TVal) :=
  (if query then node.query else node.command).bind fun id =>
    (I.cmds[id]?).bind fun c =>
      if args.length ≠ c.argTys.length then none
      else
        match convertAll c.argTys args with
        | .error _ => none
        | .ok tvs => some (id, tvs)

/-- Verdict and invocation of one reached unit. -/
abbrev Report := UnitVerdict × Option (Nat × List TVal)

/-- Verdict and invocation of every unit `specExec` reaches, threading path, writer and
user state exactly as `specExec` does.  Behind a header that does not resolve the list
ends: the remaining units are dropped. -/
def reports {σ : Type} (I : Iface σ) : Node → List MsgUnit → Writer → σ → List Report
  | _, [], _, _ => []
  | cur, u :: us, w, s =>
    match resolve I.root cur u.hdr.path with
    | none => [(.undefined, none)]
    | some (node, parent) =>
      (verdictOn I node u.hdr.query (u.lits.map Lit.value) w s,
        invokedOn I node u.hdr.query (u.lits.map Lit.value)) ::
        reports I (parent.getD cur) us
          (specUnit I node u.hdr.query (u.lits.map Lit.value) w s).1
          (specUnit I node u.hdr.query (u.lits.map Lit.value) w s).2

/-- The verdicts of the units reached, in order. -/
def verdicts {σ : Type} (I : Iface σ) (cur : Node) (us : List MsgUnit) (w : Writer) (s : σ) :
    List UnitVerdict :=
  (reports I cur us w s).map (·.1)

/-- The path with which the unit behind the units `us` is read, when `us` is read with
the path `cur` (a function of the tree and the headers alone). -/
def pathThrough (root : Node) : Node → List MsgUnit → Node
  | cur, [] => cur
  | cur, u :: us =>
    match resolve root cur u.hdr.path with
    | none => cur
    | some (_, parent) => pathThrough root (parent.getD cur) us

/-- What an optional error appends to a log. -/
def errLog {ε : Type} (fe : Err → List ε) : Option Err → List ε
  | none => []
  | some e => fe e

/-- What one reached unit appends to the log of an instrumented interface: the
invocation, then the error. -/
def reportLog {ε : Type} (fc : Nat → List TVal → List ε) (fe : Err → List ε) (r : Report) : List ε :=
  callLog fc r.2 ++ errLog fe r.1.error

/-! ### One unit under instrumentation -/

theorem specUnit_instrument {σ ε : Type} (I : Iface σ) (fc : Nat → List TVal → List ε)
    (fe : Err → List ε) (node : Node) (q : Bool) (args : List Value) (w : Writer) (s : σ)
    (l : List ε) :
    specUnit (I.instrument fc fe) node q args w (s, l) =
      ((specUnit I node q args w s).1, ((specUnit I node q args w s).2,
        l ++ reportLog fc fe (verdictOn I node q args w s, invokedOn I node q args))) := by
  unfold specUnit verdictOn invokedOn slotCmd reportLog
  cases hs : (if q then node.query else node.command) with
  | none => simp [callLog, errLog, Iface.instrument, UnitVerdict.error]
  | some id =>
    simp only [Option.bind_some, instrument_cmds_get]
    cases hc : I.cmds[id]? with
    | none => simp [callLog, errLog, Iface.instrument, UnitVerdict.error]
    | some c =>
      simp only [Option.map_some, Option.bind_some]
      have hty : (Cmd.instrument (fc id) c).argTys = c.argTys := rfl
      rw [hty]
      by_cases hl : args.length ≠ c.argTys.length
      · simp [hl, callLog, errLog, Iface.instrument, UnitVerdict.error]
      · simp only [if_neg hl]
        cases hca : convertAll c.argTys args with
        | error e => simp [callLog, errLog, Iface.instrument, UnitVerdict.error]
        | ok tvs =>
          rcases hh : c.handler s tvs with ⟨s1, r⟩
          have hi : (Cmd.instrument (fc id) c).handler (s, l) tvs = ((s1, l ++ fc id tvs), r) := by
            simp [Cmd.instrument, hh]
          simp only [hi, hh, callLog]
          cases r with
          | error e => simp [errLog, Iface.instrument, UnitVerdict.error]
          | ok resp =>
            simp only []
            rcases hrp : reply q w resp with ⟨w', r'⟩
            cases r' with
            | error e => simp [errLog, Iface.instrument, UnitVerdict.error]
            | ok x => cases x; simp [errLog, UnitVerdict.error]

/-! ### A message under instrumentation -/

theorem specExec_instrument {σ ε : Type} (I : Iface σ) (fc : Nat → List TVal → List ε)
    (fe : Err → List ε) : ∀ (us : List MsgUnit) (cur : Node) (w : Writer) (s : σ) (l : List ε),
    specExec (I.instrument fc fe) cur us w (s, l) =
      ((specExec I cur us w s).1, ((specExec I cur us w s).2,
        l ++ (reports I cur us w s).flatMap (reportLog fc fe)))
  | [], _, _, _, _ => by simp [specExec, reports]
  | u :: us, cur, w, s, l => by
    simp only [specExec, reports, instrument_root]
    cases hr : resolve I.root cur u.hdr.path with
    | none =>
      simp [Iface.instrument, reportLog, callLog, errLog, UnitVerdict.error]
    | some np =>
      obtain ⟨node, parent⟩ := np
      simp only [specUnit_instrument]
      rw [specExec_instrument I fc fe us]
      simp [List.flatMap_cons, List.append_assoc]

end M6
end Scpi
