/-
Writers (Response.lean): a sequence of writer calls that succeeds has written
exactly the bytes of the calls, whatever the writer; and it succeeds whenever the
writer has room and no call is a refusal (C04, T4.3).
-/
import Scpi.Response

namespace Scpi

/-- The call is a refusal by `write_response` itself (a block of 10^9 bytes or more). -/
def WCall.isFail : WCall → Bool
  | .fail _ => true
  | _ => false

/-- All bytes of a list of calls. -/
def callsBytes (cs : List WCall) : Bytes := (cs.map WCall.bytes).flatten

theorem callsBytes_nil : callsBytes [] = [] := rfl
theorem callsBytes_cons (c : WCall) (cs : List WCall) :
    callsBytes (c :: cs) = c.bytes ++ callsBytes cs := by simp [callsBytes]

namespace Writer

/-- What a writer has gained: same capacity, the bytes `b` appended to the buffer,
and the new events are write events whose concatenation is `b` (no flush). -/
def Wrote (w w' : Writer) (b : Bytes) : Prop :=
  w'.cap = w.cap ∧ w'.buf = w.buf ++ b ∧
    ∃ ws : List Bytes, w'.evs = w.evs ++ ws.map WEv.w ∧ ws.flatten = b

theorem Wrote.refl (w : Writer) : Wrote w w [] := ⟨rfl, by simp, [], by simp, rfl⟩

theorem Wrote.trans {w1 w2 w3 : Writer} {a b : Bytes} (h1 : Wrote w1 w2 a) (h2 : Wrote w2 w3 b) :
    Wrote w1 w3 (a ++ b) := by
  obtain ⟨c1, b1, ws1, e1, f1⟩ := h1
  obtain ⟨c2, b2, ws2, e2, f2⟩ := h2
  refine ⟨c2.trans c1, by rw [b2, b1, List.append_assoc], ws1 ++ ws2, ?_, ?_⟩
  · rw [e2, e1]; simp
  · simp [f1, f2]

theorem wrote_push (w : Writer) (b : Bytes) : Wrote w (w.push b) b :=
  ⟨rfl, rfl, [b], by simp [push], by simp⟩

theorem fits_mono {w : Writer} {n m : Nat} (h : w.fits n = true) (hm : m ≤ n) :
    w.fits m = true := by
  unfold fits at *
  cases hc : w.cap with
  | none => rfl
  | some c => simp only [hc, decide_eq_true_eq] at h ⊢; omega

theorem fits_push {w : Writer} {p : Bytes} {n : Nat} (h : w.fits (p.length + n) = true) :
    (w.push p).fits n = true := by
  unfold fits at *
  simp only [push]
  cases hc : w.cap with
  | none => rfl
  | some c => simp only [hc, decide_eq_true_eq, List.length_append] at h ⊢; omega

theorem fits_wrote {w w' : Writer} {b : Bytes} {n : Nat} (hw : Wrote w w' b)
    (h : w.fits (b.length + n) = true) : w'.fits n = true := by
  obtain ⟨hc, hb, _⟩ := hw
  unfold fits at *
  rw [hc, hb]
  cases hcap : w.cap with
  | none => rfl
  | some c => simp only [hcap, decide_eq_true_eq, List.length_append] at h ⊢; omega

/-- Pieces of a `write_fmt` that all went through. -/
theorem pushPieces_true : ∀ (ps : List Bytes) (w w' : Writer), w.pushPieces ps = (w', true) →
    Wrote w w' ps.flatten
  | [], w, w', h => by
    simp only [pushPieces, Prod.mk.injEq, and_true] at h
    subst h; exact Wrote.refl w
  | p :: ps, w, w', h => by
    unfold pushPieces at h
    split at h
    · have := pushPieces_true ps (w.push p) w' h
      simpa using (wrote_push w p).trans this
    · simp at h

theorem pushPieces_fits : ∀ (ps : List Bytes) (w : Writer), w.fits ps.flatten.length = true →
    ∃ w', w.pushPieces ps = (w', true)
  | [], w, _ => ⟨w, rfl⟩
  | p :: ps, w, h => by
    simp only [List.flatten_cons, List.length_append] at h
    unfold pushPieces
    rw [if_pos (fits_mono h (Nat.le_add_right _ _))]
    exact pushPieces_fits ps (w.push p) (fits_push h)

/-- One successful call has written exactly its bytes. -/
theorem call_ok {w w' : Writer} {c : WCall} (h : w.call c = (w', .ok ())) : Wrote w w' c.bytes := by
  cases c with
  | direct b =>
    simp only [call] at h
    split at h
    · simp only [Prod.mk.injEq, and_true] at h; subst h; exact wrote_push w b
    · simp at h
  | fmt ps =>
    simp only [call] at h
    split at h
    · simp only [Prod.mk.injEq, and_true] at h; subst h; exact wrote_push w _
    · split at h
      · rename_i w1 hp
        simp only [Prod.mk.injEq, and_true] at h; subst h
        exact pushPieces_true ps w w1 hp
      · simp at h
  | fail e => simp [call] at h

/-- A call that is not a refusal succeeds when there is room for its bytes. -/
theorem call_fits {w : Writer} {c : WCall} (hf : c.isFail = false)
    (h : w.fits c.bytes.length = true) : ∃ w', w.call c = (w', .ok ()) := by
  cases c with
  | direct b =>
    simp only [WCall.bytes] at h
    exact ⟨w.push b, by simp [call, h]⟩
  | fmt ps =>
    simp only [WCall.bytes] at h
    simp only [call]
    split
    · exact ⟨_, rfl⟩
    · obtain ⟨w', hw'⟩ := pushPieces_fits ps w h
      exact ⟨w', by rw [hw']⟩
  | fail e => simp [WCall.isFail] at hf

/-- **Completeness of what was written**: if a sequence of calls succeeds, the
writer — whichever it is — has received exactly the bytes of the calls, in order. -/
theorem calls_ok : ∀ (cs : List WCall) (w w' : Writer), w.calls cs = (w', .ok ()) →
    Wrote w w' (callsBytes cs)
  | [], w, w', h => by
    simp only [calls, Prod.mk.injEq, and_true] at h
    subst h; exact Wrote.refl w
  | c :: cs, w, w', h => by
    unfold calls at h
    split at h
    · rename_i w1 hc
      rw [callsBytes_cons]
      exact (call_ok hc).trans (calls_ok cs w1 w' h)
    · simp at h

/-- **Success when there is room**: without refusals and with room for all the
bytes, every call succeeds. -/
theorem calls_fits : ∀ (cs : List WCall) (w : Writer), (∀ c ∈ cs, c.isFail = false) →
    w.fits (callsBytes cs).length = true → ∃ w', w.calls cs = (w', .ok ())
  | [], w, _, _ => ⟨w, rfl⟩
  | c :: cs, w, hf, h => by
    rw [callsBytes_cons, List.length_append] at h
    obtain ⟨w1, h1⟩ := call_fits (hf c (by simp)) (fits_mono h (Nat.le_add_right _ _))
    have hw := call_ok h1
    obtain ⟨w2, h2⟩ := calls_fits cs w1 (fun c hc => hf c (by simp [hc])) (fits_wrote hw h)
    exact ⟨w2, by unfold calls; rw [h1]; exact h2⟩

/-- A refusal as the only call: an error and an untouched writer. -/
theorem calls_fail (w : Writer) (e : Err) : w.calls [.fail e] = (w, .error e) := by
  simp [calls, call]

end Writer
end Scpi
