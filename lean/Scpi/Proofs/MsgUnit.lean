/-
`Msg.specUnit` (Scpi/Spec/MsgAst.lean) is what the loop of `run_from` does with one
accepted unit: `execute`, then `onError` iff the outcome is an error.
-/
import Scpi.Spec.MsgAst
import Scpi.Proofs.RunSteps
import Scpi.Proofs.RunStepsExec

namespace Scpi
namespace Msg

/-- With the arity checked, the dispatcher's `convertArgs` is `convertAll` (the
`unwrap` on a missing parameter cannot fail). -/
theorem convertArgs_eq_convertAll : ∀ (tys : List Ty) (args : List Value),
    args.length = tys.length →
    convertArgs tys args =
      match convertAll tys args with
      | .ok tvs => .ok tvs
      | .error e => .error (.inl e)
  | [], [], _ => rfl
  | [], _ :: _, h => by cases h
  | _ :: _, [], h => by cases h
  | t :: ts, v :: vs, h => by
    have ih := convertArgs_eq_convertAll ts vs (by simpa using h)
    simp only [convertArgs, convertAll]
    cases convert t v with
    | error e => rfl
    | ok tv =>
      simp only [ih]
      cases convertAll ts vs <;> rfl

/-- `reply` is `respond` with the outcome as an `Except`. -/
theorem respond_eq_reply (q : Bool) (w : Writer) (resp : Resp) :
    respond q w resp =
      match reply q w resp with
      | (w', .ok ()) => (w', .ok)
      | (w', .error e) => (w', .err e) := by
  unfold respond reply
  rcases w.writeResp resp with ⟨w', r⟩
  cases r with
  | error e => rfl
  | ok u =>
    cases u
    simp only []
    cases q with
    | false => rfl
    | true =>
      simp only [if_true]
      rcases w'.call (.direct [10]) with ⟨w'', r'⟩
      cases r' with
      | error e => rfl
      | ok u' => cases u'; rfl

theorem slotCmd_eq_resolveCmd {σ : Type} (I : Iface σ) (call : CommandCall) :
    slotCmd I call.node call.query = resolveCmd I call := rfl

/-- **One unit**: `specUnit` on the node, query flag and arguments of a call is the
writer `execute` leaves and the user state after `execute` and the error report. -/
theorem specUnit_eq_execute {σ : Type} (I : Iface σ) (call : CommandCall) (w : Writer) (s : σ) :
    specUnit I call.node call.query call.args w s =
      ((execute I call w s).2.1,
       reportExec I (execute I call w s).1 (execute I call w s).2.2) := by
  rw [execute_eq]
  unfold specUnit
  rw [slotCmd_eq_resolveCmd]
  cases resolveCmd I call with
  | none => rfl
  | some c =>
    simp only []
    by_cases hl : call.args.length = c.argTys.length
    · simp only [hl, ne_eq, not_true_eq_false, if_false]
      rw [convertArgs_eq_convertAll c.argTys call.args hl]
      cases convertAll c.argTys call.args with
      | error e => rfl
      | ok tvs =>
        simp only []
        rcases c.handler s tvs with ⟨s', r⟩
        cases r with
        | error e => rfl
        | ok resp =>
          simp only [respond_eq_reply]
          rcases reply call.query w resp with ⟨w', r'⟩
          cases r' with
          | error e => rfl
          | ok u => cases u; rfl
    · simp only [ne_eq, hl, not_false_eq_true, if_true]
      rfl

/-- The same with the call spelled out. -/
theorem specUnit_eq_execute' {σ : Type} (I : Iface σ) (node : Node) (hdr : Option Node) (q t : Bool)
    (args : List Value) (w : Writer) (s : σ) :
    specUnit I node q args w s =
      ((execute I { node := node, header := hdr, query := q, args := args, terminated := t } w s).2.1,
       reportExec I
         (execute I { node := node, header := hdr, query := q, args := args, terminated := t } w s).1
         (execute I { node := node, header := hdr, query := q, args := args, terminated := t } w s).2.2) :=
  specUnit_eq_execute I { node := node, header := hdr, query := q, args := args, terminated := t } w s

end Msg
end Scpi
