/-
Helpers for C03 (float part), stage 4: `roundRat` returns a nearest grid point, ties to
even — assembled from the stages of `ConvRound.lean` and the grid facts of `ConvGrid.lean`.
-/
import Scpi.Proofs.ConvRound

namespace Scpi
namespace C03

/-- Facts about the run of `roundRat f n d` that the nearest-point argument needs,
gathered in one place: the spacing `2^k`, the un-rounded quotient `q0` with its
bracket of `N = n · funitDen`, and the result `b`. -/
theorem roundRat_run (f : FloatFmt) (hm : 1 ≤ f.mbits) (he : 2 ≤ f.ebits) (n d : Nat)
    (hn : n ≠ 0) (hd : 0 < d) :
    ∃ k q0 A C : Nat,
      (k = 0 ∨ 2 ^ f.mbits ≤ q0) ∧
      q0 * 2 ^ k * d + A = n * funitDen f ∧ n * funitDen f + C = (q0 + 1) * 2 ^ k * d ∧ 0 < C ∧
      roundRat f n d ≤ f.infBits ∧
      ((fscaled f (roundRat f n d) = q0 * 2 ^ k ∧ A ≤ C ∧
          (A = C → f.fracOf (roundRat f n d) % 2 = 0)) ∨
       (fscaled f (roundRat f n d) = (q0 + 1) * 2 ^ k ∧ C ≤ A ∧
          (A = C → f.fracOf (roundRat f n d) % 2 = 0)) ∨
       (roundRat f n d = f.infBits ∧ fscaled f f.infBits ≤ q0 * 2 ^ k)) := by
  have hbias : 1 ≤ f.bias := by
    unfold FloatFmt.bias
    have : 2 ^ 1 ≤ 2 ^ (f.ebits - 1) := Nat.pow_le_pow_right (by decide) (by omega)
    omega
  obtain ⟨hge, hnge⟩ := chooseE_spec n d hn (by omega)
  obtain ⟨k, hk, hle, hkpos⟩ := clampE_eq f (chooseE n d)
  rw [roundRat_eq f n d hn, scaledPair_eq, hk]
  simp only []
  -- the scaled fraction
  have hsh : (1 - (f.bias : Int) + k - f.mbits) = (1 - (f.bias : Int) + k) - f.mbits := rfl
  generalize hshd : (1 - (f.bias : Int) + (k : Int) - (f.mbits : Int)) = sh
  have hstar := scaled_star f n d k (by omega) sh hshd.symm
  have hnge' : ¬ GeI n d (1 - (f.bias : Int) + k + 1) := by
    intro h
    exact hnge (geI_mono (by omega) h)
  have hq0lt := q0_lt n d hd f.mbits (1 - (f.bias : Int) + k) sh hshd.symm hnge'
  have hq0ge : 0 < k → 2 ^ f.mbits ≤ (n * 2 ^ (-sh).toNat) / (d * 2 ^ sh.toNat) := by
    intro hk0
    apply q0_ge n d hd f.mbits (1 - (f.bias : Int) + k) sh hshd.symm
    rw [← hk, hkpos hk0]
    exact hge
  have hden : 0 < d * 2 ^ sh.toNat := Nat.mul_pos hd (two_pow_pos' _)
  have hW : 0 < d * 2 ^ k := Nat.mul_pos hd (two_pow_pos' _)
  obtain ⟨hb1, hb2, hb3, hb4⟩ := bracket _ _ _ _ hden hW hstar
  have hr := Nat.mod_lt (n * 2 ^ (-sh).toNat) hden
  obtain ⟨hc1, hc2⟩ := gaps_compare _ _ _ _ _ hden hW hr hb3 hb4
  have hrq := roundQ_cases (n * 2 ^ (-sh).toNat) (d * 2 ^ sh.toNat)
  generalize roundQ (n * 2 ^ (-sh).toNat) (d * 2 ^ sh.toNat) = q at *
  generalize (n * 2 ^ (-sh).toNat) / (d * 2 ^ sh.toNat) = q0 at *
  generalize (n * 2 ^ (-sh).toNat) % (d * 2 ^ sh.toNat) = r at *
  have hfin := finish_spec f hm he q q0 k (by omega) hq0lt hq0ge
  generalize finish f q (1 - (f.bias : Int) + k) = b at *
  obtain ⟨hbinf, hfin⟩ := hfin
  have hV0 : q0 * 2 ^ k * d = q0 * (d * 2 ^ k) := by ac_rfl
  have hV1 : (q0 + 1) * 2 ^ k * d = (q0 + 1) * (d * 2 ^ k) := by ac_rfl
  refine ⟨k, q0, n * funitDen f - q0 * (d * 2 ^ k), (q0 + 1) * (d * 2 ^ k) - n * funitDen f,
    ?_, by omega, by omega, by omega, hbinf, ?_⟩
  · rcases Nat.eq_zero_or_pos k with h | h
    · exact Or.inl h
    · exact Or.inr (hq0ge h)
  · rcases hfin with ⟨hfs, hpar⟩ | ⟨hbi, htop⟩
    · rcases hrq with ⟨hq, hcond⟩ | ⟨hq, hcond⟩
      · subst hq
        refine Or.inl ⟨hfs, by omega, fun hAC => hpar ?_⟩
        have : 2 * r = d * 2 ^ sh.toNat := hc2.mpr hAC
        omega
      · subst hq
        refine Or.inr (Or.inl ⟨hfs, by omega, fun hAC => hpar ?_⟩)
        have : 2 * r = d * 2 ^ sh.toNat := hc2.mpr hAC
        omega
    · exact Or.inr (Or.inr ⟨hbi, htop⟩)

/-- **Nearest, ties to even** (cross-multiplied; all patterns up to and including the
infinity pattern, which stands for `2^(expMax - bias)`). -/
theorem roundRat_nearest' (f : FloatFmt) (hm : 1 ≤ f.mbits) (he : 2 ≤ f.ebits) (n d : Nat)
    (hn : n ≠ 0) (hd : 0 < d) :
    roundRat f n d ≤ f.infBits ∧
    ∀ u, u ≤ f.infBits →
      fdist f n d (roundRat f n d) ≤ fdist f n d u ∧
      (fdist f n d (roundRat f n d) = fdist f n d u → u ≠ roundRat f n d →
        f.fracOf (roundRat f n d) % 2 = 0) := by
  obtain ⟨k, q0, A, C, hk, hA, hC, hCpos, hbinf, hcases⟩ := roundRat_run f hm he n d hn hd
  refine ⟨hbinf, fun u hu => ?_⟩
  generalize roundRat f n d = b at *
  have hgap := fscaled_gap f u q0 k hk
  have hgap' : fscaled f u * d ≤ q0 * 2 ^ k * d ∨ (q0 + 1) * 2 ^ k * d ≤ fscaled f u * d := by
    rcases hgap with h | h
    · exact Or.inl (Nat.mul_le_mul_right _ h)
    · exact Or.inr (Nat.mul_le_mul_right _ h)
  have hinj : fscaled f u * d = fscaled f b * d → u = b := fun h =>
    fscaled_inj f u b hu hbinf (Nat.eq_of_mul_eq_mul_right hd h)
  unfold fdist absDiff
  rcases hcases with ⟨hfs, hAC, hpar⟩ | ⟨hfs, hAC, hpar⟩ | ⟨hbi, htop⟩
  · rw [hfs] at hinj ⊢
    refine ⟨by omega, fun htie hne => ?_⟩
    rcases hgap' with h | h
    · exact absurd (hinj (by omega)) hne
    · exact hpar (by omega)
  · rw [hfs] at hinj ⊢
    refine ⟨by omega, fun htie hne => ?_⟩
    rcases hgap' with h | h
    · exact hpar (by omega)
    · exact absurd (hinj (by omega)) hne
  · subst hbi
    have h1 : fscaled f u * d ≤ fscaled f f.infBits * d :=
      Nat.mul_le_mul_right _ (fscaled_le f u _ hu (Nat.le_refl _))
    have h2 : fscaled f f.infBits * d ≤ q0 * 2 ^ k * d := Nat.mul_le_mul_right _ htop
    exact ⟨by omega, fun _ _ => by rw [fracOf_infBits]⟩

end C03
end Scpi
