/-
C04 (float Display), stage 2: `roundUpDigits` adds one in the last place, and the final
choice of `format_shortest` (keep the digits or round them up) returns a decimal inside the
scaled rounding interval.
-/
import Scpi.Proofs.DragonLoop

namespace Scpi
namespace Dragon
open C03 (digitsValue digitsValue_cons)

theorem dv_nil : digitsValue 10 [] = 0 := rfl

theorem dv_append (a b : List Nat) :
    digitsValue 10 (a ++ b) = digitsValue 10 a * 10 ^ b.length + digitsValue 10 b := by
  induction a with
  | nil => simp [dv_nil]
  | cons x a ih =>
    rw [List.cons_append, digitsValue_cons, digitsValue_cons, ih, List.length_append, Nat.pow_add,
      Nat.add_mul, Nat.add_assoc, Nat.mul_assoc]

theorem dv_singleton (d : Nat) : digitsValue 10 [d] = d := by
  simp [digitsValue]

theorem dv_nines (k : Nat) : digitsValue 10 (List.replicate k 9) + 1 = 10 ^ k := by
  induction k with
  | zero => simp [dv_nil]
  | succ k ih =>
    rw [List.replicate_succ, digitsValue_cons, List.length_replicate, Nat.pow_succ]
    omega

theorem dv_zeros (k : Nat) : digitsValue 10 (List.replicate k 0) = 0 := by
  induction k with
  | zero => simp [dv_nil]
  | succ k ih => rw [List.replicate_succ, digitsValue_cons, ih]; simp

theorem dropWhile_head_false {α : Type} (p : α → Bool) : ∀ (l : List α) (d : α) (pre : List α),
    l.dropWhile p = d :: pre → p d = false := by
  intro l
  induction l with
  | nil => intro d pre h; simp at h
  | cons x l ih =>
    intro d pre h
    by_cases hx : p x = true
    · rw [List.dropWhile_cons_of_pos hx] at h
      exact ih d pre h
    · rw [List.dropWhile_cons_of_neg hx] at h
      cases h
      simpa using hx

theorem mem_takeWhile_true {α : Type} (p : α → Bool) : ∀ (l : List α) (b : α),
    b ∈ l.takeWhile p → p b = true := by
  intro l
  induction l with
  | nil => intro b h; simp at h
  | cons x l ih =>
    intro b h
    by_cases hx : p x = true
    · rw [List.takeWhile_cons_of_pos hx] at h
      rcases List.mem_cons.mp h with rfl | h
      · exact hx
      · exact ih b h
    · rw [List.takeWhile_cons_of_neg hx] at h
      simp at h

theorem takeWhile_nines (l : List Nat) :
    l.takeWhile (· == 9) = List.replicate (l.takeWhile (· == 9)).length 9 := by
  apply List.eq_replicate_iff.mpr
  refine ⟨rfl, fun b hb => ?_⟩
  have := mem_takeWhile_true _ _ _ hb
  simpa using this

/-- What `roundUpDigits` returns on a non-empty string of decimal digits: the same number of
digits denoting one more; when all digits were nines, `1 0 … 0` which with the extra `0` the
caller appends denotes one more. -/
theorem roundUp_spec (ds : List Nat) (hne : ds ≠ []) (hd : ∀ d ∈ ds, d < 10) :
    (roundUpDigits ds).1.length = ds.length ∧
    ((roundUpDigits ds).2 = false →
      (∀ d ∈ (roundUpDigits ds).1, d < 10) ∧
      digitsValue 10 (roundUpDigits ds).1 = digitsValue 10 ds + 1) ∧
    ((roundUpDigits ds).2 = true →
      (∀ d ∈ (roundUpDigits ds).1 ++ [0], d < 10) ∧
      digitsValue 10 ((roundUpDigits ds).1 ++ [0]) = digitsValue 10 ds + 1) := by
  have hsplit := List.takeWhile_append_dropWhile (p := (· == 9)) (l := ds.reverse)
  have hT := takeWhile_nines ds.reverse
  generalize (ds.reverse.takeWhile (· == 9)).length = t at hT
  have hds : ds = (ds.reverse.dropWhile (· == 9)).reverse ++ List.replicate t 9 := by
    have := congrArg List.reverse hsplit
    rw [List.reverse_append, List.reverse_reverse, hT, List.reverse_replicate] at this
    exact this.symm
  unfold roundUpDigits
  cases hR : ds.reverse.dropWhile (· == 9) with
  | nil =>
    rw [hR] at hds
    simp only [List.reverse_nil, List.nil_append] at hds
    simp only []
    have hlen : ds.length = t := by rw [hds, List.length_replicate]
    have ht : 1 ≤ t := by
      rcases Nat.eq_zero_or_pos t with h | h
      · subst h; exact absurd hds hne
      · exact h
    have hdrop : (ds.drop 1).map (fun _ => 0) = List.replicate (t - 1) 0 := by
      rw [List.map_const', List.length_drop, hlen]
    rw [hdrop]
    refine ⟨(by simp; omega), fun h => (by cases h), fun _ => ⟨?_, ?_⟩⟩
    · intro d hd'
      simp only [List.cons_append, List.mem_cons, List.mem_append, List.mem_replicate,
        List.not_mem_nil, or_false] at hd'
      omega
    · rw [List.cons_append, digitsValue_cons, dv_append, dv_zeros, dv_singleton]
      simp only [List.length_append, List.length_replicate, List.length_singleton, Nat.zero_mul,
        Nat.add_zero, Nat.one_mul]
      have : t - 1 + 1 = t := by omega
      rw [this]
      conv => rhs; rw [hds]
      exact (dv_nines t).symm
  | cons d pre =>
    rw [hR] at hds
    have hd9 : d ≠ 9 := by
      have := dropWhile_head_false (· == 9) _ _ _ hR
      simpa using this
    have hdlt : d < 10 := hd d (by rw [hds]; simp)
    have hpre : ∀ x ∈ pre, x < 10 := fun x hx => hd x (by rw [hds]; simp [hx])
    have hlen : ds.length = pre.length + 1 + t := by
      rw [hds]; simp; omega
    have hn : ds.length - (pre.length + 1) = t := by omega
    simp only [hn]
    refine ⟨(by simp; omega), fun _ => ⟨?_, ?_⟩, fun h => (by cases h)⟩
    · intro x hx
      simp only [List.reverse_cons, List.mem_append, List.mem_reverse, List.mem_singleton,
        List.mem_replicate] at hx
      rcases hx with (hx | hx) | hx
      · exact hpre x hx
      · omega
      · omega
    · conv => rhs; rw [hds]
      rw [dv_append, dv_append, dv_zeros, List.reverse_cons, List.reverse_cons, dv_append, dv_append,
        dv_singleton, dv_singleton]
      simp only [List.length_replicate, List.length_singleton, Nat.pow_one, Nat.add_zero]
      have h9 := dv_nines t
      generalize digitsValue 10 (List.replicate t 9) = n9 at h9
      generalize digitsValue 10 pre.reverse = P
      rw [← h9]
      generalize hA : P * 10 + d = A
      have : P * 10 + (d + 1) = A + 1 := by omega
      rw [this, Nat.add_mul, Nat.one_mul]
      omega

/-- The tail of `format_shortest`: keep the digits, or round them up (with carry). -/
def selectDigits (sc : Nat) (k : Int) (r : List Nat × Nat × Bool × Bool) : List Nat × Int :=
  if (r.2.2.2 && (!r.2.2.1 || decide (sc ≤ r.2.1 * 2))) = true then
    if (roundUpDigits r.1).2 = true then ((roundUpDigits r.1).1 ++ [0], k + 1)
    else ((roundUpDigits r.1).1, k)
  else (r.1, k)

/-- **The selected digits denote a number inside the scaled interval.**  With `j` the number
of digits the loop produced and `N'` the decimal value of the digits finally returned:
`10^(j-1)·(m - mi) ≤ N'·sc ≤ 10^(j-1)·(m + pl)` (strictly in exclusive mode), the digits are
decimal digits, and `k_out - length_out = k - j` (a carry adds a digit and increments `k`). -/
theorem select_spec (incl : Bool) (m mi pl sc : Nat) (ds : List Nat) (mR : Nat) (down up : Bool)
    (k : Int) (h : LoopOut incl m mi pl sc ds mR down up) (hmi : mi ≤ m) (hpl0 : 0 < pl) :
    (selectDigits sc k (ds, mR, down, up)).1 ≠ [] ∧
    (∀ d ∈ (selectDigits sc k (ds, mR, down, up)).1, d < 10) ∧
    (selectDigits sc k (ds, mR, down, up)).2 - ((selectDigits sc k (ds, mR, down, up)).1.length : Nat)
      = k - (ds.length : Nat) ∧
    10 ^ (ds.length - 1) * (m - mi) ≤ digitsValue 10 (selectDigits sc k (ds, mR, down, up)).1 * sc ∧
    digitsValue 10 (selectDigits sc k (ds, mR, down, up)).1 * sc ≤ 10 ^ (ds.length - 1) * (m + pl) ∧
    (incl = false →
      10 ^ (ds.length - 1) * (m - mi) < digitsValue 10 (selectDigits sc k (ds, mR, down, up)).1 * sc ∧
      digitsValue 10 (selectDigits sc k (ds, mR, down, up)).1 * sc < 10 ^ (ds.length - 1) * (m + pl)) := by
  obtain ⟨ne, dig, val, rem, down_iff, up_iff, stop, -⟩ := h
  have hP := ten_pow_pos (ds.length - 1)
  have e1 : 10 ^ (ds.length - 1) * (m - mi) = 10 ^ (ds.length - 1) * m - 10 ^ (ds.length - 1) * mi :=
    Nat.mul_sub _ _ _
  have e2 : 10 ^ (ds.length - 1) * (m + pl) = 10 ^ (ds.length - 1) * m + 10 ^ (ds.length - 1) * pl :=
    Nat.mul_add _ _ _
  have e3 : 10 ^ (ds.length - 1) * mi ≤ 10 ^ (ds.length - 1) * m := Nat.mul_le_mul_left _ hmi
  have e4 : 0 < 10 ^ (ds.length - 1) * pl := Nat.mul_pos hP hpl0
  rw [e1, e2]
  generalize 10 ^ (ds.length - 1) * m = Pm at *
  generalize 10 ^ (ds.length - 1) * mi = Pmi at *
  generalize 10 ^ (ds.length - 1) * pl = Ppl at *
  unfold selectDigits
  simp only []
  by_cases hsel : (up && (!down || decide (sc ≤ mR * 2))) = true
  · rw [if_pos hsel]
    simp only [Bool.and_eq_true, Bool.or_eq_true, Bool.not_eq_true', decide_eq_true_eq] at hsel
    have hup : UpP incl mR Ppl sc := up_iff.mp hsel.1
    obtain ⟨hlen, hnc, hc⟩ := roundUp_spec ds ne dig
    have hval : ∀ N', N' = digitsValue 10 ds + 1 →
        Pm - Pmi ≤ N' * sc ∧ N' * sc ≤ Pm + Ppl ∧
        (incl = false → Pm - Pmi < N' * sc ∧ N' * sc < Pm + Ppl) := by
      intro N' hN'
      rw [hN', Nat.add_mul, Nat.one_mul]
      generalize digitsValue 10 ds * sc = Nsc at *
      unfold UpP at hup
      refine ⟨by omega, ?_, fun hi => ?_⟩
      · split at hup <;> omega
      · rw [if_neg (by simp [hi])] at hup
        omega
    by_cases hcarry : (roundUpDigits ds).2 = true
    · rw [if_pos hcarry]
      obtain ⟨hdig, hv⟩ := hc hcarry
      obtain ⟨v1, v2, v3⟩ := hval _ hv
      refine ⟨by simp, hdig, ?_, v1, v2, v3⟩
      simp only [List.length_append, List.length_singleton, hlen]
      omega
    · rw [if_neg hcarry]
      obtain ⟨hdig, hv⟩ := hnc (by simpa using hcarry)
      obtain ⟨v1, v2, v3⟩ := hval _ hv
      refine ⟨?_, hdig, by rw [hlen], v1, v2, v3⟩
      intro h0
      rw [h0] at hlen
      have := List.length_pos_iff.mpr ne
      simp at hlen
      omega
  · rw [if_neg hsel]
    simp only [Bool.and_eq_true, Bool.or_eq_true, Bool.not_eq_true', decide_eq_true_eq, not_and,
      not_or] at hsel
    have hdown : DownP incl mR Pmi := by
      apply down_iff.mp
      rcases stop with h | h
      · exact h
      · have := (hsel h).1
        simpa using this
    generalize digitsValue 10 ds * sc = Nsc at *
    unfold DownP at hdown
    refine ⟨ne, dig, rfl, ?_, by omega, fun hi => ?_⟩
    · split at hdown <;> omega
    · rw [if_neg (by simp [hi])] at hdown
      omega

end Dragon
end Scpi
