/-
Helpers for C03 (float part), stage 2: the grid of finite float values in units of the
smallest sub-normal (`fscaled`): strictly increasing in the bit pattern, and with no
grid point strictly inside a cell `[q·2^k, (q+1)·2^k]` of the binade the cell belongs to.
-/
import Scpi.Proofs.ConvPow

namespace Scpi
namespace C03

/-- Grid value from exponent field `E` and fraction field `F` (`M = 2^mbits`). -/
def gridVal (M E F : Nat) : Nat := (if E = 0 then F else M + F) * 2 ^ (E - 1)

/-- Everything below exponent field `E + 1` is below `M · 2^E`. -/
theorem gridVal_lt_top (M E F : Nat) (hF : F < M) : gridVal M E F < M * 2 ^ E := by
  unfold gridVal
  cases E with
  | zero => simpa using hF
  | succ E =>
    simp only [Nat.add_one_ne_zero, if_false, Nat.add_sub_cancel]
    have : (M + F) * 2 ^ E < (M + M) * 2 ^ E :=
      Nat.mul_lt_mul_of_pos_right (by omega) (two_pow_pos' E)
    have h2 : M * 2 ^ (E + 1) = (M + M) * 2 ^ E := by
      rw [Nat.pow_succ, Nat.mul_comm (2 ^ E), ← Nat.mul_assoc, Nat.mul_two]
    omega

/-- Everything with exponent field `E ≥ 1` is at least `M · 2^(E-1)`. -/
theorem gridVal_ge_bottom (M E F : Nat) (hE : E ≠ 0) : M * 2 ^ (E - 1) ≤ gridVal M E F := by
  unfold gridVal
  rw [if_neg hE]
  exact Nat.mul_le_mul_right _ (by omega)

theorem gridVal_lt (M E1 F1 E2 F2 : Nat) (hF1 : F1 < M)
    (h : E1 < E2 ∨ (E1 = E2 ∧ F1 < F2)) : gridVal M E1 F1 < gridVal M E2 F2 := by
  rcases h with h | ⟨rfl, h⟩
  · have h1 := gridVal_lt_top M E1 F1 hF1
    have h2 := gridVal_ge_bottom M E2 F2 (by omega)
    have h3 : M * 2 ^ E1 ≤ M * 2 ^ (E2 - 1) :=
      Nat.mul_le_mul_left _ (Nat.pow_le_pow_right (by decide) (by omega))
    omega
  · unfold gridVal
    apply Nat.mul_lt_mul_of_pos_right _ (two_pow_pos' _)
    split <;> omega

/-- **No grid point inside a cell.**  If `k = 0` (the sub-normal spacing) or `q ≥ M` (the
cell lies in or above the first normal binade of spacing `2^k`), no grid value lies
strictly between `q · 2^k` and `(q+1) · 2^k`. -/
theorem gridVal_gap (M E F q k : Nat) (hF : F < M) (hk : k = 0 ∨ M ≤ q) :
    gridVal M E F ≤ q * 2 ^ k ∨ (q + 1) * 2 ^ k ≤ gridVal M E F := by
  rcases hk with rfl | hq
  · simp only [Nat.pow_zero, Nat.mul_one]; omega
  · by_cases hE : E - 1 < k ∨ E = 0
    · left
      have h1 := gridVal_lt_top M E F hF
      have h2 : M * 2 ^ E ≤ M * 2 ^ k ∨ E = 0 := by
        rcases hE with h | h
        · exact Or.inl (Nat.mul_le_mul_left _ (Nat.pow_le_pow_right (by decide) (by omega)))
        · exact Or.inr h
      have h3 : M * 2 ^ k ≤ q * 2 ^ k := Nat.mul_le_mul_right _ hq
      rcases h2 with h2 | rfl
      · omega
      · have : M * 2 ^ 0 ≤ M * 2 ^ k :=
          Nat.mul_le_mul_left _ (Nat.pow_le_pow_right (by decide) (Nat.zero_le _))
        omega
    · have hE1 : k ≤ E - 1 := by omega
      have hE0 : E ≠ 0 := by omega
      unfold gridVal
      rw [if_neg hE0]
      obtain ⟨j, hj⟩ : ∃ j, E - 1 = j + k := ⟨E - 1 - k, by omega⟩
      rw [hj, Nat.pow_add, ← Nat.mul_assoc]
      by_cases hc : (M + F) * 2 ^ j ≤ q
      · exact Or.inl (Nat.mul_le_mul_right _ hc)
      · exact Or.inr (Nat.mul_le_mul_right _ (by omega))

/-! ### Fields of a bit pattern -/

theorem expMax_lt (f : FloatFmt) : f.expMax < 2 ^ f.ebits := by
  unfold FloatFmt.expMax
  have := two_pow_pos' f.ebits
  omega

/-- Below or at the infinity pattern the exponent field is the quotient by `2^mbits`. -/
theorem expOf_eq_div (f : FloatFmt) (bits : Nat) (h : bits ≤ f.infBits) :
    f.expOf bits = bits / 2 ^ f.mbits := by
  unfold FloatFmt.expOf
  apply Nat.mod_eq_of_lt
  have h1 : bits / 2 ^ f.mbits ≤ f.expMax := by
    apply Nat.div_le_of_le_mul
    unfold FloatFmt.infBits at h
    rw [Nat.mul_comm]; exact h
  have := expMax_lt f
  omega

theorem fscaled_eq_gridVal (f : FloatFmt) (bits : Nat) :
    fscaled f bits = gridVal (2 ^ f.mbits) (f.expOf bits) (f.fracOf bits) := rfl

theorem fracOf_lt (f : FloatFmt) (bits : Nat) : f.fracOf bits < 2 ^ f.mbits :=
  Nat.mod_lt _ (two_pow_pos' _)

/-- The fields of `E · 2^mbits + F`. -/
theorem fields_of (f : FloatFmt) (E F : Nat) (hF : F < 2 ^ f.mbits) (hE : E ≤ f.expMax) :
    f.expOf (E * 2 ^ f.mbits + F) = E ∧ f.fracOf (E * 2 ^ f.mbits + F) = F := by
  have hM := two_pow_pos' f.mbits
  constructor
  · unfold FloatFmt.expOf
    have : (E * 2 ^ f.mbits + F) / 2 ^ f.mbits = E := by
      rw [Nat.mul_comm, Nat.mul_add_div hM, Nat.div_eq_of_lt hF, Nat.add_zero]
    rw [this]
    apply Nat.mod_eq_of_lt
    have := expMax_lt f
    omega
  · unfold FloatFmt.fracOf
    rw [Nat.mul_comm, Nat.mul_add_mod, Nat.mod_eq_of_lt hF]

theorem fscaled_of_fields (f : FloatFmt) (E F : Nat) (hF : F < 2 ^ f.mbits) (hE : E ≤ f.expMax) :
    fscaled f (E * 2 ^ f.mbits + F) = gridVal (2 ^ f.mbits) E F := by
  obtain ⟨h1, h2⟩ := fields_of f E F hF hE
  rw [fscaled_eq_gridVal, h1, h2]

/-- **The grid is strictly increasing in the bit pattern**, up to and including the
infinity pattern (whose `fscaled` is `2^mbits · 2^(expMax-1)`, the value the next
binade would start with). -/
theorem fscaled_lt (f : FloatFmt) (u v : Nat) (huv : u < v) (hv : v ≤ f.infBits) :
    fscaled f u < fscaled f v := by
  have hM := two_pow_pos' f.mbits
  rw [fscaled_eq_gridVal, fscaled_eq_gridVal, expOf_eq_div f u (by omega), expOf_eq_div f v hv]
  apply gridVal_lt _ _ _ _ _ (fracOf_lt f u)
  unfold FloatFmt.fracOf
  have hu := Nat.div_add_mod u (2 ^ f.mbits)
  have hv' := Nat.div_add_mod v (2 ^ f.mbits)
  have hmu := Nat.mod_lt u hM
  have hmv := Nat.mod_lt v hM
  by_cases hlt : u / 2 ^ f.mbits < v / 2 ^ f.mbits
  · exact Or.inl hlt
  · right
    have hge : v / 2 ^ f.mbits ≤ u / 2 ^ f.mbits := by omega
    have hmul : 2 ^ f.mbits * (v / 2 ^ f.mbits) ≤ 2 ^ f.mbits * (u / 2 ^ f.mbits) :=
      Nat.mul_le_mul_left _ hge
    by_cases heq : u / 2 ^ f.mbits = v / 2 ^ f.mbits
    · refine ⟨heq, ?_⟩
      rw [heq] at hu
      omega
    · exfalso
      have : v / 2 ^ f.mbits + 1 ≤ u / 2 ^ f.mbits := by omega
      have hmul2 : 2 ^ f.mbits * (v / 2 ^ f.mbits + 1) ≤ 2 ^ f.mbits * (u / 2 ^ f.mbits) :=
        Nat.mul_le_mul_left _ this
      rw [Nat.mul_add, Nat.mul_one] at hmul2
      omega

theorem fscaled_le (f : FloatFmt) (u v : Nat) (huv : u ≤ v) (hv : v ≤ f.infBits) :
    fscaled f u ≤ fscaled f v := by
  rcases Nat.lt_or_eq_of_le huv with h | rfl
  · exact Nat.le_of_lt (fscaled_lt f u v h hv)
  · exact Nat.le_refl _

/-- Different patterns have different values (so `+0` is the only pattern of value 0, …). -/
theorem fscaled_inj (f : FloatFmt) (u v : Nat) (hu : u ≤ f.infBits) (hv : v ≤ f.infBits)
    (h : fscaled f u = fscaled f v) : u = v := by
  rcases Nat.lt_trichotomy u v with h1 | h1 | h1
  · have := fscaled_lt f u v h1 hv; omega
  · exact h1
  · have := fscaled_lt f v u h1 hu; omega

theorem fscaled_zero (f : FloatFmt) : fscaled f 0 = 0 := by
  simp [fscaled, fmant, FloatFmt.expOf, FloatFmt.fracOf]

/-- The infinity pattern stands for `2^mbits · 2^(expMax - 1)` on the grid. -/
theorem fscaled_inf (f : FloatFmt) (he : 1 ≤ f.expMax) :
    fscaled f f.infBits = 2 ^ f.mbits * 2 ^ (f.expMax - 1) := by
  have := fscaled_of_fields f f.expMax 0 (two_pow_pos' _) (Nat.le_refl _)
  rw [Nat.add_zero] at this
  unfold FloatFmt.infBits
  rw [this]
  unfold gridVal
  rw [if_neg (by omega), Nat.add_zero]

/-- The no-grid-point-inside-a-cell lemma for bit patterns. -/
theorem fscaled_gap (f : FloatFmt) (u q k : Nat) (hk : k = 0 ∨ 2 ^ f.mbits ≤ q) :
    fscaled f u ≤ q * 2 ^ k ∨ (q + 1) * 2 ^ k ≤ fscaled f u := by
  rw [fscaled_eq_gridVal]
  exact gridVal_gap _ _ _ q k (fracOf_lt f u) hk

end C03
end Scpi
