/-
Helpers for C03 (float part), stage 0: the number grammar of `parseNumberBody` against
the specification `IsDecimalText`.
-/
import Scpi.Spec.Numerals

namespace Scpi
namespace C03

theorem allDigits_nil : AllDigits [] := fun _ h => by cases h

theorem allDigits_cons {b : Nat} {s : Bytes} :
    AllDigits (b :: s) ↔ (48 ≤ b ∧ b ≤ 57) ∧ AllDigits s := by
  unfold AllDigits
  simp

/-- `r` does not begin with a digit. -/
def NoDigitHead (r : Bytes) : Prop := ∀ b t, r = b :: t → ¬ (48 ≤ b ∧ b ≤ 57)

/-- `takeDigits` splits off the longest prefix of digits. -/
theorem takeDigits_spec : ∀ (s : Bytes),
    s = (takeDigits s).1 ++ (takeDigits s).2 ∧ AllDigits (takeDigits s).1 ∧
      NoDigitHead (takeDigits s).2
  | [] => ⟨rfl, allDigits_nil, fun _ _ h => by cases h⟩
  | b :: r => by
    unfold takeDigits
    split
    · rename_i hb
      obtain ⟨h1, h2, h3⟩ := takeDigits_spec r
      refine ⟨?_, ?_, h3⟩
      · show b :: r = b :: ((takeDigits r).1 ++ (takeDigits r).2)
        rw [← h1]
      · exact allDigits_cons.mpr ⟨hb, h2⟩
    · rename_i hb
      refine ⟨rfl, allDigits_nil, ?_⟩
      intro b' t h
      cases h
      exact hb

/-- … and conversely: a digit string followed by something that does not begin with a
digit is split exactly there. -/
theorem takeDigits_append : ∀ (d r : Bytes), AllDigits d → NoDigitHead r →
    takeDigits (d ++ r) = (d, r)
  | [], r, _, hr => by
    cases r with
    | nil => rfl
    | cons b t =>
      have := hr b t rfl
      simp only [List.nil_append]
      unfold takeDigits
      rw [if_neg this]
  | b :: d, r, hd, hr => by
    obtain ⟨hb, hd'⟩ := allDigits_cons.mp hd
    simp only [List.cons_append]
    unfold takeDigits
    rw [if_pos hb, takeDigits_append d r hd' hr]

theorem decValue_eq (ds : Bytes) (acc : Nat) :
    decValue ds acc = (ds.map (· - 48)).foldl (fun a d => a * 10 + d) acc := by
  unfold decValue
  rw [List.foldl_map]

theorem decValue_append (ip fp : Bytes) : decValue fp (decValue ip 0) = decimalValue (ip ++ fp) := by
  unfold decimalValue digitsValue
  rw [decValue_eq, decValue_eq, List.map_append, List.foldl_append]

theorem decValue_zero (ed : Bytes) : decValue ed 0 = decimalValue ed := by
  unfold decimalValue digitsValue
  rw [decValue_eq]

theorem noDigitHead_nil : NoDigitHead [] := fun _ _ h => by cases h

theorem noDigitHead_cons {b : Nat} {t : Bytes} (h : ¬ (48 ≤ b ∧ b ≤ 57)) : NoDigitHead (b :: t) := by
  intro b' t' he
  cases he
  exact h

theorem isExponent_noDigitHead {ex : Bytes} {x : Int} (h : IsExponent ex x) : NoDigitHead ex := by
  cases h with
  | absent => exact noDigitHead_nil
  | plain c ed hc _ _ => exact noDigitHead_cons (by omega)
  | plus c ed hc _ _ => exact noDigitHead_cons (by omega)
  | minus c ed hc _ _ => exact noDigitHead_cons (by omega)

/-- The exponent part of `parseNumberBody`, as a function of the rest `r2` after the
mantissa. -/
def expPart (r2 : Bytes) : Option Int :=
  match r2 with
  | [] => some 0
  | c :: r =>
    if c == 69 || c == 101 then
      let (neg, r') : Bool × Bytes :=
        match r with
        | 45 :: t => (true, t)
        | 43 :: t => (false, t)
        | _ => (false, r)
      let (ed, r3) := takeDigits r'
      if ed.length = 0 then none
      else if r3 != [] then none
      else
        let ev : Int := (decValue ed 0 : Nat)
        some (if neg then -ev else ev)
    else none

/-- The fraction part: after the integer digits, an optional `.` and more digits. -/
def fracPart (r1 : Bytes) : Bytes × Bytes :=
  match r1 with
  | 46 :: r => takeDigits r
  | _ => ([], r1)

/-- `parseNumberBody` after the two digit runs. -/
def numberTail (ip : Bytes) (fr : Bytes × Bytes) : Option (Nat × Int) :=
  if ip.length + fr.1.length = 0 then none
  else (expPart fr.2).map fun x => (decValue fr.1 (decValue ip 0), -(fr.1.length : Int) + x)

/-- `parseNumberBody` in terms of its three parts. -/
theorem parseNumberBody_eq (s : Bytes) :
    parseNumberBody s = numberTail (takeDigits s).1 (fracPart (takeDigits s).2) := by
  have key : ∀ (ip : Bytes) (fr : Bytes × Bytes),
      (if ip.length + fr.1.length = 0 then none else
        let mant := decValue fr.1 (decValue ip 0)
        let e0 : Int := -(fr.1.length : Int)
        match fr.2 with
        | [] => some (mant, e0)
        | c :: r =>
          if c == 69 || c == 101 then
            let (neg, r') : Bool × Bytes :=
              match r with
              | 45 :: t => (true, t)
              | 43 :: t => (false, t)
              | _ => (false, r)
            let (ed, r3) := takeDigits r'
            if ed.length = 0 then none
            else if r3 != [] then none
            else
              let ev : Int := (decValue ed 0 : Nat)
              some (mant, e0 + (if neg then -ev else ev))
          else none) = numberTail ip fr := by
    intro ip fr
    unfold numberTail expPart
    obtain ⟨fp, r2⟩ := fr
    split
    · rfl
    · cases r2 with
      | nil => simp
      | cons c r =>
        simp only []
        split
        · split <;> split <;> simp
        · simp
  exact key _ _

theorem expPart_iff (r2 : Bytes) (x : Int) : expPart r2 = some x ↔ IsExponent r2 x := by
  constructor
  · intro h
    unfold expPart at h
    split at h
    · cases h; exact .absent
    · rename_i c r
      split at h
      · rename_i hc
        have hc' : c = 69 ∨ c = 101 := by simpa using hc
        split at h
        · rename_i neg r' hsign
          split at h
          · rename_i ed r3 htd
            split at h
            · cases h
            · rename_i hlen
              split at h
              · cases h
              · rename_i hr3
                have hr3' : r3 = [] := by simpa using hr3
                obtain ⟨h1, h2, _⟩ := takeDigits_spec r'
                rw [htd] at h1 h2
                simp only [hr3', List.append_nil] at h1
                have hne : ed ≠ [] := by intro h0; rw [h0] at hlen; simp at hlen
                simp only [Option.some.injEq] at h
                rw [decValue_zero] at h
                split at hsign
                · cases hsign
                  subst h1
                  rw [← h]
                  exact .minus c _ hc' hne h2
                · cases hsign
                  subst h1
                  rw [← h]
                  exact .plus c _ hc' hne h2
                · cases hsign
                  subst h1
                  rw [← h]
                  exact .plain c _ hc' hne h2
      · cases h
  · intro h
    cases h with
    | absent => rfl
    | plain c ed hc hne hd =>
      have hc' : (c == 69 || c == 101) = true := by simpa using hc
      have hlen : ed.length ≠ 0 := by simpa using hne
      have h45 : ∀ t, ed ≠ 45 :: t := by
        intro t h; subst h; have := (allDigits_cons.mp hd).1; omega
      have h43 : ∀ t, ed ≠ 43 :: t := by
        intro t h; subst h; have := (allDigits_cons.mp hd).1; omega
      have htd : takeDigits ed = (ed, []) := by
        have := takeDigits_append ed [] hd noDigitHead_nil
        rwa [List.append_nil] at this
      unfold expPart
      -- the sign `match` falls through by `h45`, `h43`
      simp only [hc', if_true]
      simp [htd, hlen, decValue_zero]
    | plus c ed hc hne hd =>
      have hc' : (c == 69 || c == 101) = true := by simpa using hc
      have hlen : ed.length ≠ 0 := by simpa using hne
      have htd : takeDigits ed = (ed, []) := by
        have := takeDigits_append ed [] hd noDigitHead_nil
        rwa [List.append_nil] at this
      unfold expPart
      simp [hc', htd, hlen, decValue_zero]
    | minus c ed hc hne hd =>
      have hc' : (c == 69 || c == 101) = true := by simpa using hc
      have hlen : ed.length ≠ 0 := by simpa using hne
      have htd : takeDigits ed = (ed, []) := by
        have := takeDigits_append ed [] hd noDigitHead_nil
        rwa [List.append_nil] at this
      unfold expPart
      simp [hc', htd, hlen, decValue_zero]

theorem fracPart_dot (r : Bytes) : fracPart (46 :: r) = takeDigits r := rfl

theorem fracPart_other (r1 : Bytes) (h : ∀ r, r1 ≠ 46 :: r) : fracPart r1 = ([], r1) := by
  unfold fracPart
  split
  · rename_i r; exact absurd rfl (h r)
  · rfl

theorem isExponent_not_dot {ex : Bytes} {x : Int} (h : IsExponent ex x) : ∀ r, ex ≠ 46 :: r := by
  intro r he
  cases h with
  | absent => cases he
  | plain c ed hc _ _ => cases he; omega
  | plus c ed hc _ _ => cases he; omega
  | minus c ed hc _ _ => cases he; omega

/-- **The number grammar reads what is written**: `parseNumberBody` succeeds with
`(mant, exp10)` iff the text is a decimal real literal denoting `mant · 10^exp10`. -/
theorem parseNumberBody_iff' (s : Bytes) (mant : Nat) (exp10 : Int) :
    parseNumberBody s = some (mant, exp10) ↔ IsDecimalText s mant exp10 := by
  rw [parseNumberBody_eq]
  constructor
  · intro h
    obtain ⟨hs, hip, _⟩ := takeDigits_spec s
    generalize (takeDigits s).1 = ip at *
    generalize (takeDigits s).2 = r1 at *
    unfold numberTail at h
    split at h
    · cases h
    · rename_i hlen
      cases hx : expPart (fracPart r1).2 with
      | none => rw [hx] at h; cases h
      | some x =>
        rw [hx] at h
        simp only [Option.map_some, Option.some.injEq, Prod.mk.injEq] at h
        obtain ⟨hm, he⟩ := h
        have hex := (expPart_iff _ _).mp hx
        rw [decValue_append] at hm
        by_cases hdot : ∃ r, r1 = 46 :: r
        · obtain ⟨r, rfl⟩ := hdot
          rw [fracPart_dot] at hlen hm he hex
          obtain ⟨hr, hfp, _⟩ := takeDigits_spec r
          generalize (takeDigits r).1 = fp at *
          generalize (takeDigits r).2 = r2 at *
          refine ⟨ip, fp, r2, x, hip, hfp, ?_, hex, Or.inr (by rw [hs, hr]), hm.symm, by omega⟩
          intro h0
          rw [← List.length_eq_zero_iff, List.length_append] at h0
          exact hlen h0
        · have hnd : ∀ r, r1 ≠ 46 :: r := fun r hr => hdot ⟨r, hr⟩
          rw [fracPart_other r1 hnd] at hlen hm he hex
          simp only [List.length_nil, Nat.add_zero] at hlen
          refine ⟨ip, [], r1, x, hip, allDigits_nil, ?_, hex, Or.inl ⟨hs, rfl⟩, hm.symm, ?_⟩
          · rw [List.append_nil]
            intro h0; rw [h0] at hlen; exact hlen rfl
          · simp only [List.length_nil] at he ⊢
            omega
  · rintro ⟨ip, fp, ex, x, hip, hfp, hne, hex, hs, rfl, rfl⟩
    have hexh := isExponent_noDigitHead hex
    have hxp := (expPart_iff _ _).mpr hex
    rcases hs with ⟨rfl, rfl⟩ | rfl
    · rw [takeDigits_append ip ex hip hexh]
      simp only []
      rw [fracPart_other ex (isExponent_not_dot hex)]
      unfold numberTail
      simp only [List.length_nil, Nat.add_zero]
      have : ip.length ≠ 0 := by
        intro h0
        rw [List.append_nil] at hne
        exact hne (List.length_eq_zero_iff.mp h0)
      rw [if_neg this, hxp]
      simp only [Option.map_some, decValue_append]
      congr 2
      simp
    · rw [takeDigits_append ip (46 :: (fp ++ ex)) hip (noDigitHead_cons (by omega))]
      simp only []
      rw [fracPart_dot, takeDigits_append fp ex hfp hexh]
      unfold numberTail
      simp only []
      have : ¬ (ip.length + fp.length = 0) := by
        intro h0
        apply hne
        rw [← List.length_eq_zero_iff, List.length_append]
        exact h0
      rw [if_neg this, hxp]
      simp only [Option.map_some, decValue_append]
      congr 2
      omega

end C03
end Scpi
