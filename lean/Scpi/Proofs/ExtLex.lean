/-
Extension stability of the lexical recognisers (for C12): all class-bounded
recognisers are `CB`; `quoted` and `arbitrary` are final unless `incomplete`;
`argument` is final unless `incomplete` on inputs that contain a terminator.
-/
import Scpi.Proofs.ExtComb

namespace Scpi

theorem cb_whitespace : CB whitespace := by
  intro x y hT
  have hd := hasTerm_dropWhile (p := isWs) (by decide) (by decide) hT
  obtain ⟨e1, e2⟩ := dropWhile_takeWhile_append (p := isWs) y hd.ne_nil
  unfold whitespace
  rw [e1, e2]
  cases hr : x.dropWhile isWs with
  | nil => exact absurd hr hd.ne_nil
  | cons c d =>
    rw [hr] at hd
    cases ht : x.takeWhile isWs with
    | nil => exact rel_ofErr
    | cons t ts => exact rel_ok hd

theorem cb_digits : CB digits := by
  intro x y hT
  unfold digits
  refine rel_bind (cb_satisfy (by decide) (by decide) x y hT) fun i1 b _ h1 => ?_
  refine rel_bind (cb_takeWhileP (by decide) (by decide) i1 y h1) fun i2 res _ h2 => ?_
  exact rel_ok h2

theorem cb_mnemonic : CB mnemonic := by
  intro x y hT
  unfold mnemonic
  refine rel_bind (cb_satisfy (by decide) (by decide) x y hT) fun i1 b _ h1 => ?_
  refine rel_bind (cb_takeWhileP (by decide) (by decide) i1 y h1) fun i2 res _ h2 => ?_
  exact rel_ok h2

theorem cb_sign : CB sign := by
  intro x y hT
  unfold sign
  exact rel_orElse (cb_tag (by decide) (by decide) x y hT) (cb_tag (by decide) (by decide) x y hT)

theorem cb_characters : CB characters := by
  intro x y hT
  unfold characters
  refine rel_bind (cb_mnemonic x y hT) fun i res _ h => ?_
  exact rel_fromUtf8 fun s => rel_ok h

theorem cb_mantissa : CB mantissa := by
  intro x y hT
  unfold mantissa
  refine rel_bind (cb_optP cb_sign x y hT) fun i1 _ _ h1 => ?_
  refine rel_bind (cb_optP cb_digits i1 y h1) fun i2 d1 _ h2 => ?_
  refine rel_bind (cb_optP (cb_tag (by decide) (by decide)) i2 y h2) fun i3 _ _ h3 => ?_
  refine rel_bind ?_ fun i4 _ _ h4 => ?_
  · cases d1 with
    | none => exact rel_map (cb_digits i3 y h3)
    | some d => exact cb_optP cb_digits i3 y h3
  · exact rel_consumed fun s => rel_ok h4

theorem cb_exponent : CB exponent := by
  intro x y hT
  unfold exponent
  refine rel_bind (cb_satisfy (by decide) (by decide) x y hT) fun i1 _ _ h1 => ?_
  refine rel_bind (cb_optP cb_sign i1 y h1) fun i2 _ _ h2 => ?_
  refine rel_bind (cb_digits i2 y h2) fun i3 _ _ h3 => ?_
  exact rel_consumed fun s => rel_ok h3

theorem cb_decimal : CB decimal := by
  intro x y hT
  unfold decimal
  refine rel_bind (cb_mantissa x y hT) fun i1 _ _ h1 => ?_
  refine rel_bind (cb_optP cb_exponent i1 y h1) fun i2 _ _ h2 => ?_
  exact rel_consumed fun s => rel_fromUtf8 fun s => rel_ok h2

theorem cb_nondecimal {l d : Nat → Bool} (mk : Bytes → Value)
    (l10 : l 10 = false) (l59 : l 59 = false) (d10 : d 10 = false) (d59 : d 59 = false) :
    CB (nondecimal l d mk) := by
  intro x y hT
  unfold nondecimal
  refine rel_bind (cb_tag (by decide) (by decide) x y hT) fun i1 _ _ h1 => ?_
  refine rel_bind (cb_satisfy l10 l59 i1 y h1) fun i2 _ _ h2 => ?_
  refine rel_bind (cb_satisfy d10 d59 i2 y h2) fun i3 _ _ h3 => ?_
  refine rel_bind (cb_takeWhileP d10 d59 i3 y h3) fun i4 _ _ h4 => ?_
  exact rel_consumed fun s => rel_fromUtf8 fun s => rel_ok h4

theorem cb_hexadecimal : CB hexadecimal :=
  cb_nondecimal _ (by decide) (by decide) (by decide) (by decide)
theorem cb_binary : CB binary :=
  cb_nondecimal _ (by decide) (by decide) (by decide) (by decide)
theorem cb_octal : CB octal :=
  cb_nondecimal _ (by decide) (by decide) (by decide) (by decide)

theorem cb_argumentSeparator : CB argumentSeparator := by
  intro x y hT
  unfold argumentSeparator
  refine rel_bind (cb_optP cb_whitespace x y hT) fun i1 _ _ h1 => ?_
  refine rel_bind (rel_mapErr (cb_tag (by decide) (by decide) i1 y h1)) fun i2 _ _ h2 => ?_
  refine rel_bind (cb_optP cb_whitespace i2 y h2) fun i3 _ _ h3 => ?_
  exact rel_ok h3

/-! ### Payload recognisers: every verdict except `incomplete` is final -/

theorem quoted_mext (q : Nat) (x y : Bytes) : MExt y (quoted q x) (quoted q (x ++ y)) := by
  intro hn
  cases x with
  | nil => exact absurd rfl hn
  | cons b x1 =>
    unfold quoted at hn ⊢
    have e1 : tag q ((b :: x1) ++ y) = (tag q (b :: x1)).extend y := satisfy_ext y (by simp)
    refine ext_bind e1 fun i1 _ h1 => ?_
    rw [h1] at hn
    simp only [PResult.bind, takeWhileP] at hn ⊢
    cases hd : i1.dropWhile (fun c => c != q) with
    | nil => rw [hd] at hn; exact absurd rfl hn
    | cons c d =>
      obtain ⟨e2, e3⟩ := dropWhile_takeWhile_append (p := fun c => c != q) (x := i1) y (by rw [hd]; simp)
      rw [e2, e3, hd]
      have e4 : tag q ((c :: d) ++ y) = (tag q (c :: d)).extend y := satisfy_ext y (by simp)
      refine ext_bind e4 fun i3 _ h3 => ?_
      unfold fromUtf8; split <;> simp

theorem arbitrary_mext (x y : Bytes) : MExt y (arbitrary x) (arbitrary (x ++ y)) := by
  intro hn
  cases x with
  | nil => exact absurd rfl hn
  | cons b x1 =>
    unfold arbitrary at hn ⊢
    have e1 : tag 35 ((b :: x1) ++ y) = (tag 35 (b :: x1)).extend y := satisfy_ext y (by simp)
    refine ext_bind e1 fun i1 _ h1 => ?_
    rw [h1] at hn
    simp only [PResult.bind] at hn
    cases i1 with
    | nil => exact absurd rfl hn
    | cons b2 i1' =>
      have e2 : ((satisfy (fun c => decide (49 ≤ c) && decide (c ≤ 57)) ((b2 :: i1') ++ y)).map fun v => v - 48)
          = ((satisfy (fun c => decide (49 ≤ c) && decide (c ≤ 57)) (b2 :: i1')).map fun v => v - 48).extend y := by
        rw [satisfy_ext y (by simp)]
        cases satisfy (fun c => decide (49 ≤ c) && decide (c ≤ 57)) (b2 :: i1') <;> rfl
      refine ext_bind e2 fun i2 nd h2 => ?_
      rw [h2] at hn
      by_cases hl : i2.length < nd
      · simp only [hl, if_true] at hn; exact absurd rfl hn
      · have hl' : ¬ (i2 ++ y).length < nd := by simp only [List.length_append]; omega
        have hle : nd ≤ i2.length := Nat.le_of_not_lt hl
        simp only [hl, hl', if_false, List.take_append_of_le_length hle,
          List.drop_append_of_le_length hle] at hn ⊢
        cases hv : validUtf8 (i2.take nd) with
        | false => simp
        | true =>
          simp only [hv, Bool.not_true, Bool.false_eq_true, if_false] at hn ⊢
          cases hf : fromStrRadix false 64 10 (i2.take nd) with
          | none => simp
          | some cnt =>
            simp only [hf] at hn ⊢
            by_cases hc : (i2.drop nd).length < cnt.toNat
            · simp only [hc, if_true] at hn; exact absurd rfl hn
            · have hc' : ¬ (i2.drop nd ++ y).length < cnt.toNat := by
                simp only [List.length_append]; omega
              have hce : cnt.toNat ≤ (i2.drop nd).length := Nat.le_of_not_lt hc
              simp only [hc, hc', if_false, List.take_append_of_le_length hce,
                List.drop_append_of_le_length hce, extend_ok]

/-! ### `argument` -/

theorem satisfy_cons_false {cls : Nat → Bool} {b : Nat} (r : Bytes) (h : cls b = false) :
    satisfy cls (b :: r) = ofErr .InvalidCharacter := by
  simp only [satisfy, h, Bool.false_eq_true, if_false]

theorem argument_head_soft (b : Nat) (r : Bytes) (hb : b ≤ 32 ∨ b = 59) :
    ∃ e, argument (b :: r) = .soft e := by
  have h1 : isAlpha b = false := by simp [isAlpha]; omega
  have h2 : isDigit b = false := by simp [isDigit]; omega
  have h3 : (b == 43) = false := by simp; omega
  have h4 : (b == 45) = false := by simp; omega
  have h5 : (b == 46) = false := by simp; omega
  have h6 : (b == 35) = false := by simp; omega
  have h7 : (b == 39) = false := by simp; omega
  have h8 : (b == 34) = false := by simp; omega
  simp [argument, characters, mnemonic, decimal, mantissa, sign, digits, optP, tag, hexadecimal,
    binary, octal, nondecimal, singleQuoted, doubleQuoted, quoted, arbitrary, satisfy_cons_false,
    h1, h2, h3, h4, h5, h6, h7, h8, PResult.bind, PResult.orNext, PResult.orElse, PResult.map, ofErr]

/-! ### The argument list -/

theorem argumentSeparator_nil : argumentSeparator [] = .soft (some (.std .InvalidSeparator)) := by
  rfl


theorem argument_mext (x y : Bytes) (hT : HasTerm x) : MExt y (argument x) (argument (x ++ y)) := by
  unfold argument
  exact mext_orNext (mext_orNext (mext_orNext (mext_orNext (mext_orNext (mext_orNext (mext_orNext
    (cb_characters x y hT).mext (cb_decimal x y hT).mext) (cb_hexadecimal x y hT).mext)
    (cb_binary x y hT).mext) (cb_octal x y hT).mext) (quoted_mext 39 x y)) (quoted_mext 34 x y))
    (arbitrary_mext x y)

theorem argsLoop_ok_ext : ∀ (fuel : Nat) (args : List Value) (x i6 : Bytes) (u : Unit)
    (args' : List Value), x.length < fuel → argsLoop fuel args x = (.ok i6 u, args') → HasTerm i6 →
    ∀ (y : Bytes) (fuel' : Nat), (x ++ y).length < fuel' →
      argsLoop fuel' args (x ++ y) = (.ok (i6 ++ y) u, args') := by
  intro fuel
  induction fuel with
  | zero => intro args x i6 u args' h; omega
  | succ n ih =>
    intro args x i6 u args' hlt h hT y fuel' hlt'
    have hsuf : i6 <:+ x := (argsLoop_good (n+1) args x hlt).suffix i6 u (by rw [h])
    have hTx := hT.of_suffix hsuf
    cases fuel' with
    | zero => omega
    | succ m =>
      have hs := cb_argumentSeparator x y hTx
      unfold argsLoop at h ⊢
      rw [hs.ext]
      cases hsep : argumentSeparator x with
      | ok i _ =>
        rw [hsep] at h
        simp only [extend_ok] at h ⊢
        have hTi := hs.keep _ _ hsep
        have hil := argumentSeparator_lt hsep
        cases ha : argument i with
        | ok i2 arg =>
          rw [ha] at h
          simp only [] at h
          rw [argument_mext i y hTi (by rw [ha]; intro e; cases e), ha]
          simp only [extend_ok]
          by_cases hlen : args.length < maxArgs
          · simp only [hlen, if_true] at h ⊢
            have hi2 := ((good_argument i).suffix _ _ ha).length_le
            simp only [List.length_append] at hlt'
            exact ih _ _ _ _ _ (by omega) h hT y m (by simp only [List.length_append]; omega)
          · simp only [hlen, if_false] at h
            exact absurd (Prod.mk.inj h).1 ofErr_ne_ok
        | soft e => rw [ha] at h; cases h
        | fatal e => rw [ha] at h; cases h
        | incomplete => rw [ha] at h; cases h
        | crash c => rw [ha] at h; cases h
      | soft e =>
        rw [hsep] at h
        simp only [extend_soft] at h ⊢
        cases h; rfl
      | fatal e => rw [hsep] at h; cases h
      | incomplete => rw [hsep] at h; cases h
      | crash c => rw [hsep] at h; cases h

theorem argsLoop_nl_ext : ∀ (fuel : Nat) (args : List Value) (x : Bytes) (res : PResult Unit)
    (args' : List Value), x.length < fuel → (x = [] ∨ EndsNL x) →
    argsLoop fuel args x = (res, args') → (∀ i u, res ≠ .ok i u) → res ≠ .incomplete →
    ∀ (y : Bytes) (fuel' : Nat), (x ++ y).length < fuel' →
      argsLoop fuel' args (x ++ y) = (res, args') := by
  intro fuel
  induction fuel with
  | zero => intro args x res args' h; omega
  | succ n ih =>
    intro args x res args' hlt hx h hok hinc y fuel' hlt'
    rcases hx with rfl | hnl
    · unfold argsLoop at h
      rw [argumentSeparator_nil] at h
      cases h
      exact absurd rfl (hok _ _)
    · have hTx := hnl.hasTerm
      cases fuel' with
      | zero => omega
      | succ m =>
        have hs := cb_argumentSeparator x y hTx
        unfold argsLoop at h ⊢
        rw [hs.ext]
        cases hsep : argumentSeparator x with
        | ok i _ =>
          rw [hsep] at h
          simp only [extend_ok] at h ⊢
          have hTi := hs.keep _ _ hsep
          have hil := argumentSeparator_lt hsep
          have hisuf := (good_argumentSeparator x).suffix _ _ hsep
          have hinl : EndsNL i := hnl.of_suffix hisuf hTi.ne_nil
          cases ha : argument i with
          | ok i2 arg =>
            rw [ha] at h
            simp only [] at h
            rw [argument_mext i y hTi (by rw [ha]; intro e; cases e), ha]
            simp only [extend_ok]
            by_cases hlen : args.length < maxArgs
            · simp only [hlen, if_true] at h ⊢
              have hi2s := (good_argument i).suffix _ _ ha
              have hi2 := hi2s.length_le
              simp only [List.length_append] at hlt'
              have hx2 : i2 = [] ∨ EndsNL i2 := by
                cases i2 with
                | nil => exact Or.inl rfl
                | cons c d => exact Or.inr (hinl.of_suffix hi2s (by simp))
              exact ih _ _ _ _ (by omega) hx2 h hok hinc y m
                (by simp only [List.length_append]; omega)
            · simp only [hlen, if_false] at h ⊢
              exact h
          | soft e =>
            rw [ha] at h
            rw [argument_mext i y hTi (by rw [ha]; intro e; cases e), ha]
            exact h
          | fatal e =>
            rw [ha] at h
            rw [argument_mext i y hTi (by rw [ha]; intro e; cases e), ha]
            exact h
          | incomplete => rw [ha] at h; cases h; exact absurd rfl hinc
          | crash c =>
            rw [ha] at h
            rw [argument_mext i y hTi (by rw [ha]; intro e; cases e), ha]
            exact h
        | soft e => rw [hsep] at h; cases h; exact absurd rfl (hok _ _)
        | fatal e => rw [hsep] at h; exact h
        | incomplete => rw [hsep] at h; cases h; exact absurd rfl hinc
        | crash c => rw [hsep] at h; exact h

theorem arguments_ok_ext {x i6 : Bytes} {u : Unit} {args : List Value}
    (h : arguments x = (.ok i6 u, args)) (hT : HasTerm i6) (y : Bytes) :
    arguments (x ++ y) = (.ok (i6 ++ y) u, args) := by
  have hsuf : i6 <:+ x := (arguments_good x).suffix i6 u (by rw [h])
  have hTx := hT.of_suffix hsuf
  unfold arguments at h ⊢
  cases ha : argument x with
  | ok i arg =>
    rw [ha] at h
    rw [argument_mext x y hTx (by rw [ha]; intro e; cases e), ha]
    simp only [maxArgs, Nat.zero_lt_succ, if_true, extend_ok] at h ⊢
    exact argsLoop_ok_ext _ _ _ _ _ _ (Nat.lt_succ_self _) h hT y _ (Nat.lt_succ_self _)
  | soft e => rw [ha] at h; cases h
  | fatal e => rw [ha] at h; cases h
  | incomplete => rw [ha] at h; cases h
  | crash c => rw [ha] at h; cases h

theorem arguments_nl_ext {x : Bytes} {res : PResult Unit} {args : List Value}
    (hnl : EndsNL x) (h : arguments x = (res, args)) (hok : ∀ i u, res ≠ .ok i u)
    (hinc : res ≠ .incomplete) (y : Bytes) : arguments (x ++ y) = (res, args) := by
  have hTx := hnl.hasTerm
  unfold arguments at h ⊢
  cases ha : argument x with
  | ok i arg =>
    rw [ha] at h
    rw [argument_mext x y hTx (by rw [ha]; intro e; cases e), ha]
    simp only [maxArgs, Nat.zero_lt_succ, if_true, extend_ok] at h ⊢
    have his := (good_argument x).suffix _ _ ha
    have hx2 : i = [] ∨ EndsNL i := by
      cases i with
      | nil => exact Or.inl rfl
      | cons c d => exact Or.inr (hnl.of_suffix his (by simp))
    exact argsLoop_nl_ext _ _ _ _ _ (Nat.lt_succ_self _) hx2 h hok hinc y _ (Nat.lt_succ_self _)
  | soft e =>
    rw [ha] at h
    rw [argument_mext x y hTx (by rw [ha]; intro e; cases e), ha]
    exact h
  | fatal e =>
    rw [ha] at h
    rw [argument_mext x y hTx (by rw [ha]; intro e; cases e), ha]
    exact h
  | incomplete => rw [ha] at h; cases h; exact absurd rfl hinc
  | crash c =>
    rw [ha] at h
    rw [argument_mext x y hTx (by rw [ha]; intro e; cases e), ha]
    exact h

end Scpi
