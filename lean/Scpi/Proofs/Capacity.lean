/-
Helpers for C13 (capacity part): the argument vector never exceeds `maxArgs`, and a
bounded writer never holds more than its capacity.
-/
import Scpi.Proofs.GoodParse
import Scpi.Exec

namespace Scpi
namespace C13

/-! ### The argument vector -/

/-- The loop of `arguments` keeps the vector within `maxArgs`, whatever the outcome. -/
theorem argsLoop_length : ∀ (fuel : Nat) (args : List Value) (input : Bytes),
    args.length ≤ maxArgs → (argsLoop fuel args input).2.length ≤ maxArgs
  | 0, args, _, h => h
  | fuel + 1, args, input, h => by
    unfold argsLoop
    split
    · split
      · split
        · rename_i hlt
          refine argsLoop_length fuel _ _ ?_
          simp only [List.length_append, List.length_cons, List.length_nil]
          omega
        · exact h
      all_goals exact h
    all_goals exact h

/-- `arguments` returns a vector of at most `maxArgs` entries — also when it fails
(the Rust code leaves the partly filled vector behind). -/
theorem arguments_length (input : Bytes) : (arguments input).2.length ≤ maxArgs := by
  unfold arguments
  split
  · split
    · exact argsLoop_length _ _ _ (by simp [maxArgs])
    · exact Nat.zero_le _
  all_goals exact Nat.zero_le _

/-- The calls a parse result can carry have at most `maxArgs` arguments. -/
def ArgsBounded (r : PResult (Option CommandCall)) : Prop :=
  ∀ rest call, r = .ok rest (some call) → call.args.length ≤ maxArgs

theorem parseTail_bounded (nh : Node × Option Node) (q : Bool) (i6 : Bytes) (args : List Value)
    (h : args.length ≤ maxArgs) : ArgsBounded (parseTail nh q i6 args) := by
  intro rest call hc
  unfold parseTail at hc
  obtain ⟨i7, _, _, hc⟩ := bind_eq_ok hc
  obtain ⟨i8, t, _, hc⟩ := bind_eq_ok hc
  cases hc
  exact h

theorem parseArgs_bounded (nh : Node × Option Node) (q : Bool) (i5 : Bytes) (hasArgs : Bool) :
    ArgsBounded (parseArgs nh q i5 hasArgs) := by
  unfold parseArgs
  split
  · have hl := arguments_length i5
    split
    · rename_i heq; rw [heq] at hl; exact parseTail_bounded _ _ _ _ hl
    · rename_i heq; rw [heq] at hl; exact parseTail_bounded _ _ _ _ hl
    all_goals (intro rest call hc; cases hc)
  · exact parseTail_bounded _ _ _ _ (Nat.zero_le _)

theorem parseAfterHeader_bounded (nh : Node × Option Node) (i3 : Bytes) :
    ArgsBounded (parseAfterHeader nh i3) := by
  unfold parseAfterHeader
  split
  · exact parseArgs_bounded _ _ _ _
  · exact parseArgs_bounded _ _ _ _
  all_goals (intro rest call hc; cases hc)

theorem parse_bounded (root header : Node) (input : Bytes) :
    ArgsBounded (parse root header input) := by
  intro rest call hc
  unfold parse at hc
  obtain ⟨i1, _, _, hc⟩ := bind_eq_ok hc
  obtain ⟨i2, t, _, hc⟩ := bind_eq_ok hc
  split at hc
  · cases hc
  · obtain ⟨i3, nh, _, hc⟩ := bind_eq_ok hc
    exact parseAfterHeader_bounded nh i3 rest call hc

/-! ### The writer -/

/-- The writer is `heapless::Vec<u8, c>` and holds at most `c` bytes. -/
def Within (c : Nat) (w : Writer) : Prop := w.cap = some c ∧ w.buf.length ≤ c

theorem within_push {c : Nat} {w : Writer} {b : Bytes} (h : Within c w)
    (hf : w.fits b.length = true) : Within c (w.push b) := by
  obtain ⟨hc, _⟩ := h
  refine ⟨hc, ?_⟩
  unfold Writer.fits at hf
  rw [hc] at hf
  simp only [decide_eq_true_eq] at hf
  simpa [Writer.push] using hf

theorem within_flush {c : Nat} {w : Writer} (h : Within c w) : Within c w.flush := h

theorem within_pushPieces {c : Nat} : ∀ (ps : List Bytes) (w : Writer), Within c w →
    Within c (w.pushPieces ps).1
  | [], _, h => h
  | p :: ps, w, h => by
    unfold Writer.pushPieces
    split
    · rename_i hf
      exact within_pushPieces ps _ (within_push h hf)
    · exact h

theorem within_call {c : Nat} (w : Writer) (x : WCall) (h : Within c w) :
    Within c (w.call x).1 := by
  cases x with
  | direct b =>
    simp only [Writer.call]
    split
    · rename_i hf; exact within_push h hf
    · exact h
  | fmt ps =>
    simp only [Writer.call]
    split
    · rename_i hn
      rw [h.1] at hn; cases hn
    · have := within_pushPieces ps w h
      split <;> (rename_i heq; rw [heq] at this; exact this)
  | fail e => exact h

theorem within_calls {c : Nat} : ∀ (xs : List WCall) (w : Writer), Within c w →
    Within c (w.calls xs).1
  | [], _, h => h
  | x :: xs, w, h => by
    unfold Writer.calls
    have h1 := within_call w x h
    split
    · rename_i w1 heq
      rw [heq] at h1
      exact within_calls xs w1 h1
    · rename_i w1 e heq
      rw [heq] at h1
      exact h1

theorem within_writeResp {c : Nat} (w : Writer) (r : Resp) (h : Within c w) :
    Within c (w.writeResp r).1 := within_calls _ _ h

theorem within_executeCommand {σ : Type} {c : Nat} (I : Iface σ) (id : Nat) (args : List Value)
    (w : Writer) (s : σ) (h : Within c w) : Within c (executeCommand I id args w s).2.1 := by
  unfold executeCommand
  split
  · exact h
  · split
    · exact h
    · split
      · exact h
      · exact h
      · split
        · exact h
        · rename_i resp _
          have := within_writeResp w resp h
          split <;> (rename_i heq; rw [heq] at this; exact this)

theorem within_execute {σ : Type} {c : Nat} (I : Iface σ) (call : CommandCall) (w : Writer) (s : σ)
    (h : Within c w) : Within c (execute I call w s).2.1 := by
  unfold execute
  split
  · exact h
  · rename_i id _
    have h1 := within_executeCommand I id call.args w s h
    split
    · rename_i s1 w1 heq
      rw [heq] at h1
      split
      · have h2 := within_call w1 (.direct [10]) h1
        split
        · rename_i w2 heq2
          rw [heq2] at h2
          exact within_flush h2
        · rename_i w2 e heq2
          rw [heq2] at h2
          exact h2
      · exact h1
    · exact h1

theorem within_runLoop {σ : Type} {c : Nat} (I : Iface σ) : ∀ (fuel : Nat) (header : Node)
    (input : Bytes) (w : Writer) (s : σ), Within c w → Within c (runLoop I fuel header input w s).w
  | 0, _, _, _, _, h => h
  | fuel + 1, header, input, w, s, h => by
    unfold runLoop
    split
    · exact h
    · split
      · exact h
      · exact h
      · simp only
        split
        · exact within_runLoop I fuel _ _ w _ h
        · exact h
      · simp only
        split
        · exact within_runLoop I fuel _ _ w _ h
        · exact h
      · exact within_runLoop I fuel _ _ w _ h
      · rename_i i call _
        have h1 := within_execute I call w s h
        split
        · rename_i s1 w1 cr heq
          rw [heq] at h1
          exact h1
        · rename_i s1 w1 r _ heq
          rw [heq] at h1
          exact within_runLoop I fuel _ _ w1 _ h1

end C13
end Scpi
