/-
Every recogniser of parser.rs is `Good`: it never crashes (no slice or
subtraction out of range, no `unwrap` on `None`, no loop without progress within
the fuel given) and the rest it returns is a suffix of its input.
-/
import Scpi.Proofs.Comb

namespace Scpi

theorem good_whitespace : Good whitespace := by
  intro input
  unfold whitespace
  split
  · exact rgood_incomplete
  · exact rgood_ofErr
  · next t r h1 h2 =>
    exact rgood_ok (List.dropWhile_suffix isWs)

theorem good_digits : Good digits := by
  intro input
  unfold digits
  refine rgood_bind (good_satisfy _ input) fun i1 b _ h1 => ?_
  refine rgood_bind ((good_takeWhileP _ i1).mono h1) fun i2 res _ h2 => ?_
  exact rgood_ok h2

theorem good_mnemonic : Good mnemonic := by
  intro input
  unfold mnemonic
  refine rgood_bind (good_satisfy _ input) fun i1 b _ h1 => ?_
  refine rgood_bind ((good_takeWhileP _ i1).mono h1) fun i2 res _ h2 => ?_
  exact rgood_ok h2

theorem good_sign : Good sign := by
  intro input
  unfold sign
  exact rgood_orElse (good_tag 43 input) (good_tag 45 input)

theorem good_characters : Good characters := by
  intro input
  unfold characters
  refine rgood_bind (good_mnemonic input) fun i res _ h => ?_
  exact fromUtf8_rgood fun s => rgood_ok h

theorem good_mantissa : Good mantissa := by
  intro input
  unfold mantissa
  refine rgood_bind (good_optP good_sign input) fun i1 _ _ h1 => ?_
  refine rgood_bind ((good_optP good_digits i1).mono h1) fun i2 d1 _ h2 => ?_
  refine rgood_bind ((good_optP (good_tag 46) i2).mono h2) fun i3 _ _ h3 => ?_
  refine rgood_bind ?_ fun i4 _ _ h4 => ?_
  · split
    · exact (good_optP good_digits i3).mono h3
    · exact rgood_map ((good_digits i3).mono h3)
  · exact consumed_rgood h4 fun s => rgood_ok h4

theorem good_exponent : Good exponent := by
  intro input
  unfold exponent
  refine rgood_bind (good_satisfy _ input) fun i1 _ _ h1 => ?_
  refine rgood_bind ((good_optP good_sign i1).mono h1) fun i2 _ _ h2 => ?_
  refine rgood_bind ((good_digits i2).mono h2) fun i3 _ _ h3 => ?_
  exact consumed_rgood h3 fun s => rgood_ok h3

theorem good_decimal : Good decimal := by
  intro input
  unfold decimal
  refine rgood_bind (good_mantissa input) fun i1 _ _ h1 => ?_
  refine rgood_bind ((good_optP good_exponent i1).mono h1) fun i2 _ _ h2 => ?_
  exact consumed_rgood h2 fun s => fromUtf8_rgood fun s => rgood_ok h2

theorem good_nondecimal (l d : Nat → Bool) (mk : Bytes → Value) : Good (nondecimal l d mk) := by
  intro input
  unfold nondecimal
  refine rgood_bind (good_tag 35 input) fun i1 _ _ h1 => ?_
  refine rgood_bind ((good_satisfy _ i1).mono h1) fun i2 _ _ h2 => ?_
  refine rgood_bind ((good_satisfy _ i2).mono h2) fun i3 _ e3 h3 => ?_
  refine rgood_bind ((good_takeWhileP _ i3).mono h3) fun i4 _ e4 h4 => ?_
  -- `i4` is a suffix of `i2`
  have h34 : i4 <:+ i3 := (good_takeWhileP _ i3).suffix _ _ e4
  have h23 : i3 <:+ i2 := (good_satisfy _ i2).suffix _ _ e3
  have h24 : i4 <:+ i2 := h34.trans h23
  unfold consumed
  simp only [h24.length_le, if_true]
  exact fromUtf8_rgood fun s => rgood_ok h4

theorem good_hexadecimal : Good hexadecimal := good_nondecimal _ _ _
theorem good_binary : Good binary := good_nondecimal _ _ _
theorem good_octal : Good octal := good_nondecimal _ _ _

theorem good_quoted (q : Nat) : Good (quoted q) := by
  intro input
  unfold quoted
  refine rgood_bind (good_tag q input) fun i1 _ _ h1 => ?_
  refine rgood_bind ((good_takeWhileP _ i1).mono h1) fun i2 res _ h2 => ?_
  refine rgood_bind ((good_tag q i2).mono h2) fun i3 _ _ h3 => ?_
  exact fromUtf8_rgood fun s => rgood_ok h3

theorem good_arbitrary : Good arbitrary := by
  intro input
  unfold arbitrary
  refine rgood_bind (good_tag 35 input) fun i1 _ _ h1 => ?_
  refine rgood_bind (rgood_map ((good_satisfy _ i1).mono h1)) fun i2 nd _ h2 => ?_
  split
  · exact rgood_incomplete
  · simp only []
    split
    · exact rgood_ofErr
    · split
      · exact rgood_ofErr
      · split
        · exact rgood_incomplete
        · exact rgood_ok (((List.drop_suffix _ _).trans (List.drop_suffix _ _)).trans h2)

theorem good_argumentSeparator : Good argumentSeparator := by
  intro input
  unfold argumentSeparator
  refine rgood_bind (good_optP good_whitespace input) fun i1 _ _ h1 => ?_
  refine rgood_bind (rgood_mapErr ((good_tag 44 i1).mono h1)) fun i2 _ _ h2 => ?_
  refine rgood_bind ((good_optP good_whitespace i2).mono h2) fun i3 _ _ h3 => ?_
  exact rgood_ok h3

theorem good_argument : Good argument := by
  intro input
  unfold argument
  refine rgood_orNext (rgood_orNext (rgood_orNext (rgood_orNext (rgood_orNext (rgood_orNext
    (rgood_orNext (good_characters input) (good_decimal input)) (good_hexadecimal input))
    (good_binary input)) (good_octal input)) (good_quoted 39 input)) (good_quoted 34 input))
    (good_arbitrary input)

end Scpi
