/-
Prefix determinacy (C12, the longer-to-shorter direction): combinator lemmas.

The forward development (`ExtComb.lean`) shows `p (x ++ y) = (p x).extend y` under
suitable hypotheses.  Here the same facts are read backwards: from a success on
the extended input `x ++ y` whose rest still ends with `y`, the success on `x`
itself is recovered.

* `extend_eq_ok`, `rel_back`: inversion of `extend` (class-bounded recognisers on
  an input that contains a terminator).
* `EndsT`: the input ends with a terminator byte, so every non-empty suffix of it
  contains one.
* `PB`: the relation between the verdict on `x` and on `x ++ y` that survives the
  ordered choice `orNext` even for the payload recognisers, whose `incomplete`
  verdict on `x` may turn into anything on `x ++ y`.
-/
import Scpi.Proofs.ExtParse

namespace Scpi.PD

/-! ### Inversion of `extend` -/

theorem extend_eq_ok {α : Type} {a : PResult α} {y R : Bytes} {v : α}
    (h : a.extend y = .ok R v) : ∃ r, a = .ok r v ∧ R = r ++ y := by
  cases a with
  | ok r w =>
    simp only [extend_ok] at h
    injection h with h1 h2
    subst h2
    exact ⟨r, rfl, h1.symm⟩
  | soft e => cases h
  | fatal e => cases h
  | incomplete => cases h
  | crash c => cases h

/-- Backward reading of `Rel`: a success on the extended input comes from a success
on the input, whose rest still contains a terminator. -/
theorem rel_back {α : Type} {y : Bytes} {a a' : PResult α} {R : Bytes} {v : α}
    (h : Rel y a a') (e : a' = .ok R v) : ∃ r, R = r ++ y ∧ a = .ok r v ∧ HasTerm r := by
  rw [h.ext] at e
  obtain ⟨r, ha, hR⟩ := extend_eq_ok e
  exact ⟨r, hR, ha, h.keep r v ha⟩

/-- `bind` after an extended result, read backwards. -/
theorem back_bind {α β : Type} {y : Bytes} {a : PResult α} {k' : Bytes → α → PResult β}
    {R : Bytes} {v : β} (h : (a.extend y).bind k' = .ok R v) :
    ∃ r w, a = .ok r w ∧ k' (r ++ y) w = .ok R v := by
  obtain ⟨r1, w, e, hk⟩ := bind_eq_ok h
  obtain ⟨r, ha, rfl⟩ := extend_eq_ok e
  exact ⟨r, w, ha, hk⟩

/-! ### Lists -/

theorem suffix_append_cancel {r u z : Bytes} (h : r ++ z <:+ u ++ z) : r <:+ u := by
  obtain ⟨s, hs⟩ := h
  rw [← List.append_assoc] at hs
  exact ⟨s, List.append_cancel_right hs⟩

/-- A rest between `z` and `u ++ z` is `r ++ z` for a suffix `r` of `u`. -/
theorem suffix_split {z R u : Bytes} (h1 : z <:+ R) (h2 : R <:+ u ++ z) :
    ∃ r, R = r ++ z ∧ r <:+ u := by
  obtain ⟨r, rfl⟩ := h1
  exact ⟨r, rfl, suffix_append_cancel h2⟩

theorem getLast?_of_suffix {r x : Bytes} (hs : r <:+ x) (hr : r ≠ []) :
    r.getLast? = x.getLast? := by
  obtain ⟨s, rfl⟩ := hs
  rw [List.getLast?_append]
  cases hl : r.getLast? with
  | none => exact absurd (List.getLast?_eq_none_iff.mp hl) hr
  | some b => rfl

/-- The input ends with a terminator byte (`\n` or `;`). -/
def EndsT (x : Bytes) : Prop := x.getLast? = some 10 ∨ x.getLast? = some 59

theorem EndsT.hasTerm {x : Bytes} (h : EndsT x) : HasTerm x :=
  h.elim (fun h => Or.inl (List.mem_of_getLast? h)) (fun h => Or.inr (List.mem_of_getLast? h))

theorem EndsT.of_suffix {r x : Bytes} (h : EndsT x) (hs : r <:+ x) (hr : r ≠ []) : EndsT r := by
  unfold EndsT at h ⊢
  rw [getLast?_of_suffix hs hr]
  exact h

theorem EndsT.ne_nil {x : Bytes} (h : EndsT x) : x ≠ [] := h.hasTerm.ne_nil

/-- `x` ends with a terminator when `t :: z` is a suffix of `x ++ z`. -/
theorem endsT_of_suffix {t : Nat} {x z : Bytes} (ht : t = 10 ∨ t = 59)
    (hs : t :: z <:+ x ++ z) : EndsT x := by
  have hs' : [t] ++ z <:+ x ++ z := hs
  obtain ⟨s, rfl⟩ := suffix_append_cancel hs'
  unfold EndsT
  rw [List.getLast?_append]
  rcases ht with rfl | rfl
  · exact Or.inl rfl
  · exact Or.inr rfl

/-! ### The relation that survives the ordered choice -/

/-- `a` is the verdict on `x`, `a'` the verdict on `x ++ y`:
every verdict other than `incomplete` is final (`mext`); a success that leaves at
least `y` comes from a success on `x` (`bk`); and when `a` is `incomplete` then
either `a'` is, or the side condition `Q` holds (for `quoted q`: the input starts
with the quote `q`, so that all later alternatives fail). -/
structure PB (Q : Prop) {α : Type} (y : Bytes) (a a' : PResult α) : Prop where
  mext : a ≠ .incomplete → a' = a.extend y
  bk : ∀ r v, a' = .ok (r ++ y) v → a = .ok r v
  inc : a = .incomplete → a' = .incomplete ∨ Q

theorem rel_pb {α : Type} {y : Bytes} {a a' : PResult α} (h : Rel y a a') : PB False y a a' := by
  refine ⟨fun _ => h.ext, fun r v e => ?_, fun e => Or.inl ?_⟩
  · rw [h.ext] at e
    obtain ⟨r', ha, hr⟩ := extend_eq_ok e
    rw [List.append_cancel_right hr]
    exact ha
  · rw [h.ext, e]; rfl

theorem pb_orNext {Qa Qb : Prop} {α : Type} {y : Bytes} {a a' : PResult α}
    {b b' : Unit → PResult α} (ha : PB Qa y a a') (hb : PB Qb y (b ()) (b' ()))
    (hx : Qa → ∀ R v, b' () ≠ .ok R v) : PB (Qa ∨ Qb) y (a.orNext b) (a'.orNext b') := by
  obtain ⟨m, bk, inc⟩ := ha
  refine ⟨mext_orNext m hb.mext, ?_, ?_⟩
  · intro r v h
    cases a with
    | ok r0 v0 =>
      rw [m (by intro e; cases e)] at h
      simp only [extend_ok, PResult.orNext] at h
      injection h with h1 h2
      subst h2
      rw [List.append_cancel_right h1]
      rfl
    | soft e =>
      rw [m (by intro e; cases e)] at h
      exact hb.bk r v h
    | fatal e =>
      rw [m (by intro e; cases e)] at h
      exact hb.bk r v h
    | crash c =>
      rw [m (by intro e; cases e)] at h
      cases h
    | incomplete =>
      exfalso
      rcases inc rfl with e | q
      · rw [e] at h; cases h
      · cases ha' : a' with
        | ok R w =>
          rw [ha'] at h
          simp only [PResult.orNext] at h
          injection h with h1 h2
          subst h1
          have := bk r w ha'
          cases this
        | soft e => rw [ha'] at h; exact hx q _ _ h
        | fatal e => rw [ha'] at h; exact hx q _ _ h
        | incomplete => rw [ha'] at h; cases h
        | crash c => rw [ha'] at h; cases h
  · intro h
    cases a with
    | ok r0 v0 => cases h
    | soft e =>
      rw [m (by intro e; cases e)]
      exact (hb.inc h).imp id Or.inr
    | fatal e =>
      rw [m (by intro e; cases e)]
      exact (hb.inc h).imp id Or.inr
    | crash c => cases h
    | incomplete =>
      rcases inc rfl with e | q
      · rw [e]; exact Or.inl rfl
      · exact Or.inr (Or.inl q)

end Scpi.PD
