/-
The outer loop of `process` on a fault-free script: it delivers the whole stream,
ends with end-of-stream and computes what the stream machine computes.
-/
import Scpi.Proofs.StreamOuter

namespace Scpi

theorem nextCount_progress {σ : Type} (n : Nat) (st : PState σ) (hread : st.readOff < n)
    (hne : ¬(st.stream.isEmpty ∧ st.sizes.isEmpty)) :
    (st.sizes.drop 1).length + (st.stream.drop (nextCount n st)).length
      < st.sizes.length + st.stream.length := by
  unfold nextCount
  cases hs : st.sizes with
  | cons k rest => simp only [List.length_drop, List.length_cons]; omega
  | nil =>
    have : st.stream ≠ [] := by
      intro h; apply hne; simp [h, hs]
    have : 0 < st.stream.length := List.length_pos_iff.mpr this
    simp only [List.length_drop, List.length_nil]
    omega

theorem procLoop_refines {σ : Type} (I : Iface σ) (n : Nat) : ∀ (fuel : Nat) (st : PState σ),
    PInv n st → st.sizes.length + st.stream.length < fuel →
    (procLoop I n none fuel st).stop = .transport .eos ∧
    (procLoop I n none fuel st).final.stream = [] ∧
    (procLoop I n none fuel st).trace = (procLoop I n none fuel st).final.trace ∧
    (procLoop I n none fuel st).trace.filter PEv.nonRead
      = (st.stream.foldl (streamSpec I n) (absP st)).out ∧
    (procLoop I n none fuel st).user = (st.stream.foldl (streamSpec I n) (absP st)).user := by
  intro fuel
  induction fuel with
  | zero => intro _ _ h; omega
  | succ fuel ih =>
    intro st hinv hfuel
    by_cases hne : st.stream.isEmpty ∧ st.sizes.isEmpty
    · have hs : st.stream = [] := by simpa using hne.1
      have hr := hinv.read
      rw [procLoop, if_neg (by omega)]
      simp only [faultAt_none]
      rw [if_pos hne]
      simp [hs, absP]
    · obtain ⟨st', h1, h2, h3, h4, h5⟩ := procLoop_step I n fuel st hinv hne
      have hp := nextCount_progress n st hinv.read hne
      rw [← h3, ← h4] at hp
      have := ih st' h2 (by omega)
      rw [h1]
      have hsplit : st.stream.foldl (streamSpec I n) (absP st)
          = st'.stream.foldl (streamSpec I n) (absP st') := by
        rw [h5, h3, ← List.foldl_append, List.take_append_drop]
      rw [hsplit]
      exact this

end Scpi
