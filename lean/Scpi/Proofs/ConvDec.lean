/-
Helpers for C03 (float part), stage 5: consequences of nearest-ties-to-even — when
`roundRat` overflows to infinity, when it returns zero — and the soundness of the two
magnitude shortcuts of `roundDec`.
-/
import Scpi.Proofs.ConvNearest

namespace Scpi
namespace C03

theorem roundRat_zero_num (f : FloatFmt) (d : Nat) : roundRat f 0 d = 0 := by
  unfold roundRat; simp

theorem two_le_pow_mbits (f : FloatFmt) (hm : 1 ≤ f.mbits) : 2 ≤ 2 ^ f.mbits := by
  have : 2 ^ 1 ≤ 2 ^ f.mbits := Nat.pow_le_pow_right (by decide) hm
  omega

theorem infBits_pos (f : FloatFmt) (hm : 1 ≤ f.mbits) (he : 2 ≤ f.ebits) : 2 ≤ f.infBits := by
  unfold FloatFmt.infBits
  have h1 := expMax_ge_three f he
  have h2 := two_le_pow_mbits f hm
  have : 1 * 2 ^ f.mbits ≤ f.expMax * 2 ^ f.mbits := Nat.mul_le_mul_right _ (by omega)
  omega

/-- The pattern 1 is the smallest sub-normal: one unit, odd fraction field. -/
theorem fscaled_one (f : FloatFmt) (hm : 1 ≤ f.mbits) :
    fscaled f 1 = 1 ∧ f.fracOf 1 = 1 := by
  have h2 := two_le_pow_mbits f hm
  obtain ⟨h1, h3⟩ := fields_of f 0 1 (by omega) (Nat.zero_le _)
  have h4 := fscaled_of_fields f 0 1 (by omega) (Nat.zero_le _)
  rw [Nat.zero_mul, Nat.zero_add] at h1 h3 h4
  exact ⟨by rw [h4]; simp [gridVal], h3⟩

/-- The largest finite pattern: one step below the grid value of infinity is
`(2^(mbits+1) - 1) · 2^(expMax - 2)`, and its fraction field is odd. -/
theorem fscaled_maxFinite (f : FloatFmt) (hm : 1 ≤ f.mbits) (he : 2 ≤ f.ebits) :
    fscaled f (f.infBits - 1) = (2 ^ (f.mbits + 1) - 1) * 2 ^ (f.expMax - 2) ∧
    f.fracOf (f.infBits - 1) % 2 = 1 := by
  have h2 := two_le_pow_mbits f hm
  have h3 := expMax_ge_three f he
  have hM := two_pow_pos' f.mbits
  have hbits : f.infBits - 1 = (f.expMax - 1) * 2 ^ f.mbits + (2 ^ f.mbits - 1) := by
    unfold FloatFmt.infBits
    have : f.expMax * 2 ^ f.mbits = (f.expMax - 1) * 2 ^ f.mbits + 2 ^ f.mbits := by
      rw [Nat.sub_mul, Nat.one_mul]
      have : 1 * 2 ^ f.mbits ≤ f.expMax * 2 ^ f.mbits := Nat.mul_le_mul_right _ (by omega)
      omega
    omega
  obtain ⟨h4, h5⟩ := fields_of f (f.expMax - 1) (2 ^ f.mbits - 1) (by omega) (by omega)
  have h6 := fscaled_of_fields f (f.expMax - 1) (2 ^ f.mbits - 1) (by omega) (by omega)
  rw [← hbits] at h4 h5 h6
  constructor
  · rw [h6]
    unfold gridVal
    rw [if_neg (by omega)]
    have e1 : f.expMax - 1 - 1 = f.expMax - 2 := by omega
    have e2 : 2 ^ f.mbits + (2 ^ f.mbits - 1) = 2 ^ (f.mbits + 1) - 1 := by
      rw [Nat.pow_succ]; omega
    rw [e1, e2]
  · rw [h5]
    obtain ⟨j, hj⟩ : ∃ j, f.mbits = j + 1 := ⟨f.mbits - 1, by omega⟩
    rw [hj, Nat.pow_succ]
    have := two_pow_pos' j
    omega

/-- **Overflow exactly from the midpoint up**: `roundRat` returns the infinity pattern
iff `n/d` is at least half-way between the largest finite value and `2^(expMax-bias)`
(the tie goes to infinity because the largest finite value has an odd fraction field —
as IEEE 754 prescribes). -/
theorem roundRat_inf_iff' (f : FloatFmt) (hm : 1 ≤ f.mbits) (he : 2 ≤ f.ebits) (n d : Nat)
    (hd : 0 < d) :
    roundRat f n d = f.infBits ↔
      (fscaled f (f.infBits - 1) + fscaled f f.infBits) * d ≤ 2 * (n * funitDen f) := by
  have hinfpos := infBits_pos f hm he
  have hlt := fscaled_lt f (f.infBits - 1) f.infBits (by omega) (Nat.le_refl _)
  have hltd : fscaled f (f.infBits - 1) * d < fscaled f f.infBits * d :=
    Nat.mul_lt_mul_of_pos_right hlt hd
  rw [Nat.add_mul]
  by_cases hn : n = 0
  · subst hn
    rw [roundRat_zero_num]
    constructor
    · intro h; omega
    · intro h; omega
  obtain ⟨hb, hnear⟩ := roundRat_nearest' f hm he n d hn hd
  constructor
  · intro h
    rw [h] at hnear
    have := (hnear (f.infBits - 1) (by omega)).1
    unfold fdist absDiff at this
    omega
  · intro h
    rcases Nat.lt_or_eq_of_le hb with hfin | hfin
    · exfalso
      -- a finite result is at most the largest finite value
      have hle := fscaled_le f (roundRat f n d) (f.infBits - 1) (by omega) (by omega)
      have hled : fscaled f (roundRat f n d) * d ≤ fscaled f (f.infBits - 1) * d :=
        Nat.mul_le_mul_right _ hle
      obtain ⟨h1, h2⟩ := hnear f.infBits (Nat.le_refl _)
      unfold fdist absDiff at h1 h2
      have hodd := (fscaled_maxFinite f hm he).2
      have heq : fscaled f (roundRat f n d) * d = fscaled f (f.infBits - 1) * d := by omega
      have hb' : roundRat f n d = f.infBits - 1 :=
        fscaled_inj f _ _ hb (by omega) (Nat.eq_of_mul_eq_mul_right hd heq)
      have := h2 (by omega) (by omega)
      rw [hb'] at this
      omega
    · exact hfin

/-- **Zero exactly up to half the smallest sub-normal** (the tie goes to zero: even). -/
theorem roundRat_zero_iff' (f : FloatFmt) (hm : 1 ≤ f.mbits) (he : 2 ≤ f.ebits) (n d : Nat)
    (hd : 0 < d) :
    roundRat f n d = 0 ↔ 2 * (n * funitDen f) ≤ d := by
  have hinfpos := infBits_pos f hm he
  obtain ⟨hs1, hf1⟩ := fscaled_one f hm
  by_cases hn : n = 0
  · subst hn
    rw [roundRat_zero_num]
    simp
  obtain ⟨hb, hnear⟩ := roundRat_nearest' f hm he n d hn hd
  constructor
  · intro h
    rw [h] at hnear
    have := (hnear 1 (by omega)).1
    unfold fdist absDiff at this
    rw [fscaled_zero, hs1] at this
    omega
  · intro h
    rcases Nat.eq_zero_or_pos (roundRat f n d) with h0 | h0
    · exact h0
    · exfalso
      have hge := fscaled_le f 1 (roundRat f n d) (by omega) hb
      rw [hs1] at hge
      have hged : 1 * d ≤ fscaled f (roundRat f n d) * d := Nat.mul_le_mul_right _ hge
      obtain ⟨h1, h2⟩ := hnear 0 (by omega)
      unfold fdist absDiff at h1 h2
      rw [fscaled_zero] at h1 h2
      have heq : fscaled f (roundRat f n d) * d = fscaled f 1 * d := by rw [hs1]; omega
      have hb' : roundRat f n d = 1 :=
        fscaled_inj f _ _ hb (by omega) (Nat.eq_of_mul_eq_mul_right hd heq)
      have := h2 (by omega) (by omega)
      rw [hb', hf1] at this
      omega

/-! ### The magnitude shortcuts of `roundDec` -/

/-- `10^(l-1) ≤ mant < 10^l` for the number `l` of decimal digits of `mant ≠ 0`. -/
theorem decLen_bounds (mant : Nat) (h : mant ≠ 0) :
    0 < decLen mant ∧ 10 ^ (decLen mant - 1) ≤ mant ∧ mant < 10 ^ decLen mant := by
  unfold decLen
  rw [if_neg h]
  have hpos : 0 < (Nat.toDigits 10 mant).length := by
    rcases Nat.eq_zero_or_pos (Nat.toDigits 10 mant).length with h0 | h0
    · have := (Nat.length_toDigits_le_iff (b := 10) (n := mant) (k := 1) (by decide)
        (by decide)).mp (by omega)
      have h1 : mant < 10 := by simpa using this
      rw [Nat.toDigits_of_lt_base h1] at h0
      simp at h0
    · exact h0
  refine ⟨hpos, ?_, ?_⟩
  · by_cases h1 : (Nat.toDigits 10 mant).length - 1 = 0
    · rw [h1]; simp; omega
    · apply Nat.le_of_not_lt
      intro hlt
      have := (Nat.length_toDigits_le_iff (b := 10) (n := mant)
        (k := (Nat.toDigits 10 mant).length - 1) (by decide) (by omega)).mpr hlt
      omega
  · exact (Nat.length_toDigits_le_iff (b := 10) (n := mant) (by decide) hpos).mp (Nat.le_refl _)

/-- `roundDec` without the shortcuts: `roundRat` on the exact value `mant · 10^exp10`. -/
def roundDecExact (f : FloatFmt) (mant : Nat) (exp10 : Int) : Nat :=
  if exp10 ≥ 0 then roundRat f (mant * 10 ^ exp10.toNat) 1
  else roundRat f mant (10 ^ (-exp10).toNat)

theorem ten_pow_pos (k : Nat) : 0 < 10 ^ k := Nat.pow_pos (by decide)

/-- The shortcuts are sound for any format whose overflow threshold is below `10^400`
and whose smallest sub-normal is above `2 · 10^-401`. -/
theorem roundDec_eq_exact (f : FloatFmt) (hm : 1 ≤ f.mbits) (he : 2 ≤ f.ebits)
    (hhi : fscaled f f.infBits ≤ 10 ^ 400 * funitDen f) (hlo : 2 * funitDen f ≤ 10 ^ 401)
    (mant : Nat) (exp10 : Int) :
    roundDec f mant exp10 = roundDecExact f mant exp10 := by
  unfold roundDec roundDecExact
  by_cases hmz : mant = 0
  · subst hmz
    simp [roundRat_zero_num]
  rw [if_neg hmz]
  obtain ⟨hl0, hl1, hl2⟩ := decLen_bounds mant hmz
  simp only []
  generalize decLen mant = l at *
  have hSle : fscaled f (f.infBits - 1) ≤ fscaled f f.infBits :=
    fscaled_le f _ _ (by omega) (Nat.le_refl _)
  split
  · -- huge: infinity
    rename_i hbig
    symm
    split
    · rename_i hpos
      rw [roundRat_inf_iff' f hm he _ 1 (by decide)]
      obtain ⟨j, hj⟩ : ∃ j, l - 1 + exp10.toNat = 400 + j := ⟨l - 1 + exp10.toNat - 400, by omega⟩
      have h1 : 10 ^ (l - 1) * 10 ^ exp10.toNat ≤ mant * 10 ^ exp10.toNat :=
        Nat.mul_le_mul_right _ hl1
      rw [← Nat.pow_add, hj, Nat.pow_add] at h1
      generalize (10 : Nat) ^ 400 = H at *
      have h2 : H * 1 ≤ H * 10 ^ j := Nat.mul_le_mul_left _ (ten_pow_pos j)
      have h3 : H * funitDen f ≤ (mant * 10 ^ exp10.toNat) * funitDen f :=
        Nat.mul_le_mul_right _ (by omega)
      clear hl0 hl2 hlo hbig hpos hj
      omega
    · rename_i hneg
      rw [roundRat_inf_iff' f hm he _ _ (ten_pow_pos _)]
      obtain ⟨j, hj⟩ : ∃ j, l - 1 = 400 + j + (-exp10).toNat :=
        ⟨l - 1 - 400 - (-exp10).toNat, by omega⟩
      rw [hj, Nat.pow_add, Nat.pow_add] at hl1
      generalize (10 : Nat) ^ 400 = H at *
      have h2 : H * 1 ≤ H * 10 ^ j := Nat.mul_le_mul_left _ (ten_pow_pos j)
      have h3 : H * 10 ^ (-exp10).toNat ≤ H * 10 ^ j * 10 ^ (-exp10).toNat :=
        Nat.mul_le_mul_right _ (by omega)
      have h4 : fscaled f f.infBits * 10 ^ (-exp10).toNat ≤
          H * funitDen f * 10 ^ (-exp10).toNat := Nat.mul_le_mul_right _ hhi
      have h5 : H * 10 ^ (-exp10).toNat * funitDen f ≤ mant * funitDen f :=
        Nat.mul_le_mul_right _ (by omega)
      have h6 : H * funitDen f * 10 ^ (-exp10).toNat =
          H * 10 ^ (-exp10).toNat * funitDen f := by ac_rfl
      clear hl0 hl2 hlo hbig hneg hj
      have h7 : fscaled f (f.infBits - 1) * 10 ^ (-exp10).toNat ≤
          fscaled f f.infBits * 10 ^ (-exp10).toNat := Nat.mul_le_mul_right _ hSle
      rw [Nat.add_mul]
      omega
  · split
    · -- tiny: zero
      rename_i hnb hsmall
      symm
      rw [if_neg (by omega)]
      rw [roundRat_zero_iff' f hm he _ _ (ten_pow_pos _)]
      obtain ⟨j, hj⟩ : ∃ j, (-exp10).toNat = 401 + j + l := ⟨(-exp10).toNat - 401 - l, by omega⟩
      rw [hj, Nat.pow_add, Nat.pow_add]
      generalize (10 : Nat) ^ 401 = L at *
      have h1 : 2 * (mant * funitDen f) ≤ 2 * (10 ^ l * funitDen f) :=
        Nat.mul_le_mul_left _ (Nat.mul_le_mul_right _ (Nat.le_of_lt hl2))
      have h2 : 2 * funitDen f * 10 ^ l ≤ L * 10 ^ l := Nat.mul_le_mul_right _ hlo
      have h3 : L * 10 ^ l ≤ L * 10 ^ j * 10 ^ l :=
        Nat.mul_le_mul_right _ (Nat.le_mul_of_pos_right L (ten_pow_pos j))
      have h4 : 2 * (10 ^ l * funitDen f) = 2 * funitDen f * 10 ^ l := by ac_rfl
      omega
    · rfl

end C03
end Scpi
