/-
More parameters than `MAX_ARGS`: `parse` on the rendering of a unit with more than ten
well-formed literals.

`argsLoop` refuses the eleventh push with `UnexpectedNumberOfParameters` (a soft error);
`parseArgs` then puts the input back to the first parameter and `parseTail` fails on its
first byte, which is neither white space nor a terminator: `InvalidCharacter` (soft).
-/
import Scpi.Proofs.RenderParse
import Scpi.Proofs.MsgNewline

namespace Scpi
namespace Combo
open Msg

theorem ofErr_unexpectedNumber {α : Type} :
    (ofErr .UnexpectedNumberOfParameters : PResult α) =
      .soft (some (.std .UnexpectedNumberOfParameters)) := by
  simp [ofErr]

/-- The loop stops at the literal that would be number `maxArgs + 1`: the vector is
full, the error is `UnexpectedNumberOfParameters` (soft). -/
theorem argsLoop_overflow : ∀ (ls : List Lit) (cs : List (Bytes × Bytes)) (fuel : Nat)
    (acc : List Value) (tl : Bytes),
    ls.all Lit.wf = true → cs.all (fun p => allWs p.1 && allWs p.2) = true →
    acc.length ≤ maxArgs → maxArgs < acc.length + ls.length → DelimHead tl →
    (renderMore ls cs ++ tl).length < fuel →
    argsLoop fuel acc (renderMore ls cs ++ tl) =
      (.soft (some (.std .UnexpectedNumberOfParameters)),
       acc ++ (ls.take (maxArgs - acc.length)).map Lit.value) := by
  intro ls
  induction ls with
  | nil =>
    intro cs fuel acc tl _ _ h1 h2 _ _
    simp only [List.length_nil, Nat.add_zero] at h2
    omega
  | cons l ls ih =>
    intro cs fuel acc tl hwf hcs hle hgt htl hf
    simp only [List.all_cons, Bool.and_eq_true] at hwf
    obtain ⟨h1, h2, h3⟩ := commas_head_wf hcs
    cases fuel with
    | zero => exact absurd hf (Nat.not_lt_zero _)
    | succ fuel =>
      obtain ⟨b0, r0, e0, hb0, _⟩ := Lit.render_head hwf.1
      have hX : Ends isWs (l.render ++ (renderMore ls cs.tail ++ tl)) := by
        rw [e0]; exact ends_cons hb0
      have hnext : DelimHead (renderMore ls cs.tail ++ tl) := delimHead_renderMore h3 htl
      have hf' : (renderMore ls cs.tail ++ tl).length < fuel := by
        rw [renderMore_cons] at hf
        simp only [List.length_append, List.length_cons] at hf ⊢
        omega
      rw [renderMore_cons]
      simp only [List.append_assoc, List.cons_append]
      rw [argsLoop]
      simp only [argumentSeparator_render h1 h2 hX, argument_render hwf.1 (hnext.ends l)]
      by_cases hlt : acc.length < maxArgs
      · simp only [hlt, if_true]
        rw [ih cs.tail fuel (acc ++ [l.value]) tl hwf.2 h3
          (by simp only [List.length_append, List.length_cons, List.length_nil]; omega)
          (by simp only [List.length_append, List.length_cons, List.length_nil] at hgt ⊢; omega)
          htl hf']
        have e : maxArgs - acc.length = (maxArgs - (acc ++ [l.value]).length) + 1 := by
          simp only [List.length_append, List.length_cons, List.length_nil]; omega
        rw [e, List.take_succ_cons, List.map_cons, List.append_assoc, List.cons_append,
          List.nil_append]
      · simp only [hlt, if_false, ofErr_unexpectedNumber]
        have e : maxArgs - acc.length = 0 := by omega
        rw [e, List.take_zero, List.map_nil, List.append_nil]

/-- `arguments` on more than `maxArgs` literals: soft `UnexpectedNumberOfParameters`,
the vector holds the first `maxArgs` values. -/
theorem arguments_overflow {l : Lit} {ls : List Lit} {cs : List (Bytes × Bytes)} {tl : Bytes}
    (hwf : (l :: ls).all Lit.wf = true) (hcs : cs.all (fun p => allWs p.1 && allWs p.2) = true)
    (hlen : maxArgs < (l :: ls).length) (htl : DelimHead tl) :
    arguments (renderArgs (l :: ls) cs ++ tl) =
      (.soft (some (.std .UnexpectedNumberOfParameters)), ((l :: ls).take maxArgs).map Lit.value) := by
  have hwf' := hwf
  simp only [List.all_cons, Bool.and_eq_true] at hwf'
  have hnext : DelimHead (renderMore ls cs ++ tl) := delimHead_renderMore hcs htl
  simp only [renderArgs, List.append_assoc, arguments, argument_render hwf'.1 (hnext.ends l)]
  have h0 : 0 < maxArgs := by decide
  simp only [h0, if_true]
  rw [argsLoop_overflow ls cs _ [l.value] tl hwf'.2 hcs (by simp only [List.length_cons, List.length_nil]; decide)
    (by simp only [List.length_cons, List.length_nil] at hlen ⊢; omega) htl (Nat.lt_succ_self _)]
  rfl

/-- `parseTail` on a byte that is neither white space nor a terminator. -/
theorem parseTail_head_soft (nh : Node × Option Node) (q : Bool) (args : List Value) {b : Nat}
    (r : Bytes) (hws : isWs b = false) (h59 : b ≠ 59) (h10 : b ≠ 10) :
    parseTail nh q (b :: r) args = .soft (some (.std .InvalidCharacter)) := by
  have e : optP whitespace (b :: r) = .ok (b :: r) none := by
    simp only [optP, whitespace_soft r hws]
  simp only [parseTail, e, PResult.bind, tag_cons_ne r h10, tag_cons_ne r h59, PResult.map,
    PResult.orElse]

/-- `parse` after the header of a unit with too many parameters. -/
theorem parseAfterHeader_overflow (nh : Node × Option Node) (q : Bool) {lits : List Lit} {ℓ : Lex}
    (t : Term) (rest : Bytes) (hl : lits.all Lit.wf = true) (hlen : maxArgs < lits.length)
    (hℓ : ℓ.wf = true) (hfit : (lits.isEmpty || !ℓ.sep.isEmpty) = true)
    (hq : queryMark ((if q then [63] else []) ++ renderBody lits ℓ t rest)
      = (renderBody lits ℓ t rest, q)) :
    parseAfterHeader nh ((if q then [63] else []) ++ renderBody lits ℓ t rest) =
      .soft (some (.std .InvalidCharacter)) := by
  have hℓ' := hℓ
  simp only [Lex.wf, Bool.and_eq_true] at hℓ'
  obtain ⟨⟨⟨_, hsep⟩, hcs⟩, htrail⟩ := hℓ'
  unfold parseAfterHeader
  rw [hq]
  simp only []
  cases lits with
  | nil => simp only [List.length_nil] at hlen; exact absurd hlen (by decide)
  | cons l ls =>
    simp only [List.isEmpty_cons, Bool.false_or, Bool.not_eq_true', List.isEmpty_eq_false_iff] at hfit
    have hl' := hl
    simp only [List.all_cons, Bool.and_eq_true] at hl'
    obtain ⟨b0, r0, e0, hws, _, _, _, h59, h10⟩ := Lit.render_head hl'.1
    have hX : Ends isWs (renderArgs (l :: ls) ℓ.commas ++ (ℓ.trail ++ t.byte :: rest)) := by
      simp only [renderArgs, e0, List.cons_append]; exact ends_cons hws
    have hdd : isDelim t.byte = true := by rcases t.byte_cases with e | e <;> rw [e] <;> decide
    unfold renderBody
    rw [whitespace_append hsep hfit hX]
    simp only [parseArgs, if_true,
      arguments_overflow hl hcs hlen (delimHead_ws_append (r := rest) htrail hdd)]
    simp only [renderArgs, e0, List.cons_append]
    exact parseTail_head_soft nh q _ _ hws h59 h10

/-- **`parse` on a unit with more than `maxArgs` parameters.** -/
theorem parse_render_overflow (root cur : Node) {u : MsgUnit} {ℓ : Lex} (t : Term) (rest : Bytes)
    (hp : u.hdr.path.wf = true) (hl : u.lits.all Lit.wf = true) (hlen : maxArgs < u.lits.length)
    (hℓ : ℓ.wf = true) (hfit : ℓ.fits u = true) :
    parse root cur (render u ℓ t ++ rest) =
      match resolve root cur u.hdr.path with
      | some _ => .soft (some (.std .InvalidCharacter))
      | none => .fatal (.std .UndefinedHeader) := by
  have hlead : allWs ℓ.lead = true := by
    simp only [Lex.wf, Bool.and_eq_true] at hℓ; exact hℓ.1.1.1
  have hbody := renderBody_form t rest hl hℓ hfit
  have hq : queryMark ((if u.hdr.query then [63] else []) ++ renderBody u.lits ℓ t rest)
      = (renderBody u.lits ℓ t rest, u.hdr.query) := by
    cases u.hdr.query with
    | true => exact queryMark_question _
    | false => exact hbody.queryMark
  have htail : Ends isMnemonicTail ((if u.hdr.query then [63] else []) ++ renderBody u.lits ℓ t rest) := by
    cases u.hdr.query with
    | true => exact ends_cons (by decide)
    | false => exact hbody.ends_mnemonicTail
  have hsep : headerSeparator ((if u.hdr.query then [63] else []) ++ renderBody u.lits ℓ t rest)
      = .soft (some (.std .HeaderSeparatorError)) := by
    cases u.hdr.query with
    | true => exact headerSeparator_soft_cons _ (by decide) (by decide)
    | false => exact hbody.headerSeparator
  obtain ⟨b0, r0, e0, hb0, h10⟩ := HdrPath.render_head hp
  have hX : Ends isWs (u.hdr.path.render ++
      ((if u.hdr.query then [63] else []) ++ renderBody u.lits ℓ t rest)) := by
    rw [e0]; exact ends_cons hb0
  have hnl : Ends (fun b => b == 10) (u.hdr.path.render ++
      ((if u.hdr.query then [63] else []) ++ renderBody u.lits ℓ t rest)) := by
    rw [e0]; exact ends_cons (by simpa using h10)
  obtain ⟨v1, e1⟩ := optP_whitespace_append hlead hX
  have e2 : optP (tag 10) (u.hdr.path.render ++
      ((if u.hdr.query then [63] else []) ++ renderBody u.lits ℓ t rest)) = .ok _ none :=
    optP_satisfy_ends hnl
  rw [render_append]
  unfold parse
  rw [e1]
  simp only [PResult.bind]
  rw [e2]
  simp only [Option.isSome_none, Bool.false_eq_true, if_false,
    commandHeader_render root cur hp htail hsep]
  cases resolve root cur u.hdr.path with
  | none => rfl
  | some nh => exact parseAfterHeader_overflow nh u.hdr.query t rest hl hlen hℓ hfit hq

/-- The body of a rendered unit (any number of literals) without newline in payloads
contains no newline. -/
theorem body_noNl_long {u : MsgUnit} {ℓ : Lex} (hp : u.hdr.path.wf = true)
    (hl : u.lits.all Lit.wf = true) (hℓ : ℓ.wf = true) (hn : unitNlFree u = true) :
    noNl (unitBody u ℓ) = true := by
  simp only [Lex.wf, Bool.and_eq_true] at hℓ
  obtain ⟨⟨⟨h1, h2⟩, h3⟩, h4⟩ := hℓ
  exact noNl_append (allWs_noNl h1) (noNl_append (hdr_noNl hp) (noNl_append (allWs_noNl h2)
    (noNl_append (renderArgs_noNl hl hn h3) (allWs_noNl h4))))

/-- Skipping from the start of such a unit: to behind the first newline after it. -/
theorem afterNewline_render_long {u : MsgUnit} {ℓ : Lex} (hp : u.hdr.path.wf = true)
    (hl : u.lits.all Lit.wf = true) (hℓ : ℓ.wf = true) (hn : unitNlFree u = true) (t : Term)
    (rest : Bytes) :
    afterNewline (render u ℓ t ++ rest) = afterNewline (t.byte :: rest) := by
  rw [render_eq_body, afterNewline_append (body_noNl_long hp hl hℓ hn)]

end Combo
end Scpi
