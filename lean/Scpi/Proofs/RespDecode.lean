/-
The spec decoder reads back what the model's encoder writes (C04, T4.1):
leaf lemmas, then the main induction over the response type.
-/
import Scpi.Proofs.RespBytes

namespace Scpi
open C04

/-- What may follow a value inside response text: nothing, or a comma. -/
def SepOk (rest : Bytes) : Prop := rest = [] ∨ rest.head? = some 44

theorem SepOk.not_dig {rest : Bytes} (h : SepOk rest) :
    ∀ b, rest.head? = some b → isDig b = false := by
  intro b hb
  rcases h with h | h
  · subst h; simp at hb
  · rw [h] at hb; cases hb; decide

theorem SepOk.not_quote {rest : Bytes} (h : SepOk rest) : rest.head? ≠ some 34 := by
  rcases h with h | h
  · subst h; simp
  · rw [h]; decide

theorem SepOk.stop {rest : Bytes} (h : SepOk rest) :
    ∀ b, rest.head? = some b → (b != 44) = false := by
  intro b hb
  rcases h with h | h
  · subst h; simp at hb
  · rw [h] at hb; cases hb; decide

theorem sepOk_comma (r : Bytes) : SepOk (44 :: r) := Or.inr rfl

/-! ### Leaves -/

theorem mem_takeWhile {p : Nat → Bool} {b : Nat} : ∀ {l : Bytes}, b ∈ l.takeWhile p → p b = true
  | [], h => by simp at h
  | a :: l, h => by
    rw [List.takeWhile_cons] at h
    split at h
    · rename_i ha
      rcases List.mem_cons.mp h with h | h
      · subst h; exact ha
      · exact mem_takeWhile h
    · simp at h

/-- Plain decimal text consists of `-`, `.` and digits only, and is not empty. -/
theorem plain_bytes {s : Bytes} (h : isPlainDecimal s = true) :
    s ≠ [] ∧ ∀ b ∈ s, b = 45 ∨ b = 46 ∨ isDig b = true := by
  unfold isPlainDecimal at h
  simp only [Bool.and_eq_true, Bool.or_eq_true, Bool.not_eq_true', List.isEmpty_eq_false_iff,
    List.isEmpty_iff, beq_iff_eq, List.all_eq_true] at h
  obtain ⟨hip, hr⟩ := h
  -- facts about an arbitrary body
  have body_ok : ∀ body : Bytes, List.takeWhile isDig body ≠ [] →
      (List.dropWhile isDig body = [] ∨
        (((List.dropWhile isDig body).head? = some 46 ∧ (List.dropWhile isDig body).tail ≠ []) ∧
          ∀ x ∈ (List.dropWhile isDig body).tail, isDig x = true)) →
      body ≠ [] ∧ ∀ b ∈ body, b = 45 ∨ b = 46 ∨ isDig b = true := by
    intro body h1 h2
    refine ⟨by intro h0; subst h0; simp at h1, ?_⟩
    intro b hb
    rw [← List.takeWhile_append_dropWhile (p := isDig) (l := body)] at hb
    rcases List.mem_append.mp hb with hb | hb
    · exact Or.inr (Or.inr (mem_takeWhile hb))
    · rcases h2 with h2 | ⟨⟨h46, _⟩, hall⟩
      · rw [h2] at hb; simp at hb
      · cases hd : List.dropWhile isDig body with
        | nil => rw [hd] at hb; simp at hb
        | cons c t =>
          rw [hd] at hb h46 hall
          simp only [List.head?_cons, Option.some.injEq] at h46
          rcases List.mem_cons.mp hb with hb | hb
          · subst hb; exact Or.inr (Or.inl h46)
          · exact Or.inr (Or.inr (hall b hb))
  cases s with
  | nil => simp at hip
  | cons c t =>
    refine ⟨by simp, ?_⟩
    by_cases hc : c = 45
    · subst hc
      simp only [List.head?_cons, if_true, List.tail_cons] at hip hr
      have := (body_ok t hip hr).2
      intro b hb
      rcases List.mem_cons.mp hb with hb | hb
      · exact Or.inl hb
      · exact this b hb
    · have hne : ((c :: t).head? = some 45) = False := by simp [hc]
      simp only [hne, if_false] at hip hr
      exact (body_ok (c :: t) hip hr).2

theorem plain_no_comma {s : Bytes} (h : isPlainDecimal s = true) :
    ∀ b ∈ s, (b != 44) = true := by
  intro b hb
  rcases (plain_bytes h).2 b hb with h | h | h
  · subst h; decide
  · subst h; decide
  · simp only [isDig, Bool.and_eq_true, decide_eq_true_eq] at h
    simp only [bne_iff_ne, ne_eq]; omega

theorem decFloat_text (f : FloatFmt) (bits : Nat) (rest : Bytes) (hok : FloatTextOk f bits)
    (hr : SepOk rest) : decFloat f (floatText f bits ++ rest) = some (bits, rest) := by
  obtain ⟨h1, h2⟩ := takeWhile_dropWhile_app (p := (· != 44)) (plain_no_comma hok.1) hr.stop
  simp only [decFloat, upToComma, h1, h2, hok.2, Option.map_some]

theorem decChars_bytes (s rest : Bytes) (hne : s ≠ []) (hc : 44 ∉ s) (hr : SepOk rest) :
    decChars (s ++ rest) = some (s, rest) := by
  have hs : ∀ b ∈ s, (b != 44) = true := by
    intro b hb
    simp only [bne_iff_ne, ne_eq]
    intro h; subst h; exact hc hb
  obtain ⟨h1, h2⟩ := takeWhile_dropWhile_app (p := (· != 44)) hs hr.stop
  simp only [decChars, upToComma, h1, h2]
  cases s with
  | nil => exact absurd rfl hne
  | cons a t => simp

theorem decBool_bytes (b : Bool) (rest : Bytes) :
    decBool ((Resp.bool b).encode ++ rest) = some (b, rest) := by
  rw [encode_bool]; cases b <;> simp [decBool]

/-! ### Errors -/

theorem find?_of_nodup_map {α β : Type} [DecidableEq β] (f : α → β) (p : α → Bool) (x : α) :
    ∀ (l : List α), (l.map f).Nodup → x ∈ l → p x = true → (∀ y, p y = true → f y = f x) →
      l.find? p = some x
  | [], _, hx, _, _ => by simp at hx
  | a :: l, hnd, hx, hp, hf => by
    rw [List.map_cons, List.nodup_cons] at hnd
    by_cases hax : a = x
    · subst hax; simp [hp]
    · have hx' : x ∈ l := by
        rcases List.mem_cons.mp hx with h | h
        · exact absurd h.symm hax
        · exact h
      have hpa : p a = false := by
        cases hpa : p a with
        | false => rfl
        | true =>
          exfalso
          apply hnd.1
          rw [hf a hpa]
          exact List.mem_map.mpr ⟨x, hx', rfl⟩
      rw [List.find?_cons, hpa]
      exact find?_of_nodup_map f p x l hnd.2 hx' hp hf

theorem stdErr_numbers_nodup : (StdErr.all.map StdErr.number).Nodup := by decide

theorem stdErr_mem_all (e : StdErr) : e ∈ StdErr.all := by cases e <;> decide

/-- A canonical error is recovered from its number and description. -/
theorem errOfPair_canonical (e : Err) (h : e.Canonical) : errOfPair e.number e.descBytes = e := by
  unfold errOfPair
  cases e with
  | std x =>
    have := find?_of_nodup_map StdErr.number
      (fun y => decide (y.number = (Err.std x).number) &&
        decide (strBytes y.describe = (Err.std x).descBytes)) x StdErr.all
      stdErr_numbers_nodup (stdErr_mem_all x) (by simp [Err.number, Err.descBytes])
      (by
        intro y hy
        simp only [Bool.and_eq_true] at hy
        exact of_decide_eq_true hy.1)
    rw [this]
  | custom n d =>
    have : StdErr.all.find? (fun y => decide (y.number = (Err.custom n d).number) &&
        decide (strBytes y.describe = (Err.custom n d).descBytes)) = none := by
      rw [List.find?_eq_none]
      intro y _
      simp only [Err.number, Err.descBytes, Bool.and_eq_true]
      exact fun ⟨a, b⟩ => h y ⟨of_decide_eq_true a, of_decide_eq_true b⟩
    rw [this]
    rfl

theorem decErr_encode (e : Err) (rest : Bytes) (hc : e.Canonical) (hr : SepOk rest) :
    decErr ((Resp.err e).encode ++ rest) = some (e, rest) := by
  rw [encode_err]
  unfold decErr
  have h1 : decInt ((intPieces e.number).flatten ++ 44 :: (34 :: dbl e.descBytes ++ [34]) ++ rest)
      = some (e.number, 44 :: (34 :: dbl e.descBytes ++ [34]) ++ rest) := by
    rw [List.append_assoc]
    exact decInt_intPieces _ _ (sepOk_comma _).not_dig
  rw [h1]
  simp only [Option.bind_some, List.cons_append, expectComma, if_true]
  have h2 : decStr (34 :: (dbl e.descBytes ++ [34] ++ rest)) = some (e.descBytes, rest) := by
    have := decStr_quoted e.descBytes rest hr.not_quote
    rw [quoted_bytes] at this
    simpa using this
  rw [h2]
  simp only [Option.map_some, errOfPair_canonical e hc]

/-! ### Well-formedness of types -/

mutual
theorem fixed_WF : ∀ (t : RespTy), t.fixed = true → t.WF = true
  | .seq ts, h => by
    simp only [RespTy.fixed] at h; simp only [RespTy.WF]; exact fixedL_WFL ts h
  | .list t, h => by simp [RespTy.fixed] at h
  | .unit, _ | .bool, _ | .int, _ | .f32, _ | .f64, _ | .str, _ | .chars, _ | .arb, _
  | .err, _ => by simp [RespTy.WF]
theorem fixedL_WFL : ∀ (ts : List RespTy), RespTy.fixedL ts = true → RespTy.WFL ts = true
  | [], _ => by simp [RespTy.WFL]
  | t :: ts, h => by
    simp only [RespTy.fixedL, Bool.and_eq_true] at h
    simp only [RespTy.WFL, Bool.and_eq_true]
    refine ⟨?_, fixedL_WFL ts h.2⟩
    split
    · exact fixed_WF t h.1
    · exact h.1
end

/-! ### Sequences -/

theorem all_seq (P : Resp → Prop) (l : List Resp) : Resp.All P (.seq l) = Resp.AllL P l := by
  simp [Resp.All]

theorem allL_cons (P : Resp → Prop) (r : Resp) (rs : List Resp) :
    Resp.AllL P (r :: rs) = (Resp.All P r ∧ Resp.AllL P rs) := by
  simp [Resp.AllL]

theorem allL_mem (P : Resp → Prop) : ∀ (l : List Resp), Resp.AllL P l → ∀ x ∈ l, Resp.All P x
  | [], _, x, hx => by simp at hx
  | r :: rs, h, x, hx => by
    rw [allL_cons] at h
    rcases List.mem_cons.mp hx with hx | hx
    · subst hx; exact h.1
    · exact allL_mem P rs h.2 x hx

theorem seqEnc_length (l : List Resp) :
    ∀ first : Bool, l.length ≤ (seqEnc l first).length + (if first then 1 else 0) := by
  induction l with
  | nil => intro first; simp
  | cons r rs ih =>
    intro first
    rw [seqEnc_cons]
    have := ih false
    cases first <;> simp at this ⊢ <;> omega

/-- Comma-separated elements are read back one by one. -/
theorem sepBy1_enc (p : Bytes → Option (Resp × Bytes)) :
    ∀ (xs : List Resp) (x : Resp) (fuel : Nat), xs.length + 1 ≤ fuel →
      (∀ y ∈ x :: xs, ∀ rest, SepOk rest → p (y.encode ++ rest) = some (y, rest)) →
      sepBy1 p fuel (x.encode ++ seqEnc xs false) = some (x :: xs, [])
  | [], x, fuel, hf, hp => by
    cases fuel with
    | zero => simp at hf
    | succ fuel =>
      rw [seqEnc_nil]
      unfold sepBy1
      rw [hp x (by simp) [] (Or.inl rfl)]
      simp
  | y :: ys, x, fuel, hf, hp => by
    cases fuel with
    | zero => simp at hf
    | succ fuel =>
      rw [seqEnc_cons]
      simp only [Bool.false_eq_true, if_false, List.cons_append, List.nil_append]
      unfold sepBy1
      rw [hp x (by simp) _ (sepOk_comma _)]
      simp only [Option.bind_some, if_true]
      rw [sepBy1_enc p ys y fuel (by simp at hf ⊢; omega)
        (fun z hz => hp z (List.mem_cons_of_mem _ hz))]
      simp

/-! ### Non-empty text -/

theorem intPieces_ne_nil (v : Int) : (intPieces v).flatten ≠ [] := by
  unfold intPieces
  split
  · simp
  · obtain ⟨d, ds, hd, _⟩ := natDigits_head v.toNat
    simp [hd]

/-- Values of a `nonEmpty` type have non-empty text. -/
theorem encode_ne_nil : ∀ (ty : RespTy) (r : Resp), HasTy r ty → ty.nonEmpty = true → r.WF →
    FloatsOk r → r.encode ≠ []
  | .unit, _, _, hn, _, _ => by simp [RespTy.nonEmpty] at hn
  | .list _, _, _, hn, _, _ => by simp [RespTy.nonEmpty] at hn
  | .seq [], _, _, hn, _, _ => by simp [RespTy.nonEmpty] at hn
  | .seq [t], r, ht, hn, hw, hf => by
    cases ht with
    | tuple hts =>
      cases hts with
      | cons hx hnil =>
        cases hnil
        rename_i x
        simp only [RespTy.nonEmpty] at hn
        simp only [Resp.WF, FloatsOk, all_seq, allL_cons] at hw hf
        have := encode_ne_nil t x hx hn hw.1 hf.1
        rw [encode_seq, seqEnc_cons, seqEnc_nil]
        simpa using this
  | .seq (_ :: _ :: _), r, ht, _, _, _ => by
    cases ht with
    | tuple hts =>
      cases hts with
      | cons hx hrest =>
        cases hrest with
        | cons hy _ =>
          rw [encode_seq, seqEnc_cons, seqEnc_cons]
          simp
  | .bool, r, ht, _, _, _ => by cases ht; rw [encode_bool]; simp
  | .int, r, ht, _, _, _ => by cases ht; rw [encode_int]; exact intPieces_ne_nil _
  | .f32, r, ht, _, hw, hf => by
    cases ht
    simp only [Resp.WF, Resp.All, Resp.LeafWF] at hw
    simp only [FloatsOk, Resp.All, LeafFloatOk] at hf
    rw [encode_f32 _ hw.1 hw.2]
    exact (plain_bytes (hf hw.1 hw.2).1).1
  | .f64, r, ht, _, hw, hf => by
    cases ht
    simp only [Resp.WF, Resp.All, Resp.LeafWF] at hw
    simp only [FloatsOk, Resp.All, LeafFloatOk] at hf
    rw [encode_f64 _ hw.1 hw.2]
    exact (plain_bytes (hf hw.1 hw.2).1).1
  | .str, r, ht, _, _, _ => by cases ht; rw [encode_str]; simp
  | .chars, r, ht, _, hw, _ => by
    cases ht
    simp only [Resp.WF, Resp.All, Resp.LeafWF] at hw
    rw [encode_chars]; exact hw.1
  | .arb, r, ht, _, hw, _ => by
    cases ht with
    | arb s =>
    simp only [Resp.WF, Resp.All, Resp.LeafWF] at hw
    by_cases h0 : s.length = 0
    · have : s = [] := List.length_eq_zero_iff.mp h0
      subst this; rw [encode_arb_empty]; simp
    · rw [encode_arb s (by omega) hw]; simp
  | .err, r, ht, _, _, _ => by
    cases ht
    rw [encode_err]
    intro h
    have := List.append_eq_nil_iff.mp h
    simp at this

/-! ### The main induction -/

mutual
/-- Reading a value of a well-formed type at the front of a text.  What follows
must be the end of the text or, for a type of fixed arity, a comma. -/
theorem decodeP_encode : ∀ (ty : RespTy) (r : Resp) (rest : Bytes), HasTy r ty → r.WF →
    FloatsOk r → ty.WF = true → (rest = [] ∨ (ty.fixed = true ∧ rest.head? = some 44)) →
    decodeP ty (r.encode ++ rest) = some (r, rest)
  | .unit, r, rest, ht, _, _, _, _ => by
    cases ht; rw [encode_unit]; simp [decodeP]
  | .bool, r, rest, ht, _, _, _, _ => by
    cases ht; simp only [decodeP, decBool_bytes, Option.map_some]
  | .int, r, rest, ht, _, _, _, hr => by
    cases ht
    have hs : SepOk rest := hr.imp id (·.2)
    rw [encode_int]
    simp only [decodeP, decInt_intPieces _ _ hs.not_dig, Option.map_some]
  | .f32, r, rest, ht, hw, hf, _, hr => by
    cases ht
    have hs : SepOk rest := hr.imp id (·.2)
    simp only [Resp.WF, Resp.All, Resp.LeafWF] at hw
    simp only [FloatsOk, Resp.All, LeafFloatOk] at hf
    rw [encode_f32 _ hw.1 hw.2]
    simp only [decodeP, decFloat_text _ _ _ (hf hw.1 hw.2) hs, Option.map_some]
  | .f64, r, rest, ht, hw, hf, _, hr => by
    cases ht
    have hs : SepOk rest := hr.imp id (·.2)
    simp only [Resp.WF, Resp.All, Resp.LeafWF] at hw
    simp only [FloatsOk, Resp.All, LeafFloatOk] at hf
    rw [encode_f64 _ hw.1 hw.2]
    simp only [decodeP, decFloat_text _ _ _ (hf hw.1 hw.2) hs, Option.map_some]
  | .str, r, rest, ht, _, _, _, hr => by
    cases ht with
    | str s =>
    have hs : SepOk rest := hr.imp id (·.2)
    have := decStr_quoted s rest hs.not_quote
    rw [quoted_bytes] at this
    rw [encode_str]
    simp only [decodeP, this, Option.map_some]
  | .chars, r, rest, ht, hw, _, _, hr => by
    cases ht
    have hs : SepOk rest := hr.imp id (·.2)
    simp only [Resp.WF, Resp.All, Resp.LeafWF] at hw
    rw [encode_chars]
    simp only [decodeP, decChars_bytes _ _ hw.1 hw.2 hs, Option.map_some]
  | .arb, r, rest, ht, hw, _, _, _ => by
    cases ht
    simp only [Resp.WF, Resp.All, Resp.LeafWF] at hw
    simp only [decodeP, decArb_encode _ _ hw, Option.map_some]
  | .err, r, rest, ht, hw, _, _, hr => by
    cases ht
    have hs : SepOk rest := hr.imp id (·.2)
    simp only [Resp.WF, Resp.All, Resp.LeafWF] at hw
    simp only [decodeP, decErr_encode _ _ hw hs, Option.map_some]
  | .seq ts, r, rest, ht, hw, hf, hty, hr => by
    cases ht with
    | tuple hts =>
      rename_i l
      simp only [Resp.WF, FloatsOk, all_seq] at hw hf
      simp only [RespTy.WF] at hty
      simp only [RespTy.fixed] at hr
      rw [encode_seq]
      simp only [decodeP, decodeSeq_encode ts l true rest hts hw hf hty hr, Option.map_some]
  | .list t, r, rest, ht, hw, hf, hty, hr => by
    cases ht with
    | list hall =>
      rename_i l
      simp only [Resp.WF, FloatsOk, all_seq] at hw hf
      simp only [RespTy.WF, Bool.and_eq_true] at hty
      have hrest : rest = [] := by
        rcases hr with h | h
        · exact h
        · simp [RespTy.fixed] at h
      subst hrest
      rw [encode_seq, List.append_nil]
      cases l with
      | nil => simp [decodeP, seqEnc_nil]
      | cons x xs =>
        have hxne : x.encode ≠ [] :=
          encode_ne_nil t x (hall x (by simp)) hty.2
            (allL_mem _ _ hw x (by simp)) (allL_mem _ _ hf x (by simp))
        have hne : (seqEnc (x :: xs) true).isEmpty = false := by
          rw [seqEnc_cons]
          cases hx : x.encode with
          | nil => exact absurd hx hxne
          | cons a b => simp
        have hlen := seqEnc_length (x :: xs) true
        simp only [decodeP, hne, Bool.false_eq_true, if_false]
        have henc : seqEnc (x :: xs) true = x.encode ++ seqEnc xs false := by
          rw [seqEnc_cons]; simp
        rw [henc] at hlen ⊢
        rw [sepBy1_enc (decodeP t) xs x _ (by simpa using hlen) ?_]
        · simp
        · intro y hy rest' hs
          refine decodeP_encode t y rest' (hall y hy) (allL_mem _ _ hw y hy)
            (allL_mem _ _ hf y hy) (fixed_WF t hty.1) ?_
          rcases hs with h | h
          · exact Or.inl h
          · exact Or.inr ⟨hty.1, h⟩
theorem decodeSeq_encode : ∀ (ts : List RespTy) (l : List Resp) (first : Bool) (rest : Bytes),
    HasTys l ts → Resp.AllL Resp.LeafWF l → Resp.AllL LeafFloatOk l → RespTy.WFL ts = true →
    (rest = [] ∨ (RespTy.fixedL ts = true ∧ rest.head? = some 44)) →
    decodeSeq ts first (seqEnc l first ++ rest) = some (l, rest)
  | [], l, first, rest, hts, _, _, _, _ => by
    cases hts; simp [decodeSeq, seqEnc_nil]
  | t :: ts, l, first, rest, hts, hw, hf, hty, hr => by
    cases hts with
    | cons hx hxs =>
      rename_i x xs
      rw [allL_cons] at hw hf
      simp only [RespTy.WFL, Bool.and_eq_true] at hty
      simp only [RespTy.fixedL, Bool.and_eq_true] at hr
      -- the element
      have helem : decodeP t (x.encode ++ (seqEnc xs false ++ rest))
          = some (x, seqEnc xs false ++ rest) := by
        cases ts with
        | nil =>
          cases hxs
          rw [seqEnc_nil, List.nil_append]
          refine decodeP_encode t x rest hx hw.1 hf.1 (by simpa using hty.1) ?_
          rcases hr with h | h
          · exact Or.inl h
          · exact Or.inr ⟨h.1.1, h.2⟩
        | cons t' ts' =>
          cases hxs with
          | cons hy hys =>
            have hfix : t.fixed = true := by simpa using hty.1
            refine decodeP_encode t x _ hx hw.1 hf.1 (fixed_WF t hfix) (Or.inr ⟨hfix, ?_⟩)
            rw [seqEnc_cons]; simp
      have htail := decodeSeq_encode ts xs false rest hxs hw.2 hf.2 hty.2
        (hr.imp id fun h => ⟨h.1.2, h.2⟩)
      rw [seqEnc_cons]
      unfold decodeSeq
      cases first with
      | true =>
        simp only [if_true, List.nil_append, List.append_assoc, Option.bind_some, helem, htail,
          Option.map_some]
      | false =>
        simp only [Bool.false_eq_true, if_false, List.append_assoc, List.cons_append,
          List.nil_append, expectComma, if_true, Option.bind_some, helem, htail, Option.map_some]
end

end Scpi
