/-
Keys of the macro's trie: they contain no lower-case ASCII letter, so the
run-time's case-insensitive child lookup coincides with exact lookup of the
upper-cased mnemonic; sibling keys are pairwise distinct.
-/
import Scpi.Proofs.MacroPaths
import Scpi.Proofs.MacroInsert

namespace Scpi

/-- No byte of `k` is a lower-case ASCII letter. -/
def LowerFree (k : Bytes) : Prop := ∀ b ∈ k, isLowerAscii b = false

instance (k : Bytes) : Decidable (LowerFree k) := by unfold LowerFree; infer_instance

/-! ### Bytes -/

theorem isLowerAscii_toUpperAscii (b : Nat) : isLowerAscii (toUpperAscii b) = false := by
  simp only [isLowerAscii, toUpperAscii]
  split <;> simp <;> omega

theorem toLower_eq_iff_of_not_lower {k n : Nat} (hk : isLowerAscii k = false) :
    toLowerAscii k = toLowerAscii n ↔ k = toUpperAscii n := by
  simp only [isLowerAscii, Bool.and_eq_false_iff, decide_eq_false_iff_not] at hk
  simp only [toLowerAscii, toUpperAscii]
  split <;> split <;> split <;> omega

theorem toLower_toUpper (n : Nat) : toLowerAscii (toUpperAscii n) = toLowerAscii n := by
  simp only [toLowerAscii, toUpperAscii]
  split <;> split <;> first | omega | (split <;> omega)

/-! ### Keys -/

theorem lowerFree_map_toUpper (name : Bytes) : LowerFree (name.map toUpperAscii) := by
  intro b hb
  obtain ⟨a, _, rfl⟩ := List.mem_map.1 hb
  exact isLowerAscii_toUpperAscii a

theorem lowerFree_filter (name : Bytes) : LowerFree (name.filter fun c => !isLowerAscii c) := by
  intro b hb
  have := (List.mem_filter.1 hb).2
  simpa using this

/-- `eq_ignore_ascii_case` compares the lower-cased strings. -/
theorem eqIgnoreAsciiCase_eq (k name : Bytes) :
    eqIgnoreAsciiCase k name = (k.map toLowerAscii == name.map toLowerAscii) := by
  induction k generalizing name with
  | nil => cases name <;> simp [eqIgnoreAsciiCase]
  | cons a as ih =>
    cases name with
    | nil => simp [eqIgnoreAsciiCase]
    | cons b bs =>
      rw [eqIgnoreAsciiCase, ih]
      simp only [List.map_cons]
      rw [Bool.eq_iff_iff]
      simp

/-- For a key without lower-case letters, matching `name` ignoring case means
being `name` upper-cased. -/
theorem eqIgnoreAsciiCase_iff_upper {k : Bytes} (hk : LowerFree k) (name : Bytes) :
    eqIgnoreAsciiCase k name = true ↔ k = name.map toUpperAscii := by
  induction k generalizing name with
  | nil => cases name <;> simp [eqIgnoreAsciiCase]
  | cons a as ih =>
    cases name with
    | nil => simp [eqIgnoreAsciiCase]
    | cons b bs =>
      have ha : isLowerAscii a = false := hk a List.mem_cons_self
      have has : LowerFree as := fun x hx => hk x (List.mem_cons_of_mem _ hx)
      rw [eqIgnoreAsciiCase]
      simp only [Bool.and_eq_true, beq_iff_eq, List.map_cons, List.cons.injEq, ih has,
        toLower_eq_iff_of_not_lower ha]

/-- Two lower-case-free keys matching the same mnemonic are equal. -/
theorem eqIgnoreAsciiCase_unique {k₁ k₂ name : Bytes} (h₁ : LowerFree k₁) (h₂ : LowerFree k₂)
    (e₁ : eqIgnoreAsciiCase k₁ name = true) (e₂ : eqIgnoreAsciiCase k₂ name = true) : k₁ = k₂ := by
  rw [(eqIgnoreAsciiCase_iff_upper h₁ name).1 e₁, (eqIgnoreAsciiCase_iff_upper h₂ name).1 e₂]

/-- Case-insensitive first match = exact first match of the upper-cased name,
when every key is lower-case-free. -/
theorem findChild_eq_lookupKey {ch : List (Bytes × Node)} (hk : ∀ kc ∈ ch, LowerFree kc.1)
    (name : Bytes) : findChild ch name = lookupKey ch (name.map toUpperAscii) := by
  induction ch with
  | nil => rfl
  | cons kc more ih =>
    obtain ⟨k, c⟩ := kc
    have hk0 : LowerFree k := hk (k, c) List.mem_cons_self
    have ih' := ih fun kc h => hk kc (List.mem_cons_of_mem _ h)
    rw [findChild, lookupKey, ih']
    by_cases he : eqIgnoreAsciiCase k name = true
    · rw [if_pos he, if_pos ((eqIgnoreAsciiCase_iff_upper hk0 name).1 he)]
    · rw [if_neg he, if_neg (fun h => he ((eqIgnoreAsciiCase_iff_upper hk0 name).2 h))]

theorem lookupKey_mem {ch : List (Bytes × Node)} {key : Bytes} {c : Node}
    (h : lookupKey ch key = some c) : (key, c) ∈ ch := by
  induction ch with
  | nil => cases h
  | cons kc more ih =>
    obtain ⟨k, c0⟩ := kc
    rw [lookupKey] at h
    split at h
    · next hk => cases h; subst hk; exact List.mem_cons_self
    · exact List.mem_cons_of_mem _ (ih h)

theorem lookupKey_of_mem_nodup {ch : List (Bytes × Node)} (hnd : (ch.map Prod.fst).Nodup)
    {key : Bytes} {c : Node} (h : (key, c) ∈ ch) : lookupKey ch key = some c := by
  induction ch with
  | nil => cases h
  | cons kc more ih =>
    obtain ⟨k, c0⟩ := kc
    rw [List.map_cons, List.nodup_cons] at hnd
    rw [lookupKey]
    rcases List.mem_cons.1 h with heq | hm
    · cases heq; rw [if_pos rfl]
    · have : k ≠ key := by
        rintro rfl
        exact hnd.1 (List.mem_map.2 ⟨(k, c), hm, rfl⟩)
      rw [if_neg this]; exact ih hnd.2 hm

/-! ### The tree invariant -/

/-- Every key in the tree is lower-case-free and sibling keys are pairwise distinct. -/
inductive KeysOk : Node → Prop where
  | mk (t : Nat) (ch : List (Bytes × Node)) (cmd q : Option Nat)
      (hlow : ∀ kc ∈ ch, LowerFree kc.1)
      (hnodup : (ch.map Prod.fst).Nodup)
      (hrec : ∀ kc ∈ ch, KeysOk kc.2) : KeysOk (.mk t ch cmd q)

theorem KeysOk.low {n : Node} (h : KeysOk n) : ∀ kc ∈ n.children, LowerFree kc.1 := by
  cases h with | mk _ _ _ _ hlow _ _ => exact hlow

theorem KeysOk.nodup {n : Node} (h : KeysOk n) : (n.children.map Prod.fst).Nodup := by
  cases h with | mk _ _ _ _ _ hnd _ => exact hnd

theorem KeysOk.rec' {n : Node} (h : KeysOk n) : ∀ kc ∈ n.children, KeysOk kc.2 := by
  cases h with | mk _ _ _ _ _ _ hrec => exact hrec

theorem keysOk_empty (t : Nat) (cmd q : Option Nat) : KeysOk (.mk t [] cmd q) :=
  .mk t [] cmd q (fun _ h => by cases h) (by simp) (fun _ h => by cases h)

/-- The children-list part of the invariant. -/
def ChOk (ch : List (Bytes × Node)) : Prop :=
  (∀ kc ∈ ch, LowerFree kc.1) ∧ (ch.map Prod.fst).Nodup ∧ ∀ kc ∈ ch, KeysOk kc.2

theorem keysOk_iff (t : Nat) (ch : List (Bytes × Node)) (cmd q : Option Nat) :
    KeysOk (.mk t ch cmd q) ↔ ChOk ch := by
  constructor
  · intro h; exact ⟨h.low, h.nodup, h.rec'⟩
  · rintro ⟨h1, h2, h3⟩; exact .mk t ch cmd q h1 h2 h3

theorem insertAt_nil_keysOk {n n' : Node} {id : Nat} {q : Bool} (hn : KeysOk n)
    (h : insertAt n [] id q = .ok n') : KeysOk n' := by
  obtain ⟨t, ch, cmd, qq⟩ := n
  rw [keysOk_iff] at hn
  rw [insertAt_nil] at h
  split at h
  · split at h
    · split at h
      · cases h; exact (keysOk_iff _ _ _ _).2 hn
      · cases h
    · cases h; exact (keysOk_iff _ _ _ _).2 hn
  · split at h
    · split at h
      · cases h; exact (keysOk_iff _ _ _ _).2 hn
      · cases h
    · cases h; exact (keysOk_iff _ _ _ _).2 hn

theorem insertChild_chOk (rest : List Bytes) (id : Nat) (q : Bool)
    (ih : ∀ n n', KeysOk n → insertAt n rest id q = .ok n' → KeysOk n')
    {ch ch' : List (Bytes × Node)} {part : Bytes} (hp : LowerFree part) (hch : ChOk ch)
    (h : insertChild ch part rest id q = .ok ch') :
    ChOk ch' ∧ ∀ k ∈ ch'.map Prod.fst, k = part ∨ k ∈ ch.map Prod.fst := by
  induction ch generalizing ch' with
  | nil =>
    rw [insertChild] at h
    cases h1 : insertAt (.mk 0 [] none none) rest id q with
    | error e => rw [h1] at h; cases h
    | ok n1 =>
      rw [h1] at h; cases h
      have hn1 := ih _ _ (keysOk_empty 0 none none) h1
      refine ⟨⟨?_, by simp, ?_⟩, by simp⟩
      · intro kc hkc; rw [List.mem_singleton.1 hkc]; exact hp
      · intro kc hkc; rw [List.mem_singleton.1 hkc]; exact hn1
  | cons kc more ihm =>
    obtain ⟨k, c⟩ := kc
    obtain ⟨hlow, hnd, hrec⟩ := hch
    rw [List.map_cons, List.nodup_cons] at hnd
    rw [insertChild] at h
    split at h
    · next hk =>
      cases h1 : insertAt c rest id q with
      | error e => rw [h1] at h; cases h
      | ok c' =>
        rw [h1] at h; cases h
        have hc' := ih _ _ (hrec (k, c) List.mem_cons_self) h1
        refine ⟨⟨?_, ?_, ?_⟩, ?_⟩
        · intro kc hkc
          rcases List.mem_cons.1 hkc with rfl | hm
          · exact hlow (k, c) List.mem_cons_self
          · exact hlow kc (List.mem_cons_of_mem _ hm)
        · rw [List.map_cons, List.nodup_cons]; exact hnd
        · intro kc hkc
          rcases List.mem_cons.1 hkc with rfl | hm
          · exact hc'
          · exact hrec kc (List.mem_cons_of_mem _ hm)
        · intro k' hk'; exact .inr hk'
    · next hk =>
      cases h1 : insertChild more part rest id q with
      | error e => rw [h1] at h; cases h
      | ok more' =>
        rw [h1] at h; cases h
        obtain ⟨⟨hlow', hnd', hrec'⟩, hkeys⟩ :=
          ihm ⟨fun kc hm => hlow kc (List.mem_cons_of_mem _ hm), hnd.2,
            fun kc hm => hrec kc (List.mem_cons_of_mem _ hm)⟩ h1
        refine ⟨⟨?_, ?_, ?_⟩, ?_⟩
        · intro kc hkc
          rcases List.mem_cons.1 hkc with rfl | hm
          · exact hlow (k, c) List.mem_cons_self
          · exact hlow' kc hm
        · rw [List.map_cons, List.nodup_cons]
          refine ⟨?_, hnd'⟩
          intro hmem
          rcases hkeys k hmem with rfl | hm
          · exact hk rfl
          · exact hnd.1 hm
        · intro kc hkc
          rcases List.mem_cons.1 hkc with rfl | hm
          · exact hrec (k, c) List.mem_cons_self
          · exact hrec' kc hm
        · intro k' hk'
          rw [List.map_cons] at hk' ⊢
          rcases List.mem_cons.1 hk' with rfl | hm
          · exact .inr List.mem_cons_self
          · rcases hkeys k' hm with h | h
            · exact .inl h
            · exact .inr (List.mem_cons_of_mem _ h)

/-- `insertAt` preserves the key invariant when the inserted keys are lower-case-free. -/
theorem insertAt_keysOk {n n' : Node} {path : List Bytes} {id : Nat} {q : Bool}
    (hpath : ∀ k ∈ path, LowerFree k) (hn : KeysOk n) (h : insertAt n path id q = .ok n') :
    KeysOk n' := by
  induction path generalizing n n' with
  | nil => exact insertAt_nil_keysOk hn h
  | cons part rest ih =>
    obtain ⟨t, ch, cmd, qq⟩ := n
    rw [insertAt_cons] at h
    cases h1 : insertChild ch part rest id q with
    | error e => rw [h1] at h; cases h
    | ok ch' =>
      rw [h1] at h; cases h
      rw [keysOk_iff] at hn ⊢
      exact (insertChild_chOk rest id q
        (fun n n' hn h => ih (fun k hk => hpath k (List.mem_cons_of_mem _ hk)) hn h)
        (hpath part List.mem_cons_self) hn h1).1

theorem insertPaths_keysOk {n n' : Node} {ps : List (List Bytes)} {id : Nat} {q : Bool}
    (hps : ∀ p ∈ ps, ∀ k ∈ p, LowerFree k) (hn : KeysOk n)
    (h : insertPaths n ps id q = .ok n') : KeysOk n' := by
  induction ps generalizing n with
  | nil => rw [insertPaths] at h; cases h; exact hn
  | cons p ps ih =>
    rw [insertPaths] at h
    cases h1 : insertAt n p id q with
    | error e => rw [h1] at h; cases h
    | ok n1 =>
      rw [h1] at h
      exact ih (fun p' hp' => hps p' (List.mem_cons_of_mem _ hp'))
        (insertAt_keysOk (hps p List.mem_cons_self) hn h1) h

/-- Both forms of every part are lower-case-free. -/
def PartsLowerFree (c : Command) : Prop :=
  ∀ part ∈ c.parts, LowerFree part.short ∧ LowerFree part.long

instance (c : Command) : Decidable (PartsLowerFree c) := by
  unfold PartsLowerFree; infer_instance

theorem paths_lowerFree {c : Command} (hc : PartsLowerFree c) :
    ∀ p ∈ c.paths, ∀ k ∈ p, LowerFree k := by
  intro p hp k hk
  obtain ⟨part, hpart, h | h⟩ := ((mem_paths_iff c p).1 hp).key_mem k hk
  · rw [h]; exact (hc part hpart).2
  · rw [h]; exact (hc part hpart).1

theorem insertAll_keysOk {n n' : Node} {cmds : List Command} {start : Nat}
    (hcmds : ∀ c ∈ cmds, PartsLowerFree c) (hn : KeysOk n)
    (h : insertAll n cmds start = .ok n') : KeysOk n' := by
  induction cmds generalizing n start with
  | nil => rw [insertAll_nil] at h; cases h; exact hn
  | cons c cs ih =>
    rw [insertAll_cons] at h
    cases h1 : insertPaths n c.paths start c.query with
    | error e => rw [h1] at h; cases h
    | ok n1 =>
      rw [h1] at h
      exact ih (fun c' hc' => hcmds c' (List.mem_cons_of_mem _ hc'))
        (insertPaths_keysOk (paths_lowerFree (hcmds c List.mem_cons_self)) hn h1) h

/-! ### `Command.parse` produces lower-case-free parts -/

theorem parsePart_lowerFree {raw : Bytes} {p : Part} (h : parsePart raw = .ok (some p)) :
    LowerFree p.short ∧ LowerFree p.long := by
  unfold parsePart at h
  simp only at h
  split at h
  · cases h
  · split at h
    · cases h
    · cases h
      exact ⟨lowerFree_filter _, lowerFree_map_toUpper _⟩

theorem parseParts_lowerFree {rs : List Bytes} {ps : List Part} (h : parseParts rs = .ok ps) :
    ∀ part ∈ ps, LowerFree part.short ∧ LowerFree part.long := by
  induction rs generalizing ps with
  | nil => rw [parseParts] at h; cases h; intro _ hm; cases hm
  | cons r rs ih =>
    rw [parseParts] at h
    split at h
    · cases h
    · cases h
    · next h2 => cases h; exact ih h2
    · next h1 h2 =>
      cases h
      intro part hm
      rcases List.mem_cons.1 hm with rfl | hm
      · exact parsePart_lowerFree h1
      · exact ih h2 part hm

theorem parse_partsLowerFree {s : Bytes} {c : Command} (h : Command.parse s = .ok c) :
    PartsLowerFree c := by
  unfold Command.parse at h
  simp only at h
  split at h
  · next ps hps => cases h; exact parseParts_lowerFree hps
  · cases h

end Scpi
