/-
C04 (float Display): for sub-normal values `decode` always reports an inclusive interval
(the scaled mantissa `2F` is even) although the fraction field `F` may be odd.  The digits
produced nevertheless never hit a boundary of the interval: a boundary is `odd · 2^-a'`
(with `a' = bias + mbits`) and would need `a'` decimal places, but the loop stops long
before.  This file proves that arithmetic fact.
-/
import Scpi.Proofs.DragonArith

namespace Scpi
namespace Dragon

/-- No digit string produced by the loop denotes exactly `Z · 2^-a'` with `Z` odd. -/
theorem sub_no_tie (mant0 a' p p' g j N Z : Nat) (ha : 1 ≤ a') (hm2 : 2 ≤ mant0)
    (hZ : Z % 2 = 1) (hj : 1 ≤ j)
    (htie : 10 ^ (j - 1) * (Z * (10 ^ p' * 10 ^ g)) = N * (2 ^ a' * 10 ^ p))
    (hearly : j = 1 ∨ 10 ^ (j - 2) * ((1 + 1) * (10 ^ p' * 10 ^ g)) < 2 ^ a' * 10 ^ p)
    (hfirst : mant0 * (10 ^ p' * 10 ^ g) < 10 * (2 ^ a' * 10 ^ p)) : False := by
  -- the decimal places available
  have hn : 10 ^ (j - 1) * (10 ^ p' * 10 ^ g) = 10 ^ (j - 1 + p' + g) := by
    rw [Nat.pow_add, Nat.pow_add, Nat.mul_assoc]
  have hval : a' + p ≤ j - 1 + p' + g := by
    apply two_val (N * 5 ^ p) (5 ^ (j - 1 + p' + g) * Z)
    · have e1 : 10 ^ (j - 1) * (Z * (10 ^ p' * 10 ^ g)) = 10 ^ (j - 1 + p' + g) * Z := by
        rw [← hn]; ac_rfl
      rw [e1, ten_pow_eq (j - 1 + p' + g), ten_pow_eq p] at htie
      rw [Nat.pow_add]
      calc N * 5 ^ p * (2 ^ a' * 2 ^ p) = N * (2 ^ a' * (2 ^ p * 5 ^ p)) := by ac_rfl
        _ = 2 ^ (j - 1 + p' + g) * 5 ^ (j - 1 + p' + g) * Z := htie.symm
        _ = 2 ^ (j - 1 + p' + g) * (5 ^ (j - 1 + p' + g) * Z) := by ac_rfl
    · rw [Nat.mul_mod, five_pow_odd, hZ]
  obtain ⟨a0, rfl⟩ : ∃ a0, a' = a0 + 1 := ⟨a' - 1, by omega⟩
  by_cases hj1 : j = 1
  · subst hj1
    simp only [Nat.sub_self, Nat.zero_add, Nat.pow_zero, Nat.one_mul] at hn hval
    rw [hn] at hfirst
    have h1 : 10 ^ (a0 + 1 + p) ≤ 10 ^ (p' + g) := Nat.pow_le_pow_right (by decide) hval
    have h2 : 2 ^ a0 ≤ 10 ^ a0 := two_le_ten_pow a0
    have h3 : 2 * 10 ^ (p' + g) ≤ mant0 * 10 ^ (p' + g) := Nat.mul_le_mul_right _ hm2
    have h4 : 10 ^ (a0 + 1 + p) = 10 * (10 ^ a0 * 10 ^ p) := by
      rw [Nat.pow_add, Nat.pow_succ]; ac_rfl
    have h5 : 2 ^ (a0 + 1) * 10 ^ p = 2 * (2 ^ a0 * 10 ^ p) := by
      rw [Nat.pow_succ]; ac_rfl
    have h6 : 2 ^ a0 * 10 ^ p ≤ 10 ^ a0 * 10 ^ p := Nat.mul_le_mul_right _ h2
    rw [h5] at hfirst
    omega
  · have hearly' : 10 ^ (j - 2) * ((1 + 1) * (10 ^ p' * 10 ^ g)) < 2 ^ (a0 + 1) * 10 ^ p := by
      rcases hearly with h | h
      · exact absurd h hj1
      · exact h
    have e1 : 10 ^ (j - 2) * ((1 + 1) * (10 ^ p' * 10 ^ g)) = 2 * 10 ^ (j - 2 + p' + g) := by
      rw [Nat.pow_add, Nat.pow_add]; ac_rfl
    rw [e1] at hearly'
    have h1 : 10 ^ (a0 + p) ≤ 10 ^ (j - 2 + p' + g) :=
      Nat.pow_le_pow_right (by decide) (by omega)
    have h2 : 2 ^ a0 ≤ 10 ^ a0 := two_le_ten_pow a0
    have h6 : 2 ^ a0 * 10 ^ p ≤ 10 ^ a0 * 10 ^ p := Nat.mul_le_mul_right _ h2
    have h5 : 2 ^ (a0 + 1) * 10 ^ p = 2 * (2 ^ a0 * 10 ^ p) := by
      rw [Nat.pow_succ]; ac_rfl
    rw [Nat.pow_add] at h1
    rw [h5] at hearly'
    omega

end Dragon
end Scpi
