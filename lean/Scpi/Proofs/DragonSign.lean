/-
C04 (float Display): splitting a bit pattern of the format's width into sign bit and
magnitude; the fields of the magnitude are the fields of the pattern.
-/
import Scpi.Proofs.DragonFinal

namespace Scpi
namespace Dragon
open C03

theorem signBit_eq (f : FloatFmt) : f.signBit = 2 ^ f.mbits * 2 ^ f.ebits := by
  unfold FloatFmt.signBit; rw [Nat.pow_add]

/-- A pattern below `2·signBit` is its magnitude plus, if negative, the sign bit. -/
theorem split_sign (f : FloatFmt) (bits : Nat) (hw : bits < 2 * f.signBit) :
    bits = bits % f.signBit + (if f.negOf bits = true then f.signBit else 0) ∧
    bits % f.signBit < f.signBit := by
  have hs : 0 < f.signBit := by unfold FloatFmt.signBit; exact two_pow_pos _
  have hlt := Nat.mod_lt bits hs
  refine ⟨?_, hlt⟩
  unfold FloatFmt.negOf
  rw [Nat.mod_eq_of_lt hw]
  by_cases h : f.signBit ≤ bits
  · simp only [h, decide_true, if_true]
    have : bits % f.signBit = bits - f.signBit := by
      rw [Nat.mod_eq_sub_mod h, Nat.mod_eq_of_lt (by omega)]
    omega
  · simp only [h, decide_false]
    rw [Nat.mod_eq_of_lt (by omega)]
    simp

theorem fracOf_mod_sign (f : FloatFmt) (bits : Nat) :
    f.fracOf (bits % f.signBit) = f.fracOf bits := by
  unfold FloatFmt.fracOf
  rw [signBit_eq]
  exact Nat.mod_mul_right_mod _ _ _

theorem expOf_mod_sign (f : FloatFmt) (bits : Nat) :
    f.expOf (bits % f.signBit) = f.expOf bits := by
  unfold FloatFmt.expOf
  rw [signBit_eq, Nat.mod_mul_right_div_self, Nat.mod_mod]

theorem decodeFinite_mod_sign (f : FloatFmt) (bits : Nat) :
    decodeFinite f (bits % f.signBit) = decodeFinite f bits := by
  unfold decodeFinite
  rw [fracOf_mod_sign, expOf_mod_sign]

theorem formatShortest_mod_sign (f : FloatFmt) (bits : Nat) :
    formatShortest f (bits % f.signBit) = formatShortest f bits := by
  rw [formatShortest_eq, formatShortest_eq, decodeFinite_mod_sign]

/-- A finite magnitude is below the infinity pattern. -/
theorem lt_infBits (f : FloatFmt) (b : Nat) (hb : b < f.signBit) (hfin : f.expOf b ≠ f.expMax) :
    b < f.infBits := by
  have hM := two_pow_pos f.mbits
  rw [signBit_eq] at hb
  have hdiv : b / 2 ^ f.mbits < 2 ^ f.ebits := (Nat.div_lt_iff_lt_mul hM).mpr (by
    rw [Nat.mul_comm]; exact hb)
  unfold FloatFmt.expOf at hfin
  rw [Nat.mod_eq_of_lt hdiv] at hfin
  unfold FloatFmt.infBits
  apply (Nat.div_lt_iff_lt_mul hM).mp
  unfold FloatFmt.expMax at hfin ⊢
  omega

/-- The only finite magnitude with both fields zero is zero. -/
theorem eq_zero_of_fields (f : FloatFmt) (b : Nat) (hb : b < f.signBit)
    (hE : f.expOf b = 0) (hF : f.fracOf b = 0) : b = 0 := by
  have hM := two_pow_pos f.mbits
  rw [signBit_eq] at hb
  have hdiv : b / 2 ^ f.mbits < 2 ^ f.ebits := (Nat.div_lt_iff_lt_mul hM).mpr (by
    rw [Nat.mul_comm]; exact hb)
  unfold FloatFmt.expOf at hE
  rw [Nat.mod_eq_of_lt hdiv] at hE
  unfold FloatFmt.fracOf at hF
  have := Nat.div_add_mod b (2 ^ f.mbits)
  rw [hE, hF] at this
  omega

end Dragon
end Scpi
