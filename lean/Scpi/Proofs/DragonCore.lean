/-
C04 (float Display), stage 3: `formatShortest` in a uniform form.  All the case
distinctions on the signs of the binary exponent and of the estimated decimal exponent
`k0` become powers with truncated exponents: the loop starts from `mant·c`, `minus·c`,
`plus·c` and `scale = 2^(-exp)⁺ · 10^(k0)⁺` with `c = 2^(exp)⁺ · 10^(-k0)⁺ · 10^g`, where
`g = 0` if the fix-up test holds (then `k = k0 + 1`) and `g = 1` otherwise (`k = k0`).
-/
import Scpi.Proofs.DragonSelect

namespace Scpi
namespace Dragon

/-- `estimate_scaling_factor(mant + plus, exp)`. -/
def estimateK (mant0 plus0 : Nat) (exp : Int) : Int :=
  ((((mant0 + plus0 - 1).log2 + 1 : Nat) : Int) + exp) * 1292913986 / 4294967296

/-- The fix-up test `scale ≤ mant + plus` (`<` in exclusive mode). -/
def hiGe (incl : Bool) (sc m pl : Nat) : Bool :=
  if incl = true then decide (sc ≤ m + pl) else decide (sc < m + pl)

/-- The common factor of `mant`, `minus`, `plus` after scaling by `2^exp` and `10^(-k0)`. -/
def cTwo (exp k0 : Int) : Nat := 2 ^ exp.toNat * 10 ^ (-k0).toNat

/-- The scale (denominator) after scaling by `2^exp` and `10^(-k0)`. -/
def scOf (exp k0 : Int) : Nat := 2 ^ (-exp).toNat * 10 ^ k0.toNat

/-- `1` when the fix-up multiplies by ten (the estimate `k0` was the true `k`), else `0`. -/
def fixG (incl : Bool) (sc m pl : Nat) : Nat := if hiGe incl sc m pl = true then 0 else 1

/-- `formatShortest` after `decodeFinite`, uniformly. -/
def formatCore (mant0 minus0 plus0 : Nat) (exp : Int) (incl : Bool) : List Nat × Int :=
  let k0 := estimateK mant0 plus0 exp
  let c2 := cTwo exp k0
  let sc := scOf exp k0
  let g : Nat := fixG incl sc (mant0 * c2) (plus0 * c2)
  selectDigits sc (k0 + 1 - g)
    (shortestLoop incl 2000 (mant0 * (c2 * 10 ^ g)) (minus0 * (c2 * 10 ^ g)) (plus0 * (c2 * 10 ^ g)) sc [])

set_option linter.unusedSimpArgs false in
theorem formatShortest_eq (f : FloatFmt) (bits : Nat) :
    formatShortest f bits =
      formatCore (decodeFinite f bits).1 (decodeFinite f bits).2.1 (decodeFinite f bits).2.2.1
        (decodeFinite f bits).2.2.2.1 (decodeFinite f bits).2.2.2.2 := by
  unfold formatShortest
  generalize decodeFinite f bits = dec
  obtain ⟨mant0, minus0, plus0, exp, incl⟩ := dec
  simp only []
  unfold formatCore fixG cTwo scOf
  simp only []
  rw [show (((((mant0 + plus0 - 1).log2 + 1 : Nat) : Int) + exp) * 1292913986 / 4294967296)
      = estimateK mant0 plus0 exp from rfl]
  generalize estimateK mant0 plus0 exp = k0
  have hz : (exp < 0 → exp.toNat = 0) ∧ (¬ exp < 0 → (-exp).toNat = 0) ∧
      (k0 ≥ 0 → (-k0).toNat = 0) ∧ (¬ k0 ≥ 0 → k0.toNat = 0) :=
    ⟨fun _ => by omega, fun _ => by omega, fun _ => by omega, fun _ => by omega⟩
  obtain ⟨hz1, hz2, hz3, hz4⟩ := hz
  by_cases he : exp < 0 <;> by_cases hk : k0 ≥ 0
  · simp only [he, hk, ↓reduceIte, hz1 he, hz3 hk, Nat.pow_zero, Nat.mul_one, Nat.one_mul, hiGe]
    generalize (if incl = true then decide (2 ^ (-exp).toNat * 10 ^ k0.toNat ≤ mant0 + plus0)
      else decide (2 ^ (-exp).toNat * 10 ^ k0.toNat < mant0 + plus0)) = hg
    cases hg <;> simp [selectDigits, Nat.mul_assoc]
  · simp only [he, hk, ↓reduceIte, hz1 he, hz4 hk, Nat.pow_zero, Nat.mul_one, Nat.one_mul, hiGe]
    generalize (if incl = true then
        decide (2 ^ (-exp).toNat ≤ mant0 * 10 ^ (-k0).toNat + plus0 * 10 ^ (-k0).toNat)
      else decide (2 ^ (-exp).toNat < mant0 * 10 ^ (-k0).toNat + plus0 * 10 ^ (-k0).toNat)) = hg
    cases hg <;> simp [selectDigits, Nat.mul_assoc]
  · simp only [he, hk, ↓reduceIte, hz2 he, hz3 hk, Nat.pow_zero, Nat.mul_one, Nat.one_mul, hiGe]
    generalize (if incl = true then
        decide (10 ^ k0.toNat ≤ mant0 * 2 ^ exp.toNat + plus0 * 2 ^ exp.toNat)
      else decide (10 ^ k0.toNat < mant0 * 2 ^ exp.toNat + plus0 * 2 ^ exp.toNat)) = hg
    cases hg <;> simp [selectDigits, Nat.mul_assoc]
  · simp only [he, hk, ↓reduceIte, hz2 he, hz4 hk, Nat.pow_zero, Nat.mul_one, Nat.one_mul, hiGe,
      Nat.mul_assoc]
    generalize (if incl = true then
        decide (1 ≤ mant0 * (2 ^ exp.toNat * 10 ^ (-k0).toNat) + plus0 * (2 ^ exp.toNat * 10 ^ (-k0).toNat))
      else decide (1 < mant0 * (2 ^ exp.toNat * 10 ^ (-k0).toNat) + plus0 * (2 ^ exp.toNat * 10 ^ (-k0).toNat))) = hg
    cases hg <;> simp [selectDigits, Nat.mul_assoc]

end Dragon
end Scpi
