/-
C04 (float Display): the integer estimate `k0 = ⌊(nbits + exp) · 1292913986 / 2^32⌋` of
`estimate_scaling_factor` never under-estimates by more than one: `mant · 2^exp < 10^(k0+1)`.
`1292913986 / 2^32` is slightly below `log10 2`, so this is a statement about finitely many
exponents, checked by evaluation for `|nbits + exp| ≤ B` (`EstimateOk B`).
-/
import Scpi.Proofs.DragonTie

namespace Scpi
namespace Dragon

/-- The table facts behind the estimate: `2^t ≤ 10^(⌊t·c⌋+1)` and `10^(⌈s·c⌉-1) ≤ 2^s`. -/
def EstimateOk (B : Nat) : Prop :=
  (∀ t, t ≤ B → 2 ^ t ≤ 10 ^ (t * 1292913986 / 4294967296 + 1)) ∧
  (∀ s, s ≤ B → 1 ≤ s → 10 ^ ((s * 1292913986 + 4294967295) / 4294967296 - 1) ≤ 2 ^ s)

instance (B : Nat) : Decidable (EstimateOk B) := by unfold EstimateOk; infer_instance

/-- Checked by evaluation: covers binary32 and binary64 (`|nbits + exp| ≤ 1077`). -/
theorem estimateOk_1100 : EstimateOk 1100 := by decide +kernel

/-- **The estimate is a lower bound up to one**: the first digit is below ten. -/
theorem estimate_first (B : Nat) (hE : EstimateOk B) (mant0 plus0 : Nat) (exp : Int)
    (hpl : 1 ≤ plus0)
    (ht1 : (((mant0 + plus0 - 1).log2 + 1 : Nat) : Int) + exp ≤ B)
    (ht2 : -(B : Int) ≤ (((mant0 + plus0 - 1).log2 + 1 : Nat) : Int) + exp) :
    mant0 * cTwo exp (estimateK mant0 plus0 exp) < 10 * scOf exp (estimateK mant0 plus0 exp) := by
  have hlt : mant0 + plus0 - 1 < 2 ^ ((mant0 + plus0 - 1).log2 + 1) := Nat.lt_log2_self
  unfold estimateK cTwo scOf
  generalize (mant0 + plus0 - 1).log2 + 1 = nb at *
  have hm : mant0 < 2 ^ nb := by omega
  have hma : mant0 * 2 ^ exp.toNat < 2 ^ nb * 2 ^ exp.toNat :=
    Nat.mul_lt_mul_of_pos_right hm (two_pow_pos _)
  by_cases ht : 0 ≤ (nb : Int) + exp
  · obtain ⟨tn, htn⟩ : ∃ tn : Nat, (nb : Int) + exp = tn := ⟨((nb : Int) + exp).toNat, by omega⟩
    rw [htn]
    have hk : ((tn : Int) * 1292913986 / 4294967296) = ((tn * 1292913986 / 4294967296 : Nat) : Int) := by
      omega
    rw [hk]
    have hE1 := hE.1 tn (by omega)
    generalize tn * 1292913986 / 4294967296 = kn at *
    have e1 : (-(kn : Int)).toNat = 0 := by omega
    have e2 : ((kn : Nat) : Int).toNat = kn := by omega
    rw [e1, e2, Nat.pow_zero, Nat.mul_one]
    have hsum : nb + exp.toNat = tn + (-exp).toNat := by omega
    calc mant0 * 2 ^ exp.toNat < 2 ^ nb * 2 ^ exp.toNat := hma
      _ = 2 ^ tn * 2 ^ (-exp).toNat := by rw [← Nat.pow_add, ← Nat.pow_add, hsum]
      _ ≤ 10 ^ (kn + 1) * 2 ^ (-exp).toNat := Nat.mul_le_mul_right _ hE1
      _ = 10 * (2 ^ (-exp).toNat * 10 ^ kn) := by rw [Nat.pow_succ]; ac_rfl
  · obtain ⟨sn, hsn⟩ : ∃ sn : Nat, (nb : Int) + exp = -(sn : Int) :=
      ⟨(-((nb : Int) + exp)).toNat, by omega⟩
    rw [hsn]
    have hk : (-(sn : Int) * 1292913986 / 4294967296) =
        -((((sn * 1292913986 + 4294967295) / 4294967296 - 1 : Nat) : Int) + 1) := by
      omega
    rw [hk]
    have hE2 := hE.2 sn (by omega) (by omega)
    generalize (sn * 1292913986 + 4294967295) / 4294967296 - 1 = q at *
    have e1 : (-(-((q : Int) + 1))).toNat = q + 1 := by omega
    have e2 : (-((q : Int) + 1)).toNat = 0 := by omega
    rw [e1, e2, Nat.pow_zero, Nat.mul_one]
    have hsum : nb + exp.toNat + sn = (-exp).toNat := by omega
    have h1 : mant0 * 2 ^ exp.toNat * 10 ^ q < 2 ^ nb * 2 ^ exp.toNat * 10 ^ q :=
      Nat.mul_lt_mul_of_pos_right hma (ten_pow_pos _)
    have h2 : 2 ^ nb * 2 ^ exp.toNat * 10 ^ q ≤ 2 ^ nb * 2 ^ exp.toNat * 2 ^ sn :=
      Nat.mul_le_mul_left _ hE2
    have h3 : 2 ^ nb * 2 ^ exp.toNat * 2 ^ sn = 2 ^ (-exp).toNat := by
      rw [← Nat.pow_add, ← Nat.pow_add, hsum]
    have h4 : mant0 * (2 ^ exp.toNat * 10 ^ (q + 1)) = 10 * (mant0 * 2 ^ exp.toNat * 10 ^ q) := by
      rw [Nat.pow_succ]; ac_rfl
    rw [h4]
    omega

end Dragon
end Scpi
