/-
T7.2: on a stream of complete messages that fit in the buffer the stream machine
is `run` applied to the messages one at a time.
-/
import Scpi.Proofs.StreamMsg
import Scpi.Proofs.StreamDiscard

namespace Scpi

/-- How far `run_from` gets and the header path it ends on do not depend on the
response buffer or the user state (handlers cannot influence parsing). -/
theorem runLoop_rest_indep {σ : Type} (I : Iface σ) : ∀ (fuel : Nat) (header : Node) (input : Bytes)
    (w w' : Writer) (s s' : σ),
    (runLoop I fuel header input w s).rest = (runLoop I fuel header input w' s').rest ∧
    (runLoop I fuel header input w s).header = (runLoop I fuel header input w' s').header := by
  intro fuel
  induction fuel with
  | zero => intro _ _ _ _ _ _; exact ⟨rfl, rfl⟩
  | succ n ih =>
    intro header input w w' s s'
    unfold runLoop
    split
    · exact ⟨rfl, rfl⟩
    · split
      · exact ⟨rfl, rfl⟩
      · exact ⟨rfl, rfl⟩
      · simp only []
        split
        · exact ih _ _ _ _ _ _
        · exact ⟨rfl, rfl⟩
      · simp only []
        split
        · exact ih _ _ _ _ _ _
        · exact ⟨rfl, rfl⟩
      · exact ih _ _ _ _ _ _
      · next i call e =>
        have hx := execute_no_crash I call w s
        have hx' := execute_no_crash I call w' s'
        rcases hex : execute I call w s with ⟨s1, w1, r1⟩
        rcases hex' : execute I call w' s' with ⟨s2, w2, r2⟩
        rw [hex] at hx; rw [hex'] at hx'
        cases r1 <;> cases r2 <;> simp only [] <;>
          first
          | exact ih _ _ _ _ _ _
          | exact absurd rfl (hx _)
          | exact absurd rfl (hx' _)

theorem run_rest_indep {σ : Type} (I : Iface σ) (input : Bytes) (w w' : Writer) (s s' : σ) :
    (run I input w s).rest = (run I input w' s').rest :=
  (runLoop_rest_indep I _ _ _ w w' s s').1

/-- Whether `run` consumes a message entirely can be checked with any one response
buffer and user state. -/
theorem isMessage_of_one {σ : Type} (I : Iface σ) (n : Nat) (body : Bytes) (w₀ : Writer) (s₀ : σ)
    (hb : ∀ b ∈ body, b ≠ 10) (hfit : body.length + 1 ≤ n)
    (h : (run I (body ++ [10]) w₀ s₀).rest = []) : IsMessage I n (body ++ [10]) :=
  ⟨⟨body, rfl, hb⟩, by simpa using hfit, fun w s => (run_rest_indep I _ w w₀ s s₀).trans h⟩

/-- One message through the stream machine, starting between messages. -/
theorem stream_message {σ : Type} (I : Iface σ) (n : Nat) (m : Bytes) (st : SpecState σ)
    (hm : IsMessage I n m) (hp : st.pending = []) (hh : st.header = I.root) :
    m.foldl (streamSpec I n) st =
      ⟨[], I.root, (run I m { cap := some n } st.user).s,
       st.out ++ (if (run I m { cap := some n } st.user).w.buf = [] then []
                  else [PEv.w (run I m { cap := some n } st.user).w.buf, PEv.f])⟩ := by
  obtain ⟨⟨body, rfl, hb⟩, hfit, hc⟩ := hm
  simp only [List.length_append, List.length_cons, List.length_nil] at hfit
  obtain ⟨h1, _⟩ := foldl_spec_eq_feed I n body st (by rw [hp]; simp only [List.length_nil]; omega)
  rw [List.foldl_append, h1, foldl_feed_plain I n body st hb]
  have hc' := hc { cap := some n } st.user
  have hr := runFrom_header_root I body { cap := some n } st.user hc'
  unfold run at hc' ⊢
  simp only [List.foldl_cons, List.foldl_nil, streamSpec, streamFeed, streamNewline, hp, hh,
    List.nil_append, if_true, hc', hr]
  exact streamDiscard_id I n _ (by simp only [List.length_nil]; omega)

theorem stream_messages {σ : Type} (I : Iface σ) (n : Nat) : ∀ (msgs : List Bytes) (st : SpecState σ),
    (∀ m ∈ msgs, IsMessage I n m) → st.pending = [] → st.header = I.root →
    msgs.flatten.foldl (streamSpec I n) st =
      ⟨[], I.root, (runMessages I n msgs st.user st.out).1, (runMessages I n msgs st.user st.out).2⟩ := by
  intro msgs
  induction msgs with
  | nil =>
    intro st _ hp hh
    cases st
    simp only [] at hp hh
    simp [runMessages, hp, hh]
  | cons m ms ih =>
    intro st hall hp hh
    rw [List.flatten_cons, List.foldl_append,
      stream_message I n m st (hall m List.mem_cons_self) hp hh,
      ih _ (fun x hx => hall x (List.mem_cons_of_mem _ hx)) rfl rfl]
    rfl

end Scpi
