/-
One iteration of the outer loop of `process` (one read) is the stream machine fed
with the bytes delivered by that read.
-/
import Scpi.Proofs.StreamInner
import Scpi.Proofs.StreamDiscard

namespace Scpi

/-- What the stream machine knows of the state of `process` at the top of the outer loop. -/
def absP {σ : Type} (st : PState σ) : SpecState σ :=
  ⟨st.buf.take st.readOff, st.header, st.user, st.trace.filter PEv.nonRead⟩

/-- Invariant of `process` at the top of the outer loop. -/
structure PInv {σ : Type} (n : Nat) (st : PState σ) : Prop where
  len : st.buf.length = n
  proc : st.procOff = 0
  read : st.readOff < n

/-- The number of bytes the next read delivers. -/
def nextCount {σ : Type} (n : Nat) (st : PState σ) : Nat :=
  min (match st.sizes with
        | k :: _ => k
        | [] => n - st.readOff) (min (n - st.readOff) st.stream.length)

/-- The overflow rule at the end of an iteration of the outer loop. -/
theorem discard_step {σ : Type} (I : Iface σ) (n : Nat) (st2 : PState σ) (pend' : Bytes)
    (h : st2.buf.take st2.readOff = pend') (hl : st2.buf.length = n) (hp : st2.procOff = 0)
    (hr : st2.readOff = pend'.length) (hn0 : 0 < n) :
    PInv n (if st2.readOff ≥ n then { st2 with readOff := 0, header := I.root } else st2) ∧
    (if st2.readOff ≥ n then { st2 with readOff := 0, header := I.root } else st2).stream = st2.stream ∧
    (if st2.readOff ≥ n then { st2 with readOff := 0, header := I.root } else st2).sizes = st2.sizes ∧
    absP (if st2.readOff ≥ n then { st2 with readOff := 0, header := I.root } else st2)
      = streamDiscard I n ⟨pend', st2.header, st2.user, st2.trace.filter PEv.nonRead⟩ := by
  unfold streamDiscard
  by_cases hge : st2.readOff ≥ n
  · rw [if_pos hge, if_pos (by simp only []; omega)]
    exact ⟨⟨hl, hp, hn0⟩, rfl, rfl, by simp [absP]⟩
  · rw [if_neg hge, if_neg (by simp only []; omega)]
    exact ⟨⟨hl, hp, by omega⟩, rfl, rfl, by simp [absP, h]⟩

theorem procLoop_step {σ : Type} (I : Iface σ) (n fuel : Nat) (st : PState σ) (hinv : PInv n st)
    (hne : ¬(st.stream.isEmpty ∧ st.sizes.isEmpty)) :
    ∃ st', procLoop I n none (fuel + 1) st = procLoop I n none fuel st' ∧ PInv n st' ∧
      st'.stream = st.stream.drop (nextCount n st) ∧ st'.sizes = st.sizes.drop 1 ∧
      absP st' = (st.stream.take (nextCount n st)).foldl (streamSpec I n) (absP st) := by
  obtain ⟨hlen, hproc, hread⟩ := hinv
  have hcle : nextCount n st ≤ n - st.readOff := by
    unfold nextCount; omega
  have hcle2 : nextCount n st ≤ st.stream.length := by
    unfold nextCount; omega
  rw [procLoop]
  rw [if_neg (by omega)]
  simp only [faultAt_none]
  rw [if_neg hne]
  unfold nextCount at *
  generalize hc : (min (match st.sizes with
        | k :: _ => k
        | [] => n - st.readOff) (min (n - st.readOff) st.stream.length)) = count at *
  have hchunk : (st.stream.take count).length = count := by
    rw [List.length_take]; omega
  have htk : (st.buf.take st.readOff).length = st.readOff := by
    rw [List.length_take]; omega
  obtain ⟨st1, pre', pend', h1, h2, h3, h4, h5, h6, h7⟩ := procInner_refines I n (count + 1)
    (st.stream.take count) [] (st.buf.take st.readOff) (st.buf.drop (st.readOff + count))
    { buf := List.take st.readOff st.buf ++ List.take count st.stream ++ List.drop (st.readOff + count) st.buf,
      procOff := st.procOff, readOff := st.readOff, header := st.header, user := st.user,
      stream := List.drop count st.stream, sizes := List.drop 1 st.sizes, calls := st.calls + 1,
      trace := st.trace ++ [PEv.r count (n - st.readOff)] } (st.readOff + count)
    (by simp) hproc (by simp only [htk, List.length_nil]; omega) (by simp only [hchunk]) (by omega)
  rw [h1]
  simp only [] at h2 h3 h4 h5 h6 h7 ⊢
  have hlen3 : pre'.length + pend'.length = st.readOff + count := by
    have := congrArg List.length h3
    simp only [List.length_append, htk, hchunk] at this
    omega
  have hb1 : st1.buf.length = n := by
    rw [h2]; simp only [List.length_append, htk, hchunk, List.length_drop]; omega
  have h7' : (st.stream.take count).foldl (streamFeed I n) (absP st)
      = ⟨pend', st1.header, st1.user, st1.trace.filter PEv.nonRead⟩ := by
    rw [← h7]; simp [absP, PEv.nonRead]
  have hspec : (st.stream.take count).foldl (streamSpec I n) (absP st)
      = streamDiscard I n ⟨pend', st1.header, st1.user, st1.trace.filter PEv.nonRead⟩ := by
    rw [← h7']
    exact foldl_spec_chunk I n _ _ (by simp only [absP, htk]; exact hread)
      (by simp only [absP, htk, hchunk]; omega)
  rw [hspec]
  by_cases hpos : st1.procOff > 0
  · have hsl : slice st1.buf st1.procOff (st.readOff + count) = some pend' := by
      rw [h2, h3]
      exact slice_mid pre' pend' _ _ _ h4 hlen3.symm
    rw [if_pos hpos, hsl]
    simp only []
    rw [if_pos (by omega)]
    simp only []
    refine ⟨_, rfl, ?_⟩
    have hd := discard_step I n
      { buf := pend' ++ List.drop (List.length pend') st1.buf, readOff := st.readOff + count - st1.procOff,
        header := st1.header, user := st1.user, stream := st1.stream, sizes := st1.sizes, calls := st1.calls,
        trace := st1.trace } pend'
      (by simp only []; rw [show st.readOff + count - st1.procOff = pend'.length by omega]; simp)
      (by simp only [List.length_append, List.length_drop]; omega) rfl (by simp only []; omega) (by omega)
    exact ⟨hd.1, hd.2.1.trans h5, hd.2.2.1.trans h6, hd.2.2.2⟩
  · have hz : pre' = [] := List.eq_nil_of_length_eq_zero (by omega)
    subst hz
    rw [if_neg hpos]
    simp only []
    refine ⟨_, rfl, ?_⟩
    have hd := discard_step I n
      { buf := st1.buf, procOff := st1.procOff, readOff := st.readOff + count, header := st1.header,
        user := st1.user, stream := st1.stream, sizes := st1.sizes, calls := st1.calls,
        trace := st1.trace } pend'
      (by simp only []; rw [h2, h3, show st.readOff + count = pend'.length by simpa using hlen3.symm]; simp)
      hb1 (by simp only []; omega) (by simpa using hlen3.symm) (by omega)
    exact ⟨hd.1, hd.2.1.trans h5, hd.2.2.1.trans h6, hd.2.2.2⟩

end Scpi
