/-
Isolation of messages (T2.2 / T6.2): when `x` is a sequence of complete messages
that `runFrom` consumes entirely, running on `x ++ y` is running on `x` and then on
`y` from the root — nothing of the interpreter state survives a terminator.

Parser finality is proved elsewhere; it enters as the two hypotheses
`ParseFinalOk` and `ParseFinalErr`.
-/
import Scpi.Proofs.RunSteps

namespace Scpi

/-- An accepted unit is accepted in the same way, with the same rest, whatever follows. -/
def ParseFinalOk : Prop :=
  ∀ (root h : Node) (x y r : Bytes) (c : Option CommandCall),
    parse root h x = .ok r c → parse root h (x ++ y) = .ok (r ++ y) c

/-- A syntax error found in an input that ends with a terminator is found, and is the
same, whatever follows. -/
def ParseFinalErr : Prop :=
  ∀ (root h : Node) (x y : Bytes), x.getLast? = some 10 →
    ((∃ e, parse root h x = .soft e) ∨ (∃ e, parse root h x = .fatal e)) →
    parse root h (x ++ y) = parse root h x

theorem afterNewline_append : ∀ (x r y : Bytes), afterNewline x = some r →
    afterNewline (x ++ y) = some (r ++ y) := by
  intro x
  induction x with
  | nil => intro r y h; cases h
  | cons b rest ih =>
    intro r y h
    unfold afterNewline at h
    simp only [List.cons_append]
    unfold afterNewline
    split at h
    · next hb => cases h; simp only [hb, if_true]
    · next hb => simp only [hb]; exact ih r y h

theorem suffix_getLast {r x : Bytes} {b : Nat} (hs : r <:+ x) (hne : r ≠ [])
    (hx : x.getLast? = some b) : r.getLast? = some b := by
  obtain ⟨p, rfl⟩ := hs
  simp [List.getLast?_append, hne] at hx
  cases hr : r.getLast? with
  | none => simp at hr; exact absurd hr hne
  | some c => rw [hr] at hx; simpa using hx

theorem tag_eq_ok {t : Nat} {i r : Bytes} {v : Nat} (h : tag t i = .ok r v) : i = t :: r := by
  unfold tag satisfy at h
  cases i with
  | nil => cases h
  | cons b rest =>
    simp only [] at h
    split at h
    · next hb => cases h; simp at hb; rw [hb]
    · exact absurd h ofErr_ne_ok

/-- The byte that ended an accepted unit: the terminator when `terminated`, else `;`. -/
def sepByte (call : CommandCall) : Nat := if call.terminated then 10 else 59

theorem parseTail_sep {nh : Node × Option Node} {q : Bool} {i6 r : Bytes} {args : List Value}
    {oc : Option CommandCall} (h : parseTail nh q i6 args = .ok r oc) :
    ∃ call, oc = some call ∧ (sepByte call :: r) <:+ i6 := by
  unfold parseTail at h
  obtain ⟨i7, _, e7, h⟩ := bind_eq_ok h
  obtain ⟨i8, t, e8, h⟩ := bind_eq_ok h
  cases h
  have s7 := (good_optP good_whitespace i6).suffix _ _ e7
  refine ⟨_, rfl, ?_⟩
  rcases orElse_eq_ok e8 with e | e
  · obtain ⟨_, e, ht⟩ := map_eq_ok e
    have := tag_eq_ok e
    subst ht
    simp only [sepByte, if_true]
    rw [← this]; exact s7
  · obtain ⟨_, e, ht⟩ := map_eq_ok e
    have := tag_eq_ok e
    subst ht
    simp only [sepByte, Bool.false_eq_true, if_false]
    rw [← this]; exact s7

theorem parseArgs_sep {nh : Node × Option Node} {q : Bool} {i5 r : Bytes} {hasArgs : Bool}
    {oc : Option CommandCall} (h : parseArgs nh q i5 hasArgs = .ok r oc) :
    ∃ call, oc = some call ∧ (sepByte call :: r) <:+ i5 := by
  unfold parseArgs at h
  split at h
  · have ha := arguments_good i5
    split at h
    · next i6 u args e =>
      have : (arguments i5).1 = .ok i6 u := by rw [e]
      obtain ⟨c, hc, hs⟩ := parseTail_sep h
      exact ⟨c, hc, hs.trans (ha.suffix _ _ this)⟩
    · exact parseTail_sep h
    · cases h
    · cases h
    · cases h
  · exact parseTail_sep h

theorem parseAfterHeader_sep {nh : Node × Option Node} {i3 r : Bytes} {oc : Option CommandCall}
    (h : parseAfterHeader nh i3 = .ok r oc) :
    ∃ call, oc = some call ∧ (sepByte call :: r) <:+ i3 := by
  unfold parseAfterHeader at h
  have hq := queryMark_suffix i3
  cases e5 : whitespace (queryMark i3).1 with
  | ok i5 w5 =>
    rw [e5] at h
    obtain ⟨c, hc, hs⟩ := parseArgs_sep h
    exact ⟨c, hc, (hs.trans ((good_whitespace _).suffix _ _ e5)).trans hq⟩
  | soft e =>
    rw [e5] at h
    obtain ⟨c, hc, hs⟩ := parseArgs_sep h
    exact ⟨c, hc, hs.trans hq⟩
  | fatal e => rw [e5] at h; cases h
  | incomplete => rw [e5] at h; cases h
  | crash c => rw [e5] at h; cases h

/-- **What ended an accepted unit**: the rest `parse` returns is preceded, in the
input, by the terminator iff the call is `terminated`, and by `;` otherwise. -/
theorem parse_call_sep (root h : Node) (input r : Bytes) (call : CommandCall)
    (hp : parse root h input = .ok r (some call)) : (sepByte call :: r) <:+ input := by
  unfold parse at hp
  obtain ⟨i1, _, e1, hp⟩ := bind_eq_ok hp
  obtain ⟨i2, t, e2, hp⟩ := bind_eq_ok hp
  have s1 := (good_optP good_whitespace input).suffix _ _ e1
  have s2 := (good_optP (good_tag 10) i1).suffix _ _ e2
  split at hp
  · cases hp
  · obtain ⟨i3, nh, e3, hp⟩ := bind_eq_ok hp
    have s3 := (good_commandHeader root h i2).suffix _ _ e3
    obtain ⟨c, hc, hs⟩ := parseAfterHeader_sep hp
    cases hc
    exact ((hs.trans s3).trans s2).trans s1

/-- A unit that consumed an input ending in a terminator up to its end was ended
by that terminator. -/
theorem parse_all_terminated (root h : Node) (x : Bytes) (call : CommandCall)
    (hx : x.getLast? = some 10) (hp : parse root h x = .ok [] (some call)) :
    call.terminated = true := by
  have hs := parse_call_sep root h x [] call hp
  have := suffix_getLast hs (by simp) hx
  simp only [sepByte, List.getLast?_singleton, Option.some.injEq] at this
  by_cases ht : call.terminated = true
  · exact ht
  · simp [ht] at this

/-- Main induction for `run_append_message`. -/
theorem runFrom_append_aux {σ : Type} (I : Iface σ) (hOk : ParseFinalOk) (hErr : ParseFinalErr) :
    ∀ (n : Nat) (h : Node) (x : Bytes) (w : Writer) (s : σ), x.length ≤ n →
    x.getLast? = some 10 → (runFrom I h x w s).rest = [] →
    (runFrom I h x w s).header = I.root ∧
    ∀ y, runFrom I h (x ++ y) w s =
      runFrom I I.root y (runFrom I h x w s).w (runFrom I h x w s).s := by
  intro n
  induction n with
  | zero =>
    intro h x w s hl hx _
    have : x = [] := List.eq_nil_of_length_eq_zero (by omega)
    subst this; cases hx
  | succ n ih =>
    intro h x w s hl hx hrest
    have hne : x ≠ [] := by intro h0; subst h0; cases hx
    -- what to do once the first step is known to continue on a suffix `i` of `x`
    have cont : ∀ (h' : Node) (i : Bytes) (w' : Writer) (s' : σ), i <:+ x → i.length < x.length →
        (i = [] → h' = I.root) →
        (runFrom I h' i w' s').rest = [] →
        (runFrom I h' i w' s').header = I.root ∧
        ∀ y, runFrom I h' (i ++ y) w' s' =
          runFrom I I.root y (runFrom I h' i w' s').w (runFrom I h' i w' s').s := by
      intro h' i w' s' hsuf hlt hroot hr
      by_cases hi : i = []
      · subst hi
        rw [hroot rfl, runFrom_nil]
        exact ⟨rfl, fun y => by simp⟩
      · exact ih h' i w' s' (by omega) (suffix_getLast hsuf hi hx) hr
    have hstrict := parse_strict I.root h x
    cases hp : parse I.root h x with
    | crash c => exact absurd hp (hstrict.noCrash c)
    | incomplete =>
      have hs := unitStep_incomplete I ⟨h, x, w, s⟩ hp
      rw [runFrom_stop hne hs] at hrest
      exact absurd hrest hne
    | soft e =>
      have hs := unitStep_soft I ⟨h, x, w, s⟩ e hp
      simp only [] at hs
      cases ha : afterNewline x with
      | none =>
        rw [ha] at hs
        rw [runFrom_stop hne hs] at hrest
        exact absurd hrest hne
      | some r =>
        rw [ha] at hs
        obtain ⟨hsuf, hlt⟩ := afterNewline_suffix _ _ ha
        have hpy : ∀ y, parse I.root h (x ++ y) = .soft e := fun y => by
          rw [hErr I.root h x y hx (Or.inl ⟨e, hp⟩), hp]
        have hsy : ∀ y, unitStep I ⟨h, x ++ y, w, s⟩ =
            .next ⟨I.root, r ++ y, w, I.onError s (parseErrToErr e)⟩ := fun y => by
          rw [unitStep_soft I ⟨h, x ++ y, w, s⟩ e (hpy y)]
          simp only [afterNewline_append x r y ha]
        rw [runFrom_next hne hs] at hrest ⊢
        obtain ⟨c1, c2⟩ := cont I.root r w _ hsuf hlt (fun _ => rfl) hrest
        refine ⟨c1, fun y => ?_⟩
        rw [runFrom_next (by simp [hne]) (hsy y)]
        exact c2 y
    | fatal e =>
      have hs := unitStep_fatal I ⟨h, x, w, s⟩ e hp
      simp only [] at hs
      cases ha : afterNewline x with
      | none =>
        rw [ha] at hs
        rw [runFrom_stop hne hs] at hrest
        exact absurd hrest hne
      | some r =>
        rw [ha] at hs
        obtain ⟨hsuf, hlt⟩ := afterNewline_suffix _ _ ha
        have hpy : ∀ y, parse I.root h (x ++ y) = .fatal e := fun y => by
          rw [hErr I.root h x y hx (Or.inr ⟨e, hp⟩), hp]
        have hsy : ∀ y, unitStep I ⟨h, x ++ y, w, s⟩ =
            .next ⟨I.root, r ++ y, w, I.onError s e⟩ := fun y => by
          rw [unitStep_fatal I ⟨h, x ++ y, w, s⟩ e (hpy y)]
          simp only [afterNewline_append x r y ha]
        rw [runFrom_next hne hs] at hrest ⊢
        obtain ⟨c1, c2⟩ := cont I.root r w _ hsuf hlt (fun _ => rfl) hrest
        refine ⟨c1, fun y => ?_⟩
        rw [runFrom_next (by simp [hne]) (hsy y)]
        exact c2 y
    | ok i oc =>
      have hsuf := hstrict.suffix _ _ hp
      have hlt := hstrict.lt _ _ hp
      cases oc with
      | none =>
        have hs := unitStep_empty_message I ⟨h, x, w, s⟩ i hp
        have hsy : ∀ y, unitStep I ⟨h, x ++ y, w, s⟩ = .next ⟨I.root, i ++ y, w, s⟩ := fun y =>
          unitStep_empty_message I ⟨h, x ++ y, w, s⟩ (i ++ y) (hOk I.root h x y i none hp)
        rw [runFrom_next hne hs] at hrest ⊢
        obtain ⟨c1, c2⟩ := cont I.root i w s hsuf hlt (fun _ => rfl) hrest
        refine ⟨c1, fun y => ?_⟩
        rw [runFrom_next (by simp [hne]) (hsy y)]
        exact c2 y
      | some call =>
        have hs := unitStep_call I ⟨h, x, w, s⟩ i call hp
        have hsy := fun y => unitStep_call I ⟨h, x ++ y, w, s⟩ (i ++ y) call
          (hOk I.root h x y i (some call) hp)
        simp only [] at hs hsy
        have hroot : i = [] → headerAfter I.root h call = I.root := by
          intro hi
          subst hi
          have := parse_all_terminated I.root h x call hx hp
          simp [headerAfter, this]
        rw [runFrom_next hne hs] at hrest ⊢
        obtain ⟨c1, c2⟩ := cont _ i _ _ hsuf hlt hroot hrest
        refine ⟨c1, fun y => ?_⟩
        rw [runFrom_next (by simp [hne]) (hsy y)]
        exact c2 y

end Scpi
