/-
C04 (float Display), stage 1: the digit loop of `dragon::format_shortest`
(`shortestLoop`) as arithmetic.  After `j` digits `d₁…d_j` with `N = d₁…d_j` read as a
decimal integer, the remainder `r` satisfies `N · scale + r = 10^(j-1) · mant`, `r < scale`;
the loop stops at the first `j` where the `down` / `up` test holds, and it does stop within
the fuel when `10^(fuel-1) · plus > scale`.
-/
import Scpi.Float
import Scpi.Spec.Numerals

namespace Scpi
namespace Dragon
open C03 (digitsValue digitsValue_cons)

/-- The `down` test: the remainder is within `minus` (the truncated digits are inside the
rounding interval from below). -/
def DownP (incl : Bool) (r mi : Nat) : Prop := if incl = true then r ≤ mi else r < mi

/-- The `up` test: the digits incremented in the last place are inside the interval. -/
def UpP (incl : Bool) (r pl sc : Nat) : Prop := if incl = true then sc ≤ r + pl else sc < r + pl

theorem ten_pow_pos (k : Nat) : 0 < 10 ^ k := Nat.pow_pos (by decide)

/-- The accumulator of `shortestLoop` is a prefix of the result. -/
theorem loop_acc (incl : Bool) : ∀ (fuel m mi pl sc : Nat) (acc : List Nat),
    shortestLoop incl fuel m mi pl sc acc =
      (acc ++ (shortestLoop incl fuel m mi pl sc []).1, (shortestLoop incl fuel m mi pl sc []).2) := by
  intro fuel
  induction fuel with
  | zero => intro m mi pl sc acc; simp [shortestLoop]
  | succ fuel ih =>
    intro m mi pl sc acc
    unfold shortestLoop
    simp only []
    generalize (if incl = true then decide (m % sc ≤ mi) else decide (m % sc < mi)) = down
    generalize (if incl = true then decide (sc ≤ m % sc + pl) else decide (sc < m % sc + pl)) = up
    by_cases h : (down || up) = true
    · rw [if_pos h, if_pos h]
      simp
    · rw [if_neg h, if_neg h]
      rw [ih _ _ _ _ (acc ++ [m / sc]), ih _ _ _ _ ([] ++ [m / sc])]
      simp

/-- One step of the loop, with the accumulator factored out. -/
theorem loop_succ (incl : Bool) (fuel m mi pl sc : Nat) :
    shortestLoop incl (fuel + 1) m mi pl sc [] =
      if ((if incl = true then decide (m % sc ≤ mi) else decide (m % sc < mi)) ||
         (if incl = true then decide (sc ≤ m % sc + pl) else decide (sc < m % sc + pl))) = true then
        ([m / sc], m % sc, (if incl = true then decide (m % sc ≤ mi) else decide (m % sc < mi)),
          (if incl = true then decide (sc ≤ m % sc + pl) else decide (sc < m % sc + pl)))
      else
        (m / sc :: (shortestLoop incl fuel (m % sc * 10) (mi * 10) (pl * 10) sc []).1,
          (shortestLoop incl fuel (m % sc * 10) (mi * 10) (pl * 10) sc []).2) := by
  conv => lhs; unfold shortestLoop
  simp only [List.nil_append]
  generalize (if incl = true then decide (m % sc ≤ mi) else decide (m % sc < mi)) = down
  generalize (if incl = true then decide (sc ≤ m % sc + pl) else decide (sc < m % sc + pl)) = up
  by_cases h : (down || up) = true
  · rw [if_pos h, if_pos h]
  · rw [if_neg h, if_neg h, loop_acc]
    rfl

theorem downP_iff (incl : Bool) (r mi : Nat) :
    (if incl = true then decide (r ≤ mi) else decide (r < mi)) = true ↔ DownP incl r mi := by
  unfold DownP; cases incl <;> simp

theorem upP_iff (incl : Bool) (r pl sc : Nat) :
    (if incl = true then decide (sc ≤ r + pl) else decide (sc < r + pl)) = true ↔ UpP incl r pl sc := by
  unfold UpP; cases incl <;> simp

/-- What the loop returns.  `ds` are the digits, `N` their decimal value, `j` their number. -/
structure LoopOut (incl : Bool) (m mi pl sc : Nat) (ds : List Nat) (mR : Nat) (down up : Bool) :
    Prop where
  ne : ds ≠ []
  dig : ∀ d ∈ ds, d < 10
  val : digitsValue 10 ds * sc + mR = 10 ^ (ds.length - 1) * m
  rem : mR < sc
  down_iff : down = true ↔ DownP incl mR (10 ^ (ds.length - 1) * mi)
  up_iff : up = true ↔ UpP incl mR (10 ^ (ds.length - 1) * pl) sc
  stop : down = true ∨ up = true
  /-- the previous step did not stop -/
  early : incl = true → ds.length = 1 ∨ 10 ^ (ds.length - 2) * (mi + pl) < sc

theorem loop_spec (incl : Bool) : ∀ (fuel m mi pl sc : Nat), 0 < sc → m < 10 * sc → 1 ≤ fuel →
    sc < 10 ^ (fuel - 1) * pl →
    LoopOut incl m mi pl sc (shortestLoop incl fuel m mi pl sc []).1
      (shortestLoop incl fuel m mi pl sc []).2.1 (shortestLoop incl fuel m mi pl sc []).2.2.1
      (shortestLoop incl fuel m mi pl sc []).2.2.2 := by
  intro fuel
  induction fuel with
  | zero => intro m mi pl sc _ _ h; omega
  | succ fuel ih =>
    intro m mi pl sc hsc hm _ hfuel
    have hdm := Nat.div_add_mod m sc
    have hr := Nat.mod_lt m hsc
    have hd : m / sc < 10 := (Nat.div_lt_iff_lt_mul hsc).mpr (by omega)
    rw [loop_succ]
    generalize hdown : (if incl = true then decide (m % sc ≤ mi) else decide (m % sc < mi)) = down
    generalize hup : (if incl = true then decide (sc ≤ m % sc + pl) else decide (sc < m % sc + pl)) = up
    have hdown' : down = true ↔ DownP incl (m % sc) mi := by rw [← hdown]; exact downP_iff _ _ _
    have hup' : up = true ↔ UpP incl (m % sc) pl sc := by rw [← hup]; exact upP_iff _ _ _ _
    by_cases hstop : (down || up) = true
    · rw [if_pos hstop]
      refine ⟨by simp, ?_, ?_, hr, ?_, ?_, by simpa using hstop, fun _ => Or.inl rfl⟩
      · intro d hd'; simp at hd'; omega
      · simp only [digitsValue, List.foldl_cons, List.foldl_nil, List.length_singleton, Nat.sub_self,
          Nat.pow_zero, Nat.one_mul, Nat.zero_mul, Nat.zero_add]
        rw [Nat.mul_comm]; exact hdm
      · simpa using hdown'
      · simpa using hup'
    · rw [if_neg hstop]
      simp only [Bool.or_eq_true, not_or, Bool.not_eq_true] at hstop
      obtain ⟨hnd, hnu⟩ := hstop
      have hfuel1 : 1 ≤ fuel := by
        rcases Nat.eq_zero_or_pos fuel with h0 | h0
        · exfalso
          subst h0
          simp only [Nat.zero_add, Nat.sub_self, Nat.pow_zero, Nat.one_mul] at hfuel
          have : UpP incl (m % sc) pl sc := by
            unfold UpP; split <;> omega
          rw [← hup'] at this
          rw [this] at hnu; cases hnu
        · exact h0
      have hfuel' : sc < 10 ^ (fuel - 1) * (pl * 10) := by
        obtain ⟨g, rfl⟩ : ∃ g, fuel = g + 1 := ⟨fuel - 1, by omega⟩
        simp only [Nat.add_sub_cancel] at hfuel ⊢
        rw [Nat.pow_succ] at hfuel
        rw [Nat.mul_comm pl 10, ← Nat.mul_assoc]
        exact hfuel
      have IH := ih (m % sc * 10) (mi * 10) (pl * 10) sc hsc (by omega) hfuel1 hfuel'
      generalize (shortestLoop incl fuel (m % sc * 10) (mi * 10) (pl * 10) sc []) = R at IH
      obtain ⟨ds, mR, dn, u⟩ := R
      obtain ⟨ne, dig, val, rem, down_iff, up_iff, stop, early⟩ := IH
      simp only at ne dig val rem down_iff up_iff stop early ⊢
      obtain ⟨L, hL⟩ : ∃ L, ds.length = L + 1 := ⟨ds.length - 1, by
        have := List.length_pos_iff.mpr ne; omega⟩
      have hpow : ∀ x, 10 ^ (ds.length - 1) * (x * 10) = 10 ^ ((m / sc :: ds).length - 1) * x := by
        intro x
        simp only [List.length_cons, Nat.add_sub_cancel, hL]
        rw [Nat.pow_succ]
        simp only [Nat.mul_assoc, Nat.mul_comm]
      refine ⟨by simp, ?_, ?_, rem, ?_, ?_, stop, ?_⟩
      · intro d hd'
        rcases List.mem_cons.mp hd' with rfl | h
        · exact hd
        · exact dig d h
      · rw [digitsValue_cons, Nat.add_mul, Nat.add_assoc, val, hpow]
        simp only [List.length_cons, Nat.add_sub_cancel]
        have e1 : m / sc * 10 ^ ds.length * sc = 10 ^ ds.length * (sc * (m / sc)) := by ac_rfl
        rw [e1, ← Nat.mul_add, hdm]
      · rw [down_iff, hpow]
      · rw [up_iff, hpow]
      · intro hi
        right
        have hnd' : ¬ DownP incl (m % sc) mi := by rw [← hdown']; simp [hnd]
        have hnu' : ¬ UpP incl (m % sc) pl sc := by rw [← hup']; simp [hnu]
        unfold DownP at hnd'; unfold UpP at hnu'
        rw [if_pos hi] at hnd' hnu'
        by_cases hl1 : ds.length = 1
        · simp only [List.length_cons]
          have : ds.length + 1 - 2 = 0 := by omega
          rw [this, Nat.pow_zero, Nat.one_mul]
          omega
        · have h1 : 10 ^ (ds.length - 2) * (mi * 10 + pl * 10) < sc := by
            rcases early hi with h | h
            · exact absurd h hl1
            · exact h
          simp only [List.length_cons]
          have : ds.length + 1 - 2 = (ds.length - 2) + 1 := by omega
          rw [this, Nat.pow_succ, Nat.mul_assoc, Nat.mul_comm 10, Nat.add_mul]
          exact h1

end Dragon
end Scpi
