/-
Decision logic of one unit: `convertArgs`, `executeCommand`, `execute`
(for arbitrary handlers), as one closed-form equation (`execute_eq`) from which the
case theorems of C06 follow by inversion.
-/
import Scpi.Proofs.RunSteps

namespace Scpi

/-! ### `convertArgs` is positional, left to right, and stops at the first failure -/

/-- All conversions succeed: position `i` of the result is `convert tys[i] args[i]`. -/
theorem convertArgs_ok_iff : ∀ (tys : List Ty) (args : List Value) (tvs : List TVal)
    (_ : tys.length ≤ args.length),
    (convertArgs tys args = .ok tvs ↔
      ∃ (_ : tvs.length = tys.length), ∀ (i : Nat) (hi : i < tys.length),
        convert tys[i] (args[i]'(by omega)) = .ok (tvs[i]'(by omega))) := by
  intro tys
  induction tys with
  | nil =>
    intro args tvs _
    cases args <;> simp only [convertArgs] <;>
    · constructor
      · intro h; cases h; exact ⟨rfl, fun i hi => absurd hi (Nat.not_lt_zero _)⟩
      · rintro ⟨h, _⟩
        have : tvs = [] := List.eq_nil_of_length_eq_zero h
        rw [this]
  | cons t ts ih =>
    intro args tvs hl
    cases args with
    | nil => simp at hl
    | cons v vs =>
      have hl' : ts.length ≤ vs.length := by simpa using hl
      rw [convertArgs]
      constructor
      · intro h
        cases hc : convert t v with
        | error e => rw [hc] at h; cases h
        | ok tv =>
          rw [hc] at h; simp only [] at h
          cases hr : convertArgs ts vs with
          | error e => rw [hr] at h; cases h
          | ok tvs' =>
            rw [hr] at h; cases h
            obtain ⟨hlen, hall⟩ := (ih vs tvs' hl').1 hr
            refine ⟨by simp [hlen], fun i hi => ?_⟩
            cases i with
            | zero => exact hc
            | succ j => exact hall j (by simpa using hi)
      · rintro ⟨hlen, hall⟩
        cases tvs with
        | nil => simp at hlen
        | cons tv tvs' =>
          have h0 := hall 0 (by simp)
          simp only [List.getElem_cons_zero] at h0
          rw [h0]; simp only []
          have : convertArgs ts vs = .ok tvs' :=
            (ih vs tvs' hl').2 ⟨by simpa using hlen, fun i hi => by
              have := hall (i + 1) (by simpa using hi)
              simpa using this⟩
          rw [this]

/-- `convertArgs` fails with `e` iff some position `i` fails with `e` and every
position before it converts: the error is that of the FIRST failing parameter. -/
theorem convertArgs_err_iff : ∀ (tys : List Ty) (args : List Value) (e : Err)
    (_ : tys.length ≤ args.length),
    (convertArgs tys args = .error (.inl e) ↔
      ∃ (i : Nat) (hi : i < tys.length), convert tys[i] (args[i]'(by omega)) = .error e ∧
        ∀ (j : Nat) (hj : j < i), ∃ tv, convert (tys[j]'(by omega)) (args[j]'(by omega)) = .ok tv) := by
  intro tys
  induction tys with
  | nil =>
    intro args e _
    cases args <;> simp [convertArgs]
  | cons t ts ih =>
    intro args e hl
    cases args with
    | nil => simp at hl
    | cons v vs =>
      have hl' : ts.length ≤ vs.length := by simpa using hl
      rw [convertArgs]
      constructor
      · intro h
        cases hc : convert t v with
        | error e' =>
          rw [hc] at h; cases h
          exact ⟨0, by simp, hc, fun j hj => absurd hj (Nat.not_lt_zero _)⟩
        | ok tv =>
          rw [hc] at h; simp only [] at h
          cases hr : convertArgs ts vs with
          | ok tvs' => rw [hr] at h; cases h
          | error e' =>
            rw [hr] at h; cases h
            obtain ⟨i, hi, hci, hbefore⟩ := (ih vs e hl').1 hr
            refine ⟨i + 1, by simpa using hi, by simpa using hci, fun j hj => ?_⟩
            cases j with
            | zero => exact ⟨tv, hc⟩
            | succ k =>
              obtain ⟨tv', h'⟩ := hbefore k (by omega)
              exact ⟨tv', by simpa using h'⟩
      · rintro ⟨i, hi, hci, hbefore⟩
        cases i with
        | zero =>
          simp only [List.getElem_cons_zero] at hci
          rw [hci]
        | succ k =>
          obtain ⟨tv, h0⟩ := hbefore 0 (by omega)
          simp only [List.getElem_cons_zero] at h0
          rw [h0]; simp only []
          have : convertArgs ts vs = .error (.inl e) :=
            (ih vs e hl').2 ⟨k, by simpa using hi, by simpa using hci, fun j hj => by
              obtain ⟨tv', h'⟩ := hbefore (j + 1) (by omega)
              exact ⟨tv', by simpa using h'⟩⟩
          rw [this]

/-- FINDING (statement correction): without the arity premise the `↔` asked for is
false — `convertArgs` ignores surplus parameters (the arity check is made before it
by `executeCommand`). -/
theorem convertArgs_ignores_surplus (v : Value) : convertArgs [] [v] = .ok [] := rfl

/-! ### `execute` in closed form -/

/-- The handler unitSlot a call selects: the query unitSlot iff the header ended in `?`. -/
def unitSlot (call : CommandCall) : Option Nat :=
  if call.query then call.node.query else call.node.command

/-- The declaration (parameter types and user function) a call selects, if any. -/
def resolveCmd {σ : Type} (I : Iface σ) (call : CommandCall) : Option (Cmd σ) :=
  (unitSlot call).bind fun id => I.cmds[id]?

/-- Writing the response the handler returned: the response itself, then for a
query the newline and a flush.  The first failing write is the outcome. -/
def respond (query : Bool) (w : Writer) (resp : Resp) : Writer × ExecRes :=
  match w.writeResp resp with
  | (w', .error e) => (w', .err e)
  | (w', .ok ()) =>
    if query then
      match w'.call (.direct [10]) with
      | (w'', .ok ()) => (w''.flush, .ok)
      | (w'', .error e) => (w'', .err e)
    else (w', .ok)

/-- `respond` never crashes. -/
theorem respond_no_crash (q : Bool) (w : Writer) (resp : Resp) (c : Crash) :
    (respond q w resp).2 ≠ .crash c := by
  unfold respond
  split
  · intro h; cases h
  · split
    · split <;> (intro h; cases h)
    · intro h; cases h

/-- **`execute` in closed form**: look up the unitSlot, check the arity, convert the
parameters left to right, call the handler once, write the response. -/
theorem execute_eq {σ : Type} (I : Iface σ) (call : CommandCall) (w : Writer) (s : σ) :
    execute I call w s =
      match resolveCmd I call with
      | none => (s, w, .err (.std .UndefinedHeader))
      | some c =>
        if call.args.length ≠ c.argTys.length then (s, w, .err (.std .UnexpectedNumberOfParameters))
        else
          match convertArgs c.argTys call.args with
          | .error (.inl e) => (s, w, .err e)
          | .error (.inr cr) => (s, w, .crash cr)
          | .ok tvs =>
            match c.handler s tvs with
            | (s', .error e) => (s', w, .err e)
            | (s', .ok resp) => (s', respond call.query w resp) := by
  unfold execute resolveCmd unitSlot
  cases hs : (if call.query then call.node.query else call.node.command) with
  | none => rfl
  | some id =>
    simp only [Option.bind_some]
    unfold executeCommand
    cases hc : I.cmds[id]? with
    | none => rfl
    | some c =>
      simp only []
      by_cases hl : call.args.length ≠ c.argTys.length
      · rw [if_pos hl, if_pos hl]
      · rw [if_neg hl, if_neg hl]
        cases hca : convertArgs c.argTys call.args with
        | error e => cases e <;> rfl
        | ok tvs =>
          simp only []
          rcases hh : c.handler s tvs with ⟨s', r⟩
          cases r with
          | error e => rfl
          | ok resp =>
            simp only [respond]
            rcases hw : w.writeResp resp with ⟨w', r'⟩
            cases r' with
            | error e => rfl
            | ok u =>
              cases u
              simp only []
              cases call.query with
              | false => rfl
              | true =>
                simp only [if_true]
                rcases hn : w'.call (.direct [10]) with ⟨w'', r''⟩
                cases r'' with
                | error e => rfl
                | ok u => cases u; rfl

/-- The unitSlot is missing: the node has no handler of the kind asked for, or the id
is not in the handler table. -/
theorem resolve_eq_none_iff {σ : Type} (I : Iface σ) (call : CommandCall) :
    resolveCmd I call = none ↔
      unitSlot call = none ∨ ∃ id, unitSlot call = some id ∧ I.cmds.length ≤ id := by
  unfold resolveCmd
  cases unitSlot call with
  | none => simp
  | some id => simp

/-- How writing a response fails: in the response itself, or (queries only) in the
terminating newline. -/
theorem respond_err_iff (q : Bool) (w w' : Writer) (resp : Resp) (e : Err) :
    respond q w resp = (w', .err e) ↔
      w.writeResp resp = (w', .error e) ∨
      ∃ w1, w.writeResp resp = (w1, .ok ()) ∧ q = true ∧ w1.call (.direct [10]) = (w', .error e) := by
  unfold respond
  rcases w.writeResp resp with ⟨w1, (e1 | ⟨⟨⟩⟩)⟩
  · simp
  · cases q
    · simp
    · simp only [↓reduceIte, Prod.mk.injEq, reduceCtorEq, and_false, and_true, true_and,
        exists_eq_left', false_or]
      rcases w1.call (.direct [10]) with ⟨w2, (e2 | ⟨⟨⟩⟩)⟩ <;> simp

theorem respond_ok_iff (q : Bool) (w w' : Writer) (resp : Resp) :
    respond q w resp = (w', .ok) ↔
      ∃ w1, w.writeResp resp = (w1, .ok ()) ∧
        ((q = false ∧ w' = w1) ∨
         (q = true ∧ ∃ w2, w1.call (.direct [10]) = (w2, .ok ()) ∧ w' = w2.flush)) := by
  unfold respond
  rcases w.writeResp resp with ⟨w1, (e1 | ⟨⟨⟩⟩)⟩
  · simp
  · cases q
    · simp [eq_comm]
    · simp only [if_true, Prod.mk.injEq, true_and, reduceCtorEq, exists_eq_left', and_true]
      rcases w1.call (.direct [10]) with ⟨w2, (e2 | ⟨⟨⟩⟩)⟩ <;> simp [eq_comm]

/-- **The five ways a unit can fail in execution** (and nothing else): see
`Scpi.C06.execute_err_cases`. -/
theorem execute_err_cases' {σ : Type} (I : Iface σ) (call : CommandCall) (w w' : Writer) (s s' : σ)
    (e : Err) (h : execute I call w s = (s', w', .err e)) :
    (resolveCmd I call = none ∧ e = .std .UndefinedHeader ∧ s' = s ∧ w' = w) ∨
    ∃ c, resolveCmd I call = some c ∧
      ((call.args.length ≠ c.argTys.length ∧ e = .std .UnexpectedNumberOfParameters ∧
          s' = s ∧ w' = w) ∨
       (call.args.length = c.argTys.length ∧ convertArgs c.argTys call.args = .error (.inl e) ∧
          s' = s ∧ w' = w) ∨
       ∃ tvs, call.args.length = c.argTys.length ∧ convertArgs c.argTys call.args = .ok tvs ∧
         ((c.handler s tvs = (s', .error e) ∧ w' = w) ∨
          ∃ resp, c.handler s tvs = (s', .ok resp) ∧ respond call.query w resp = (w', .err e))) := by
  rw [execute_eq] at h
  cases hr : resolveCmd I call with
  | none => rw [hr] at h; cases h; exact Or.inl ⟨rfl, rfl, rfl, rfl⟩
  | some c =>
    rw [hr] at h
    refine Or.inr ⟨c, rfl, ?_⟩
    simp only [] at h
    by_cases hl : call.args.length ≠ c.argTys.length
    · rw [if_pos hl] at h; cases h; exact Or.inl ⟨hl, rfl, rfl, rfl⟩
    · rw [if_neg hl] at h
      have hl' : call.args.length = c.argTys.length := Decidable.of_not_not hl
      cases hca : convertArgs c.argTys call.args with
      | error e' =>
        rw [hca] at h
        cases e' with
        | inl e1 => cases h; exact Or.inr (Or.inl ⟨hl', rfl, rfl, rfl⟩)
        | inr cr => cases h
      | ok tvs =>
        rw [hca] at h
        refine Or.inr (Or.inr ⟨tvs, hl', rfl, ?_⟩)
        simp only [] at h
        rcases hh : c.handler s tvs with ⟨s1, r⟩
        rw [hh] at h
        cases r with
        | error e1 => cases h; exact Or.inl ⟨rfl, rfl⟩
        | ok resp =>
          simp only [Prod.mk.injEq] at h
          obtain ⟨h1, h2⟩ := h
          subst h1
          exact Or.inr ⟨resp, rfl, h2⟩

/-- A unit that executes successfully: the handler ran once, on exactly the converted
parameters, and its response was written completely. -/
theorem execute_ok_cases' {σ : Type} (I : Iface σ) (call : CommandCall) (w w' : Writer) (s s' : σ)
    (h : execute I call w s = (s', w', .ok)) :
    ∃ c tvs resp, resolveCmd I call = some c ∧ call.args.length = c.argTys.length ∧
      convertArgs c.argTys call.args = .ok tvs ∧ c.handler s tvs = (s', .ok resp) ∧
      respond call.query w resp = (w', .ok) := by
  rw [execute_eq] at h
  cases hr : resolveCmd I call with
  | none => rw [hr] at h; cases h
  | some c =>
    rw [hr] at h
    simp only [] at h
    by_cases hl : call.args.length ≠ c.argTys.length
    · rw [if_pos hl] at h; cases h
    · rw [if_neg hl] at h
      have hl' : call.args.length = c.argTys.length := Decidable.of_not_not hl
      cases hca : convertArgs c.argTys call.args with
      | error e' =>
        rw [hca] at h
        cases e' <;> cases h
      | ok tvs =>
        rw [hca] at h
        simp only [] at h
        rcases hh : c.handler s tvs with ⟨s1, r⟩
        rw [hh] at h
        cases r with
        | error e1 => cases h
        | ok resp =>
          simp only [Prod.mk.injEq] at h
          obtain ⟨h1, h2⟩ := h
          subst h1
          exact ⟨c, tvs, resp, rfl, hl', hca, hh, h2⟩

end Scpi
