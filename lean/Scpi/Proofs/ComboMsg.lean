/-
Rendered messages as complete messages of the stream machine.

`specMessages` is the byte-free, parser-free meaning of a SEQUENCE of messages handed
to `process::<N>`: `specExec` message by message from the root, a fresh `n`-byte
response writer per message, every non-empty response written and flushed.

`isMessage_render`: the rendering of a non-empty well-formed message without newline in
its payloads that is at most `n` bytes long is a complete message (`IsMessage`) for an
`n`-byte command buffer; `runMessages_render`: `run` message by message on the
renderings is `specMessages` on the unit lists.
-/
import Scpi.Props.RunRender
import Scpi.Props.C07
import Scpi.Proofs.MsgCor

namespace Scpi
namespace Combo
open Msg

/-- **The meaning of a sequence of messages for `process::<n>`**: each message (a list
of units) is executed by `specExec` from the root with a fresh `n`-byte response
writer on the user state the previous message left; a non-empty response is written
and flushed (`[.w buf, .f]`).  Result: the final user state and the writes and flushes
appended to `out`. -/
def specMessages {σ : Type} (I : Iface σ) (n : Nat) : List (List MsgUnit) → σ → List PEv → σ × List PEv
  | [], s, out => (s, out)
  | us :: rest, s, out =>
    let r := specExec I I.root us { cap := some n } s
    specMessages I n rest r.2 (out ++ (if r.1.buf = [] then [] else [PEv.w r.1.buf, PEv.f]))

/-- The hypotheses on one message of the theorems about `process`: non-empty,
well-formed, no newline in a string or block payload, and the rendering fits the
`n`-byte command buffer. -/
structure Sendable (n : Nat) (m : List (MsgUnit × Lex)) : Prop where
  ne : m ≠ []
  wf : wfMsg m = true
  nlFree : (units m).all unitNlFree = true
  fits : (renderMsg m).length ≤ n

/-- The rendering of a message without newlines in payloads is a newline-free body
followed by the terminator. -/
theorem renderMsg_shape : ∀ {m : List (MsgUnit × Lex)}, m ≠ [] → wfMsg m = true →
    (units m).all unitNlFree = true → ∃ body, renderMsg m = body ++ [10] ∧ noNl body = true
  | [], h, _, _ => absurd rfl h
  | [(u, ℓ)], _, hw, hn => by
    simp only [wfMsg, List.all_cons, List.all_nil, Bool.and_true, Bool.and_eq_true] at hw
    simp only [units, List.map_cons, List.map_nil, List.all_cons, List.all_nil, Bool.and_true] at hn
    refine ⟨unitBody u ℓ, ?_, body_noNl hw.1.1 hw.1.2 hn⟩
    have := render_eq_body u ℓ .nl []
    simpa only [List.append_nil, Term.byte, renderMsg] using this
  | (u, ℓ) :: p :: m, _, hw, hn => by
    simp only [wfMsg, List.all_cons, Bool.and_eq_true] at hw
    simp only [units, List.map_cons, List.all_cons, Bool.and_eq_true] at hn
    obtain ⟨body, hb, hnb⟩ := renderMsg_shape (m := p :: m) (by simp)
      (by simp only [wfMsg, List.all_cons, Bool.and_eq_true]; exact hw.2)
      (by simp only [units, List.map_cons, List.all_cons, Bool.and_eq_true]; exact hn.2)
    refine ⟨unitBody u ℓ ++ 59 :: body, ?_,
      noNl_append (body_noNl hw.1.1.1 hw.1.1.2 hn.1) (noNl_cons (by decide) hnb)⟩
    simp only [renderMsg]
    rw [render_eq_body u ℓ .semi, hb]
    simp only [Term.byte, List.append_assoc, List.cons_append]

/-- **A rendered message is a complete message of the stream machine.** -/
theorem isMessage_render {σ : Type} (I : Iface σ) (n : Nat) {m : List (MsgUnit × Lex)}
    (h : Sendable n m) : IsMessage I n (renderMsg m) := by
  obtain ⟨body, hb, hnb⟩ := renderMsg_shape h.ne h.wf h.nlFree
  refine ⟨⟨body, hb, ?_⟩, h.fits, fun w s => ?_⟩
  · simp only [noNl, List.all_eq_true, bne_iff_ne, ne_eq] at hnb
    exact hnb
  · rw [run_render_run I m w s h.ne h.wf (dropSafe_of_nlFree I.root I.root _ h.nlFree)]

/-- `run` message by message on the renderings is `specExec` message by message. -/
theorem runMessages_render {σ : Type} (I : Iface σ) (n : Nat) :
    ∀ (ms : List (List (MsgUnit × Lex))) (s : σ) (out : List PEv),
    (∀ m ∈ ms, Sendable n m) →
    runMessages I n (ms.map renderMsg) s out = specMessages I n (ms.map units) s out
  | [], _, _, _ => rfl
  | m :: ms, s, out, h => by
    have hm := h m List.mem_cons_self
    simp only [List.map_cons, runMessages, specMessages]
    rw [run_render_run I m _ s hm.ne hm.wf (dropSafe_of_nlFree I.root I.root _ hm.nlFree)]
    exact runMessages_render I n ms _ _ fun x hx => h x (List.mem_cons_of_mem _ hx)

/-- Two sequences of unit lists that differ, message by message, only in the letter
case of the header mnemonics (`SameUpToCase`). -/
def SameMsgsUpToCase : List (List MsgUnit) → List (List MsgUnit) → Prop
  | [], [] => True
  | us :: a, vs :: b => SameUpToCase us vs ∧ SameMsgsUpToCase a b
  | _, _ => False

/-- `specMessages` does not see the letter case of the header mnemonics. -/
theorem specMessages_sameUpToCase {σ : Type} (I : Iface σ) (n : Nat) :
    ∀ (a b : List (List MsgUnit)), SameMsgsUpToCase a b → ∀ (s : σ) (out : List PEv),
    specMessages I n a s out = specMessages I n b s out
  | [], [], _, _, _ => rfl
  | [], _ :: _, h, _, _ => absurd h id
  | _ :: _, [], h, _, _ => absurd h id
  | us :: a, vs :: b, h, s, out => by
    simp only [specMessages, specExec_sameUpToCase I _ _ h.1]
    exact specMessages_sameUpToCase I n a b h.2 _ _

/-- `Sendable` but for the length is preserved by a change of letter case and of
white space. -/
theorem nlFree_of_sameUpToCase {m₁ m₂ : List (MsgUnit × Lex)} (h : SameUpToCase (units m₁) (units m₂))
    (h₁ : (units m₁).all unitNlFree = true) : (units m₂).all unitNlFree = true := by
  rw [← nlFree_sameUpToCase _ _ h]; exact h₁

end Combo
end Scpi
