/-
`Good` for the argument list, the header recognisers and `parse`; `parse`
consumes at least one byte when it succeeds (T12.2) and never crashes.
-/
import Scpi.Proofs.Good

namespace Scpi

/-- A successful argument separator consumed the comma. -/
theorem argumentSeparator_lt {i r : Bytes} {u : Unit} (h : argumentSeparator i = .ok r u) :
    r.length < i.length := by
  unfold argumentSeparator at h
  obtain ⟨i1, _, e1, h⟩ := bind_eq_ok h
  obtain ⟨i2, _, e2, h⟩ := bind_eq_ok h
  obtain ⟨i3, _, e3, h⟩ := bind_eq_ok h
  cases h
  have s1 := ((good_optP good_whitespace i).suffix _ _ e1).length_le
  have l2 := satisfy_ok_length (mapErr_eq_ok e2)
  have s3 := ((good_optP good_whitespace i2).suffix _ _ e3).length_le
  omega

theorem headerSeparator_lt {i r : Bytes} {u : Unit} (h : headerSeparator i = .ok r u) :
    r.length < i.length := by
  unfold headerSeparator at h
  obtain ⟨i1, _, e1, h⟩ := bind_eq_ok h
  obtain ⟨i2, _, e2, h⟩ := bind_eq_ok h
  obtain ⟨i3, _, e3, h⟩ := bind_eq_ok h
  cases h
  have s1 := ((good_optP good_whitespace i).suffix _ _ e1).length_le
  have l2 := satisfy_ok_length (mapErr_eq_ok e2)
  have s3 := ((good_optP good_whitespace i2).suffix _ _ e3).length_le
  omega

theorem good_headerSeparator : Good headerSeparator := by
  intro input
  unfold headerSeparator
  refine rgood_bind (good_optP good_whitespace input) fun i1 _ _ h1 => ?_
  refine rgood_bind (rgood_mapErr ((good_tag 58 i1).mono h1)) fun i2 _ _ h2 => ?_
  refine rgood_bind ((good_optP good_whitespace i2).mono h2) fun i3 _ _ h3 => ?_
  exact rgood_ok h3

/-- The argument loop with enough fuel: no crash, rest is a suffix. -/
theorem argsLoop_good : ∀ (fuel : Nat) (args : List Value) (input : Bytes),
    input.length < fuel → RGood input (argsLoop fuel args input).1 := by
  intro fuel
  induction fuel with
  | zero => intro args input h; omega
  | succ n ih =>
    intro args input hlt
    unfold argsLoop
    cases hs : argumentSeparator input with
    | ok i u =>
      have hi := (good_argumentSeparator input).suffix _ _ hs
      have hil := argumentSeparator_lt hs
      simp only []
      cases ha : argument i with
      | ok i2 arg =>
        have hi2 := (good_argument i).suffix _ _ ha
        simp only []
        split
        · exact (ih _ i2 (by have := hi2.length_le; omega)).mono (hi2.trans hi)
        · show RGood input (ofErr StdErr.UnexpectedNumberOfParameters)
          exact rgood_ofErr
      | soft e => exact rgood_soft
      | fatal e => exact rgood_fatal
      | incomplete => exact rgood_incomplete
      | crash c => exact absurd ha ((good_argument i).noCrash c)
    | soft e => exact rgood_ok (List.suffix_refl _)
    | fatal e => exact rgood_fatal
    | incomplete => exact rgood_incomplete
    | crash c => exact absurd hs ((good_argumentSeparator input).noCrash c)

theorem arguments_good (input : Bytes) : RGood input (arguments input).1 := by
  unfold arguments
  cases ha : argument input with
  | ok i arg =>
    have hi := (good_argument input).suffix _ _ ha
    simp only [maxArgs, Nat.zero_lt_succ, if_true]
    exact (argsLoop_good _ _ i (Nat.lt_succ_self _)).mono hi
  | soft e => exact rgood_soft
  | fatal e => exact rgood_fatal
  | incomplete => exact rgood_incomplete
  | crash c => exact absurd ha ((good_argument input).noCrash c)

theorem lookup_rgood {α : Type} {input : Bytes} {node : Node} {name : Bytes} {k : Node → PResult α}
    (hk : ∀ n, RGood input (k n)) : RGood input (lookup node name k) := by
  unfold lookup
  refine fromUtf8_rgood fun s => ?_
  split
  · exact hk _
  · exact rgood_ofErr

theorem good_commonHeader (root : Node) : Good (commonHeader root) := by
  intro input
  unfold commonHeader
  refine rgood_bind (rgood_mapErr (good_tag 42 input)) fun i1 star _ h1 => ?_
  refine rgood_bind ((good_mnemonic i1).mono h1) fun i2 res _ h2 => ?_
  exact lookup_rgood fun n => rgood_ok h2

theorem headerLoop_good : ∀ (fuel : Nat) (node header : Node) (input : Bytes),
    input.length < fuel → RGood input (headerLoop fuel node header input) := by
  intro fuel
  induction fuel with
  | zero => intro _ _ input h; omega
  | succ n ih =>
    intro node header input hlt
    unfold headerLoop
    cases hs : headerSeparator input with
    | ok i u =>
      have hi := (good_headerSeparator input).suffix _ _ hs
      have hil := headerSeparator_lt hs
      simp only []
      refine rgood_bind ((good_mnemonic i).mono hi) fun i2 res e2 h2 => ?_
      have h2i := (good_mnemonic i).suffix _ _ e2
      exact lookup_rgood fun child =>
        (ih child node i2 (by have := h2i.length_le; omega)).mono h2
    | soft e => exact rgood_ok (List.suffix_refl _)
    | fatal e => exact rgood_fatal
    | incomplete => exact rgood_incomplete
    | crash c => exact absurd hs ((good_headerSeparator input).noCrash c)

theorem good_compoundHeader (root header : Node) : Good (compoundHeader root header) := by
  intro input
  unfold compoundHeader
  refine rgood_bind (good_optP good_headerSeparator input) fun i1 rc _ h1 => ?_
  simp only []
  refine rgood_bind ((good_mnemonic i1).mono h1) fun i2 res _ h2 => ?_
  exact lookup_rgood fun n => (headerLoop_good _ _ _ i2 (Nat.lt_succ_self _)).mono h2

theorem good_commandHeader (root header : Node) : Good (commandHeader root header) := by
  intro input
  unfold commandHeader
  exact rgood_orElse (good_compoundHeader root header input) (good_commonHeader root input)

end Scpi

namespace Scpi

/-- `r` is good and, when it succeeds, consumed at least one byte of `input`. -/
structure RStrict {α : Type} (input : Bytes) (r : PResult α) : Prop extends RGood input r where
  lt : ∀ rest v, r = .ok rest v → rest.length < input.length

theorem parseTail_strict {input i6 : Bytes} (nh : Node × Option Node) (q : Bool) (args : List Value)
    (h6 : i6 <:+ input) : RStrict input (parseTail nh q i6 args) := by
  have hg : RGood input (parseTail nh q i6 args) := by
    unfold parseTail
    refine rgood_bind ((good_optP good_whitespace i6).mono h6) fun i7 _ _ h7 => ?_
    refine rgood_bind (rgood_orElse (rgood_map ((good_tag 10 i7).mono h7))
      (rgood_map ((good_tag 59 i7).mono h7))) fun i8 _ _ h8 => ?_
    exact rgood_ok h8
  refine ⟨hg, fun rest v h => ?_⟩
  unfold parseTail at h
  obtain ⟨i7, _, e7, h⟩ := bind_eq_ok h
  obtain ⟨i8, t, e8, h⟩ := bind_eq_ok h
  have hr : rest = i8 := by cases h; rfl
  subst hr
  have s7 := ((good_optP good_whitespace i6).suffix _ _ e7).length_le
  have s6 := h6.length_le
  have l8 : rest.length + 1 = i7.length := by
    rcases orElse_eq_ok e8 with e | e
    · obtain ⟨_, e, _⟩ := map_eq_ok e; exact satisfy_ok_length e
    · obtain ⟨_, e, _⟩ := map_eq_ok e; exact satisfy_ok_length e
  omega

theorem parseArgs_strict {input i5 : Bytes} (nh : Node × Option Node) (q : Bool) (hasArgs : Bool)
    (h5 : i5 <:+ input) : RStrict input (parseArgs nh q i5 hasArgs) := by
  unfold parseArgs
  split
  · have ha := arguments_good i5
    split
    · next i6 u args e =>
      have : (arguments i5).1 = .ok i6 u := by rw [e]
      exact parseTail_strict nh q args ((ha.suffix _ _ this).trans h5)
    · exact parseTail_strict nh q _ h5
    · exact ⟨rgood_fatal, fun _ _ h => by cases h⟩
    · exact ⟨rgood_incomplete, fun _ _ h => by cases h⟩
    · next c args e =>
      have : (arguments i5).1 = .crash c := by rw [e]
      exact absurd this (ha.noCrash c)
  · exact parseTail_strict nh q [] h5

theorem queryMark_suffix (i3 : Bytes) : (queryMark i3).1 <:+ i3 := by
  unfold queryMark
  split
  · next r b e => exact (good_tag 63 i3).suffix _ _ e
  · exact List.suffix_refl _

theorem parseAfterHeader_strict {input i3 : Bytes} (nh : Node × Option Node) (h3 : i3 <:+ input) :
    RStrict input (parseAfterHeader nh i3) := by
  unfold parseAfterHeader
  have hq := (queryMark_suffix i3).trans h3
  cases e5 : whitespace (queryMark i3).1 with
  | ok i5 w5 =>
    exact parseArgs_strict nh _ true (((good_whitespace _).suffix _ _ e5).trans hq)
  | soft e => exact parseArgs_strict nh _ false hq
  | fatal e => exact ⟨rgood_fatal, fun _ _ h => by cases h⟩
  | incomplete => exact ⟨rgood_incomplete, fun _ _ h => by cases h⟩
  | crash c => exact absurd e5 ((good_whitespace _).noCrash c)

/-- **`parse` never crashes, returns a suffix of its input and, when it accepts,
consumes at least one byte** (C05 / C12). -/
theorem parse_strict (root header : Node) (input : Bytes) : RStrict input (parse root header input) := by
  unfold parse
  cases e1 : optP whitespace input with
  | soft e => exact ⟨rgood_soft, fun _ _ h => by cases h⟩
  | fatal e => exact ⟨rgood_fatal, fun _ _ h => by cases h⟩
  | incomplete => exact ⟨rgood_incomplete, fun _ _ h => by cases h⟩
  | crash c => exact absurd e1 ((good_optP good_whitespace input).noCrash c)
  | ok i1 w =>
    have h1 := (good_optP good_whitespace input).suffix _ _ e1
    simp only [PResult.bind]
    cases e2 : optP (tag 10) i1 with
    | soft e => exact ⟨rgood_soft, fun _ _ h => by cases h⟩
    | fatal e => exact ⟨rgood_fatal, fun _ _ h => by cases h⟩
    | incomplete => exact ⟨rgood_incomplete, fun _ _ h => by cases h⟩
    | crash c => exact absurd e2 ((good_optP (good_tag 10) i1).noCrash c)
    | ok i2 t =>
      have h2 := (good_optP (good_tag 10) i1).suffix _ _ e2
      simp only []
      split
      · next hsome =>
        refine ⟨rgood_ok (h2.trans h1), fun rest v h => ?_⟩
        have hr : rest = i2 := by cases h; rfl
        subst hr
        -- the terminator was consumed
        unfold optP at e2
        cases e3 : tag 10 i1 with
        | ok r b =>
          rw [e3] at e2; cases e2
          have := satisfy_ok_length e3
          have := h1.length_le
          omega
        | soft e => rw [e3] at e2; cases e2; simp at hsome
        | fatal e => rw [e3] at e2; cases e2; simp at hsome
        | incomplete => rw [e3] at e2; cases e2; simp at hsome
        | crash c => rw [e3] at e2; cases e2
      · cases e3 : commandHeader root header i2 with
        | soft e => exact ⟨rgood_soft, fun _ _ h => by cases h⟩
        | fatal e => exact ⟨rgood_fatal, fun _ _ h => by cases h⟩
        | incomplete => exact ⟨rgood_incomplete, fun _ _ h => by cases h⟩
        | crash c => exact absurd e3 ((good_commandHeader root header i2).noCrash c)
        | ok i3 nh =>
          have h3 := ((good_commandHeader root header i2).suffix _ _ e3).trans (h2.trans h1)
          exact parseAfterHeader_strict nh h3

end Scpi
