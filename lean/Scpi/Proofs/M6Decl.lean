/-
C01, declaration side — helper lemmas about the attribute macro's declaration parser
(`Scpi/Macro.lean`: `trimBytes`, `splitColon`, `parsePart`, `parseParts`,
`Command.parse`).
-/
import Scpi.Macro
import Scpi.Spec.Ast
import Scpi.Proofs.MacroKeys

namespace Scpi
namespace M6

/-! ### Vocabulary -/

/-- The short form: the declared name with its lower-case ASCII letters removed. -/
def dropLower (name : Bytes) : Bytes := name.filter fun c => !isLowerAscii c

/-- The long form: the declared name with its lower-case ASCII letters upper-cased. -/
def upper (name : Bytes) : Bytes := name.map toUpperAscii

/-- A trimmed declaration part as a declared node: `[name]` is the optional node `name`,
anything else is a mandatory node with the text itself as its name. -/
def declNode (part : Bytes) : Bytes × Bool :=
  if part.head? == some 91 && part.getLast? == some 93 then
    ((part.drop 1).take (part.length - 2), true)
  else (part, false)

/-- The `Part` of a declared node. -/
def partOfNode (n : Bytes × Bool) : Part :=
  { optional := n.2, short := dropLower n.1, long := upper n.1 }

/-- The part a colon-separated piece of a declaration contributes: none when it is
blank, else the part of the node it declares. -/
def partOf (raw : Bytes) : Option Part :=
  if trimBytes raw = [] then none else some (partOfNode (declNode (trimBytes raw)))

/-! ### Trimming -/

theorem dropWhile_append_stop {p : Nat → Bool} : ∀ (pre rest : Bytes),
    (∀ x ∈ pre, p x = true) → (∀ b, rest.head? = some b → p b = false) →
    (pre ++ rest).dropWhile p = rest
  | [], rest, _, h => by
    cases rest with
    | nil => rfl
    | cons b r =>
      have := h b rfl
      simp [this]
  | x :: pre, rest, hp, h => by
    have hx := hp x List.mem_cons_self
    simp only [List.cons_append, List.dropWhile_cons, hx, if_true]
    exact dropWhile_append_stop pre rest (fun y hy => hp y (List.mem_cons_of_mem _ hy)) h

theorem dropWhile_all {p : Nat → Bool} : ∀ (s : Bytes), (∀ x ∈ s, p x = true) → s.dropWhile p = []
  | [], _ => rfl
  | x :: s, h => by
    simp only [List.dropWhile_cons, h x List.mem_cons_self, if_true]
    exact dropWhile_all s fun y hy => h y (List.mem_cons_of_mem _ hy)

theorem head_dropWhile {p : Nat → Bool} : ∀ (s : Bytes) (b : Nat),
    (s.dropWhile p).head? = some b → p b = false
  | [], _, h => by cases h
  | x :: s, b, h => by
    rw [List.dropWhile_cons] at h
    by_cases hx : p x = true
    · rw [if_pos hx] at h; exact head_dropWhile s b h
    · rw [if_neg hx] at h
      simp only [List.head?_cons, Option.some.injEq] at h
      subst h
      simpa using hx

/-- **`trimBytes` determines a decomposition** `s = pre ++ trimBytes s ++ post` into
leading white space, a text that neither begins nor ends with white space, and trailing
white space … -/
theorem trimBytes_decomp (s : Bytes) :
    ∃ pre post, s = pre ++ trimBytes s ++ post ∧
      (∀ x ∈ pre, isTrimWs x = true) ∧ (∀ x ∈ post, isTrimWs x = true) ∧
      (∀ b, (trimBytes s).head? = some b → isTrimWs b = false) ∧
      (∀ b, (trimBytes s).getLast? = some b → isTrimWs b = false) := by
  let t := s.dropWhile isTrimWs
  let r := t.reverse.dropWhile isTrimWs
  have ht : s = s.takeWhile isTrimWs ++ t := (List.takeWhile_append_dropWhile).symm
  have hr : t.reverse = t.reverse.takeWhile isTrimWs ++ r := (List.takeWhile_append_dropWhile).symm
  have htr : trimBytes s = r.reverse := rfl
  have ht2 : t = r.reverse ++ (t.reverse.takeWhile isTrimWs).reverse := by
    have := congrArg List.reverse hr
    simpa using this
  refine ⟨s.takeWhile isTrimWs, (t.reverse.takeWhile isTrimWs).reverse, ?_, ?_, ?_, ?_, ?_⟩
  · rw [htr, List.append_assoc, ← ht2]; exact ht
  · intro x hx; exact List.all_eq_true.1 List.all_takeWhile x hx
  · intro x hx; exact List.all_eq_true.1 List.all_takeWhile x (List.mem_reverse.1 hx)
  · intro b hb
    rw [htr] at hb
    have hth : t.head? = some b := by
      rw [ht2]
      cases hrr : r.reverse with
      | nil => rw [hrr] at hb; cases hb
      | cons y ys => rw [hrr] at hb; simpa using hb
    exact head_dropWhile s b hth
  · intro b hb
    rw [htr, List.getLast?_reverse] at hb
    exact head_dropWhile t.reverse b hb

/-- … and is the only such text. -/
theorem trimBytes_unique (pre t post : Bytes) (hpre : ∀ x ∈ pre, isTrimWs x = true)
    (hpost : ∀ x ∈ post, isTrimWs x = true) (hh : ∀ b, t.head? = some b → isTrimWs b = false)
    (hl : ∀ b, t.getLast? = some b → isTrimWs b = false) : trimBytes (pre ++ t ++ post) = t := by
  unfold trimBytes
  cases t with
  | nil =>
    have : (pre ++ [] ++ post).dropWhile isTrimWs = [] :=
      dropWhile_all _ fun x hx => by
        simp only [List.append_nil, List.mem_append] at hx
        rcases hx with hx | hx
        · exact hpre x hx
        · exact hpost x hx
    rw [this]; rfl
  | cons b t' =>
    have h1 : (pre ++ (b :: t') ++ post).dropWhile isTrimWs = (b :: t') ++ post := by
      rw [List.append_assoc]
      exact dropWhile_append_stop pre _ hpre fun c hc => hh c (by simpa using hc)
    rw [h1, List.reverse_append]
    have h2 : (post.reverse ++ (b :: t').reverse).dropWhile isTrimWs = (b :: t').reverse :=
      dropWhile_append_stop post.reverse _ (fun x hx => hpost x (List.mem_reverse.1 hx))
        fun c hc => hl c (by rw [List.head?_reverse] at hc; exact hc)
    rw [h2, List.reverse_reverse]

/-! ### Splitting at colons -/

theorem splitColon_spec : ∀ (s cur : Bytes), 58 ∉ cur →
    splitColon s cur ≠ [] ∧ (∀ p ∈ splitColon s cur, 58 ∉ p) ∧
    renderPath (splitColon s cur) = cur ++ s
  | [], cur, hc => by
    simp only [splitColon, ne_eq, List.cons_ne_self, not_false_eq_true, List.mem_singleton,
      forall_eq, renderPath, List.append_nil, and_true, true_and]
    exact hc
  | b :: rest, cur, hc => by
    simp only [splitColon]
    by_cases hb : b = 58
    · subst hb
      obtain ⟨h1, h2, h3⟩ := splitColon_spec rest [] (by simp)
      simp only [beq_self_eq_true, if_true]
      refine ⟨by simp, ?_, ?_⟩
      · intro p hp
        rcases List.mem_cons.1 hp with rfl | hp
        · exact hc
        · exact h2 p hp
      · cases hsp : splitColon rest [] with
        | nil => exact absurd hsp h1
        | cons x xs =>
          rw [hsp] at h3
          simp only [renderPath, h3, List.nil_append]
    · have hb' : (b == 58) = false := by simpa using hb
      simp only [hb', Bool.false_eq_true, if_false]
      have hc' : 58 ∉ cur ++ [b] := by
        simp only [List.mem_append, List.mem_singleton, not_or]
        exact ⟨hc, fun h => hb h.symm⟩
      obtain ⟨h1, h2, h3⟩ := splitColon_spec rest (cur ++ [b]) hc'
      exact ⟨h1, h2, by rw [h3]; simp⟩

theorem splitColon_append : ∀ (p rest cur : Bytes), 58 ∉ p →
    splitColon (p ++ rest) cur = splitColon rest (cur ++ p)
  | [], rest, cur, _ => by simp
  | b :: p, rest, cur, h => by
    have hb : (b == 58) = false := by
      have : b ≠ 58 := fun e => h (by simp [e])
      simpa using this
    simp only [List.cons_append, splitColon, hb, Bool.false_eq_true, if_false]
    rw [splitColon_append p rest (cur ++ [b]) fun hp => h (List.mem_cons_of_mem _ hp)]
    simp

/-- `splitColon` is the only way to cut a text into colon-free pieces joined by colons. -/
theorem splitColon_unique : ∀ (ps : List Bytes), ps ≠ [] → (∀ p ∈ ps, 58 ∉ p) →
    splitColon (renderPath ps) [] = ps
  | [], h, _ => absurd rfl h
  | [p], _, hp => by
    have := splitColon_append p [] [] (hp p (by simp))
    simpa [renderPath, splitColon] using this
  | p :: q :: ps, _, hp => by
    have h1 := splitColon_append p (58 :: renderPath (q :: ps)) [] (hp p (by simp))
    rw [renderPath, h1]
    simp only [List.nil_append, splitColon, beq_self_eq_true, if_true, List.cons.injEq, true_and]
    exact splitColon_unique (q :: ps) (by simp) fun x hx => hp x (List.mem_cons_of_mem _ hx)
    · simp

/-! ### One part -/

/-- A text that starts with `[` and ends with `]` has at least two bytes: the slice
`&part[1..part.len() - 1]` of command.rs never panics. -/
theorem bracket_len (part : Bytes) (h1 : part.head? = some 91) (h2 : part.getLast? = some 93) :
    2 ≤ part.length := by
  cases part with
  | nil => cases h1
  | cons x t =>
    cases t with
    | nil =>
      simp only [List.head?_cons, Option.some.injEq] at h1
      simp only [List.getLast?_singleton, Option.some.injEq] at h2
      omega
    | cons y t => simp

theorem parsePart_eq (raw : Bytes) : parsePart raw = .ok (partOf raw) := by
  unfold parsePart partOf
  simp only []
  by_cases he : trimBytes raw = []
  · simp [he]
  · have he' : (trimBytes raw).isEmpty = false := by
      cases h : trimBytes raw with
      | nil => exact absurd h he
      | cons _ _ => rfl
    simp only [he', Bool.false_eq_true, if_false, if_neg he]
    by_cases hb : ((trimBytes raw).head? == some 91 && (trimBytes raw).getLast? == some 93) = true
    · have hlen : ¬ (trimBytes raw).length < 2 := by
        simp only [Bool.and_eq_true, beq_iff_eq] at hb
        have := bracket_len _ hb.1 hb.2
        omega
      simp only [hb, hlen, and_false, if_false, if_true, declNode, partOfNode, dropLower, upper]
    · simp only [hb, false_and, if_false, declNode, partOfNode, dropLower, upper, Bool.false_eq_true]

theorem declNode_bracketed (name : Bytes) : declNode (91 :: name ++ [93]) = (name, true) := by
  unfold declNode
  have h1 : (91 :: name ++ [93]).head? = some 91 := rfl
  have h2 : (91 :: name ++ [93]).getLast? = some 93 := by
    rw [show (91 :: name ++ [93]) = (91 :: name) ++ [93] from rfl, List.getLast?_append]
    rfl
  simp only [h1, h2, beq_self_eq_true, Bool.and_self, if_true, Prod.mk.injEq, and_true]
  simp

theorem declNode_plain (part : Bytes) (h : ¬ ∃ name, part = 91 :: name ++ [93]) :
    declNode part = (part, false) := by
  unfold declNode
  by_cases hb : (part.head? == some 91 && part.getLast? == some 93) = true
  · exfalso
    apply h
    simp only [Bool.and_eq_true, beq_iff_eq] at hb
    have hlen := bracket_len _ hb.1 hb.2
    cases part with
    | nil => cases hb.1
    | cons x t =>
      simp only [List.head?_cons, Option.some.injEq] at hb
      obtain ⟨hx, hl⟩ := hb
      subst hx
      have hne : t ≠ [] := by
        intro e; subst e; simp at hlen
      refine ⟨t.dropLast, ?_⟩
      have hl' : t.getLast? = some 93 := by
        cases t with
        | nil => exact absurd rfl hne
        | cons y t' => simpa [List.getLast?_cons_cons] using hl
      have : t = t.dropLast ++ [93] := by
        have h3 := List.dropLast_concat_getLast hne
        rw [List.getLast?_eq_some_getLast hne] at hl'
        simp only [Option.some.injEq] at hl'
        rw [hl'] at h3
        exact h3.symm
      rw [List.cons_append, ← this]
  · simp only [hb, Bool.false_eq_true, if_false]

/-! ### All parts, and the declaration -/

theorem parseParts_eq : ∀ (rs : List Bytes), parseParts rs = .ok (rs.filterMap partOf)
  | [] => rfl
  | r :: rs => by
    simp only [parseParts, parsePart_eq r, parseParts_eq rs, List.filterMap_cons]
    cases partOf r <;> rfl

/-! ### Case-insensitive comparison with the forms -/

theorem toLower_toUpper (b : Nat) : toLowerAscii (toUpperAscii b) = toLowerAscii b := by
  unfold toLowerAscii toUpperAscii
  split <;> split <;> (try split) <;> omega

theorem eqIgnoreAsciiCase_upper (name x : Bytes) :
    eqIgnoreAsciiCase (upper name) x = eqIgnoreAsciiCase name x := by
  rw [eqIgnoreAsciiCase_eq, eqIgnoreAsciiCase_eq, upper, List.map_map]
  congr 2
  funext b
  exact toLower_toUpper b

end M6
end Scpi
