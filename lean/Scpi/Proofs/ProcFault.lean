/-
The run of `process` with an injected fault at adapter call `k` is the run without
fault, cut at call `k` (C10, T10.3): same successful calls before, the fault code
returned at once.
-/
import Scpi.Proofs.ProcTrace

namespace Scpi
namespace Proc

theorem faultAt_ne {k j : Nat} {code : Int} (h : j ≠ k) : faultAt (some (k, code)) j = none := by
  simp [faultAt, Ne.symm h]

theorem faultAt_self (k : Nat) (code : Int) : faultAt (some (k, code)) k = some code := by
  simp [faultAt]

/-! ### traces only grow -/

theorem respWrite_ext {σ : Type} (fault : Option (Nat × Int)) (st : PState σ) (b : Bytes) :
    ∃ ext, (respWrite fault st b).1.trace = st.trace ++ ext ∧
      (respWrite fault st b).1.calls = st.calls + ext.length := by
  unfold respWrite
  split
  · exact ⟨[], by simp⟩
  · split
    · exact ⟨[], by simp⟩
    · simp only []
      split
      · exact ⟨[PEv.w b], rfl, rfl⟩
      · exact ⟨[PEv.w b, PEv.f], by simp, rfl⟩

/-- The state carried by the result of a step. -/
def stOfInner {σ : Type} : PState σ ⊕ (PState σ × Option PEnd) → PState σ
  | .inl s => s
  | .inr r => r.1

theorem innerStep_ext {σ : Type} (I : Iface σ) (n : Nat) (fault : Option (Nat × Int))
    (readEnd : Nat) (st : PState σ) :
    ∃ ext, (stOfInner (innerStep I n fault readEnd st)).trace = st.trace ++ ext ∧
      (stOfInner (innerStep I n fault readEnd st)).calls = st.calls + ext.length := by
  unfold innerStep
  cases slice st.buf st.readOff readEnd with
  | none => exact ⟨[], by simp [stOfInner]⟩
  | some window =>
    simp only []
    cases newlinePos window with
    | none => exact ⟨[], by simp [stOfInner]⟩
    | some position =>
      simp only []
      cases slice st.buf st.procOff (st.readOff + position + 1) with
      | none => exact ⟨[], by simp [stOfInner]⟩
      | some data =>
        simp only []
        cases (runFrom I st.header data { cap := some n } st.user).crash with
        | some c => exact ⟨[], by simp [stOfInner]⟩
        | none =>
          simp only []
          obtain ⟨ext, he⟩ := respWrite_ext fault
            { st with header := (runFrom I st.header data { cap := some n } st.user).header,
                      user := (runFrom I st.header data { cap := some n } st.user).s }
            (runFrom I st.header data { cap := some n } st.user).w.buf
          revert he
          generalize respWrite fault _ _ = r
          obtain ⟨st2, e⟩ := r
          intro he
          simp only at he
          refine ⟨ext, ?_⟩
          cases e with
          | some e => exact he
          | none =>
            simp only []
            by_cases hne : (!(runFrom I st.header data { cap := some n } st.user).rest.isEmpty) = true
            · rw [if_pos hne]
              by_cases hle : (runFrom I st.header data { cap := some n } st.user).rest.length
                  ≤ st2.procOff + data.length
              · rw [if_pos hle]; exact he
              · rw [if_neg hle]; exact he
            · rw [if_neg hne]; exact he

theorem procInner_ext {σ : Type} (I : Iface σ) (n : Nat) (fault : Option (Nat × Int))
    (readEnd fuel : Nat) (st : PState σ) :
    ∃ ext, (procInner I n fault fuel readEnd st).1.trace = st.trace ++ ext ∧
      (procInner I n fault fuel readEnd st).1.calls = st.calls + ext.length := by
  refine procInner_induct I n fault readEnd
    (fun _ s => ∃ ext, s.trace = st.trace ++ ext ∧ s.calls = st.calls + ext.length)
    (fun r => ∃ ext, r.1.trace = st.trace ++ ext ∧ r.1.calls = st.calls + ext.length)
    (fun s h => h) ?_ ?_ fuel st ⟨[], by simp⟩
  · intro _ s s' ⟨e1, h1, c1⟩ hs
    obtain ⟨e2, h2, c2⟩ := innerStep_ext I n fault readEnd s
    rw [hs] at h2 c2
    exact ⟨e1 ++ e2, by rw [← List.append_assoc, ← h1]; exact h2,
      by rw [List.length_append, ← Nat.add_assoc, ← c1]; exact c2⟩
  · intro _ s r ⟨e1, h1, c1⟩ hs
    obtain ⟨e2, h2, c2⟩ := innerStep_ext I n fault readEnd s
    rw [hs] at h2 c2
    exact ⟨e1 ++ e2, by rw [← List.append_assoc, ← h1]; exact h2,
      by rw [List.length_append, ← Nat.add_assoc, ← c1]; exact c2⟩

/-! ### simulation -/

/-- `rF` is the result `s0` cut at call `k`: it stopped with the fault code after exactly the
first `k` calls of `s0`. -/
def CutAt {σ : Type} (k : Nat) (code : Int) (s0 : PState σ) (rF : PState σ × Option PEnd) : Prop :=
  k < s0.calls ∧ rF.2 = some (.transport (.fault code)) ∧ rF.1.calls = k ∧
    rF.1.trace = s0.trace.take k

theorem respWrite_sim {σ : Type} (k : Nat) (code : Int) (st : PState σ) (b : Bytes)
    (hc : st.calls = st.trace.length) (hk : st.calls ≤ k) :
    ((respWrite none st b).1.calls ≤ k ∧ respWrite (some (k, code)) st b = respWrite none st b) ∨
    CutAt k code (respWrite none st b).1 (respWrite (some (k, code)) st b) := by
  unfold respWrite
  cases b with
  | nil => exact .inl ⟨hk, rfl⟩
  | cons x xs =>
    simp only [List.isEmpty_cons, Bool.false_eq_true, if_false, faultAt_none_fault]
    by_cases h1 : st.calls = k
    · right
      have hf : faultAt (some (k, code)) st.calls = some code := by rw [h1]; exact faultAt_self k code
      rw [hf]
      refine ⟨by show k < st.calls + 1 + 1; omega, rfl, h1, ?_⟩
      show st.trace = List.take k (st.trace ++ [_] ++ [_])
      rw [List.append_assoc, List.take_append_of_le_length (by omega), List.take_of_length_le (by omega)]
    · rw [faultAt_ne h1]
      simp only []
      by_cases h2 : st.calls + 1 = k
      · right
        have hf : faultAt (some (k, code)) (st.calls + 1) = some code := by rw [h2]; exact faultAt_self k code
        rw [hf]
        refine ⟨by show k < st.calls + 1 + 1; omega, rfl, h2, ?_⟩
        show st.trace ++ [_] = List.take k (st.trace ++ [_] ++ [_])
        rw [List.take_append_of_le_length (by simp; omega), List.take_of_length_le (by simp; omega)]
      · rw [faultAt_ne h2]
        exact .inl ⟨by show st.calls + 1 + 1 ≤ k; omega, rfl⟩

theorem innerStep_sim {σ : Type} (I : Iface σ) (n : Nat) (k : Nat) (code : Int) (readEnd : Nat)
    (st : PState σ) (hc : st.calls = st.trace.length) (hk : st.calls ≤ k) :
    ((stOfInner (innerStep I n none readEnd st)).calls ≤ k ∧
      innerStep I n (some (k, code)) readEnd st = innerStep I n none readEnd st) ∨
    (∃ rF, innerStep I n (some (k, code)) readEnd st = .inr rF ∧
      CutAt k code (stOfInner (innerStep I n none readEnd st)) rF) := by
  unfold innerStep
  cases slice st.buf st.readOff readEnd with
  | none => exact .inl ⟨hk, rfl⟩
  | some window =>
    simp only []
    cases newlinePos window with
    | none => exact .inl ⟨hk, rfl⟩
    | some position =>
      simp only []
      cases slice st.buf st.procOff (st.readOff + position + 1) with
      | none => exact .inl ⟨hk, rfl⟩
      | some data =>
        simp only []
        cases (runFrom I st.header data { cap := some n } st.user).crash with
        | some c => exact .inl ⟨hk, rfl⟩
        | none =>
          simp only []
          have hs := respWrite_sim k code
            { st with header := (runFrom I st.header data { cap := some n } st.user).header,
                      user := (runFrom I st.header data { cap := some n } st.user).s }
            (runFrom I st.header data { cap := some n } st.user).w.buf hc hk
          revert hs
          generalize respWrite none _ _ = r0
          generalize respWrite (some (k, code)) _ _ = rF
          obtain ⟨s0, e0⟩ := r0
          intro hs
          cases hs with
          | inl hs =>
            obtain ⟨hle, heq⟩ := hs
            subst heq
            left
            refine ⟨?_, rfl⟩
            cases e0 with
            | some e => exact hle
            | none =>
              simp only []
              by_cases hne : (!(runFrom I st.header data { cap := some n } st.user).rest.isEmpty) = true
              · rw [if_pos hne]
                by_cases hl : (runFrom I st.header data { cap := some n } st.user).rest.length
                    ≤ s0.procOff + data.length
                · rw [if_pos hl]; exact hle
                · rw [if_neg hl]; exact hle
              · rw [if_neg hne]; exact hle
          | inr hs =>
            right
            obtain ⟨sF, eF⟩ := rF
            obtain ⟨h1, h2, h3, h4⟩ := hs
            simp only at h1 h2 h3 h4
            subst h2
            refine ⟨_, rfl, ?_⟩
            cases e0 with
            | some e => exact ⟨h1, rfl, h3, h4⟩
            | none =>
              simp only []
              by_cases hne : (!(runFrom I st.header data { cap := some n } st.user).rest.isEmpty) = true
              · rw [if_pos hne]
                by_cases hl : (runFrom I st.header data { cap := some n } st.user).rest.length
                    ≤ s0.procOff + data.length
                · rw [if_pos hl]; exact ⟨h1, rfl, h3, h4⟩
                · rw [if_neg hl]; exact ⟨h1, rfl, h3, h4⟩
              · rw [if_neg hne]; exact ⟨h1, rfl, h3, h4⟩

/-- Going on after the cut point does not change the cut. -/
theorem cutAt_ext {σ : Type} {k : Nat} {code : Int} {s s' : PState σ} {rF : PState σ × Option PEnd}
    (h : CutAt k code s rF) (hc : s.calls = s.trace.length) (ext : List PEv)
    (ht : s'.trace = s.trace ++ ext) (hl : s'.calls = s.calls + ext.length) : CutAt k code s' rF := by
  obtain ⟨h1, h2, h3, h4⟩ := h
  refine ⟨by omega, h2, h3, ?_⟩
  rw [h4, ht, List.take_append_of_le_length (by omega)]

theorem procInner_sim {σ : Type} (I : Iface σ) (n : Nat) (k : Nat) (code : Int) (readEnd : Nat) :
    ∀ (fuel : Nat) (st : PState σ), st.calls = st.trace.length → st.calls ≤ k →
    ((procInner I n none fuel readEnd st).1.calls ≤ k ∧
      procInner I n (some (k, code)) fuel readEnd st = procInner I n none fuel readEnd st) ∨
    CutAt k code (procInner I n none fuel readEnd st).1
      (procInner I n (some (k, code)) fuel readEnd st) := by
  intro fuel
  induction fuel with
  | zero => intro st _ hk; exact .inl ⟨hk, rfl⟩
  | succ f ih =>
    intro st hc hk
    rw [procInner_succ, procInner_succ]
    obtain ⟨ext, he1, he2⟩ := innerStep_ext I n none readEnd st
    cases innerStep_sim I n k code readEnd st hc hk with
    | inl h =>
      obtain ⟨hle, heq⟩ := h
      rw [heq]
      cases h0 : innerStep I n none readEnd st with
      | inl s' =>
        rw [h0] at hle he1 he2
        simp only [stOfInner] at hle he1 he2
        exact ih s' (by rw [he1, he2, hc, List.length_append]) hle
      | inr r =>
        rw [h0] at hle
        exact .inl ⟨hle, rfl⟩
    | inr h =>
      obtain ⟨rF, hF, hcut⟩ := h
      rw [hF]
      right
      cases h0 : innerStep I n none readEnd st with
      | inr r => rw [h0] at hcut; exact hcut
      | inl s' =>
        rw [h0] at hcut he1 he2
        simp only [stOfInner] at hcut he1 he2
        simp only []
        obtain ⟨ext2, g1, g2⟩ := procInner_ext I n none readEnd f s'
        exact cutAt_ext hcut (by rw [he1, he2, hc, List.length_append]) ext2 g1 g2

/-! ### the outer loop -/

/-- What an iteration of the outer loop does after the inner loop has returned `r`
(it does not depend on the fault schedule). -/
def outerTail {σ : Type} (I : Iface σ) (n : Nat) (readEnd : Nat) (r : PState σ × Option PEnd) :
    PState σ ⊕ POut σ :=
  match r with
  | (st2, some e) => .inr (stopOut e st2)
  | (st2, none) =>
    match shiftBuf readEnd { st2 with readOff := readEnd } with
    | .error e => .inr (stopOut e { st2 with readOff := readEnd })
    | .ok st3 => .inl (resetFull I n st3)

theorem outerStep_eq {σ : Type} (I : Iface σ) (n : Nat) (fault : Option (Nat × Int)) (st : PState σ) :
    outerStep I n fault st =
      if st.readOff > n then .inr (stopOut (.crash .sliceOutOfRange) st) else
      match faultAt fault st.calls with
      | some c => .inr (stopOut (.transport (.fault c)) st)
      | none =>
        if st.stream.isEmpty ∧ st.sizes.isEmpty then .inr (stopOut (.transport .eos) st) else
        outerTail I n (st.readOff + readCount n st)
          (procInner I n fault (readCount n st + 1) (st.readOff + readCount n st) (afterRead n st)) := by
  unfold outerStep outerTail
  rfl

def stOfOuter {σ : Type} : PState σ ⊕ POut σ → PState σ
  | .inl s => s
  | .inr o => o.final

/-- Every value returned by `process` reports the trace of its final state. -/
def OutTr {σ : Type} : PState σ ⊕ POut σ → Prop
  | .inl _ => True
  | .inr o => o.trace = o.final.trace

theorem outerTail_st {σ : Type} (I : Iface σ) (n : Nat) (readEnd : Nat) (r : PState σ × Option PEnd) :
    (stOfOuter (outerTail I n readEnd r)).trace = r.1.trace ∧
    (stOfOuter (outerTail I n readEnd r)).calls = r.1.calls ∧ OutTr (outerTail I n readEnd r) := by
  obtain ⟨st2, e⟩ := r
  unfold outerTail
  cases e with
  | some e => exact ⟨rfl, rfl, rfl⟩
  | none =>
    simp only []
    cases hs : shiftBuf readEnd { st2 with readOff := readEnd } with
    | error e => exact ⟨rfl, rfl, rfl⟩
    | ok st3 =>
      obtain ⟨e1, e2⟩ := shiftBuf_calls _ _ _ hs
      obtain ⟨e3, e4⟩ := resetFull_calls I n st3
      exact ⟨by simp only [stOfOuter]; rw [e4, e2], by simp only [stOfOuter]; rw [e3, e1], trivial⟩

theorem outerStep_ext {σ : Type} (I : Iface σ) (n : Nat) (fault : Option (Nat × Int)) (st : PState σ) :
    ∃ ext, (stOfOuter (outerStep I n fault st)).trace = st.trace ++ ext ∧
      (stOfOuter (outerStep I n fault st)).calls = st.calls + ext.length ∧
      OutTr (outerStep I n fault st) := by
  rw [outerStep_eq]
  by_cases h0 : st.readOff > n
  · rw [if_pos h0]; exact ⟨[], by simp [stOfOuter, stopOut], rfl, rfl⟩
  · rw [if_neg h0]
    cases faultAt fault st.calls with
    | some c => exact ⟨[], by simp [stOfOuter, stopOut], rfl, rfl⟩
    | none =>
      simp only []
      by_cases h2 : st.stream.isEmpty ∧ st.sizes.isEmpty
      · rw [if_pos h2]; exact ⟨[], by simp [stOfOuter, stopOut], rfl, rfl⟩
      · rw [if_neg h2]
        obtain ⟨ext, g1, g2⟩ := procInner_ext I n fault (st.readOff + readCount n st)
          (readCount n st + 1) (afterRead n st)
        obtain ⟨t1, t2, t3⟩ := outerTail_st I n (st.readOff + readCount n st)
          (procInner I n fault (readCount n st + 1) (st.readOff + readCount n st) (afterRead n st))
        refine ⟨[PEv.r (readCount n st) (n - st.readOff)] ++ ext, ?_, ?_, t3⟩
        · rw [t1, g1, ← List.append_assoc]; rfl
        · rw [t2, g2, List.length_append, ← Nat.add_assoc]; rfl

theorem procLoop_ext {σ : Type} (I : Iface σ) (n : Nat) (fault : Option (Nat × Int)) :
    ∀ (fuel : Nat) (st : PState σ),
    ∃ ext, (procLoop I n fault fuel st).final.trace = st.trace ++ ext ∧
      (procLoop I n fault fuel st).final.calls = st.calls + ext.length ∧
      (procLoop I n fault fuel st).trace = (procLoop I n fault fuel st).final.trace := by
  intro fuel
  induction fuel with
  | zero => intro st; exact ⟨[], by simp [procLoop_zero, stopOut], rfl, rfl⟩
  | succ f ih =>
    intro st
    rw [procLoop_succ]
    obtain ⟨ext, h1, h2, h3⟩ := outerStep_ext I n fault st
    cases hs : outerStep I n fault st with
    | inr o =>
      rw [hs] at h1 h2 h3
      exact ⟨ext, h1, h2, h3⟩
    | inl s' =>
      rw [hs] at h1 h2
      simp only [stOfOuter] at h1 h2
      simp only []
      obtain ⟨ext2, g1, g2, g3⟩ := ih s'
      exact ⟨ext ++ ext2, by rw [g1, h1, List.append_assoc],
        by rw [g2, h2, List.length_append, Nat.add_assoc], g3⟩

/-- `oF` is the run `s0` cut at call `k`. -/
def OCut {σ : Type} (k : Nat) (code : Int) (s0 : PState σ) (oF : POut σ) : Prop :=
  k ≤ s0.calls ∧ oF.stop = .transport (.fault code) ∧ oF.final.calls = k ∧
    oF.final.trace = s0.trace.take k ∧ oF.trace = oF.final.trace

theorem oCut_ext {σ : Type} {k : Nat} {code : Int} {s s' : PState σ} {oF : POut σ}
    (h : OCut k code s oF) (hc : s.calls = s.trace.length) (ext : List PEv)
    (ht : s'.trace = s.trace ++ ext) (hl : s'.calls = s.calls + ext.length) : OCut k code s' oF := by
  obtain ⟨h1, h2, h3, h4, h5⟩ := h
  refine ⟨by omega, h2, h3, ?_, h5⟩
  rw [h4, ht, List.take_append_of_le_length (by omega)]

theorem outerStep_sim {σ : Type} (I : Iface σ) (n : Nat) (k : Nat) (code : Int) (st : PState σ)
    (hc : st.calls = st.trace.length) (hk : st.calls ≤ k) :
    ((stOfOuter (outerStep I n none st)).calls ≤ k ∧
      outerStep I n (some (k, code)) st = outerStep I n none st) ∨
    (∃ oF, outerStep I n (some (k, code)) st = .inr oF ∧
      OCut k code (stOfOuter (outerStep I n none st)) oF) := by
  by_cases h0 : st.readOff > n
  · left
    rw [outerStep_eq, outerStep_eq, if_pos h0, if_pos h0]
    exact ⟨hk, rfl⟩
  by_cases hkk : st.calls = k
  · -- the read itself is the faulty call
    right
    obtain ⟨ext, e1, e2, _⟩ := outerStep_ext I n none st
    refine ⟨stopOut (.transport (.fault code)) st, ?_, ?_⟩
    · rw [outerStep_eq, if_neg h0, hkk, faultAt_self]
    · refine ⟨by omega, rfl, hkk, ?_, rfl⟩
      show st.trace = _
      rw [e1, List.take_append_of_le_length (by omega), List.take_of_length_le (by omega)]
  · rw [outerStep_eq, outerStep_eq, if_neg h0, if_neg h0, faultAt_ne hkk, faultAt_none_fault]
    simp only []
    by_cases h2 : st.stream.isEmpty ∧ st.sizes.isEmpty
    · rw [if_pos h2, if_pos h2]
      exact .inl ⟨hk, rfl⟩
    · rw [if_neg h2, if_neg h2]
      have hc1 : (afterRead n st).calls = (afterRead n st).trace.length := by
        show st.calls + 1 = (st.trace ++ [_]).length
        rw [List.length_append, hc]; rfl
      have hk1 : (afterRead n st).calls ≤ k := by
        show st.calls + 1 ≤ k
        omega
      obtain ⟨t1, t2, _⟩ := outerTail_st I n (st.readOff + readCount n st)
        (procInner I n none (readCount n st + 1) (st.readOff + readCount n st) (afterRead n st))
      cases procInner_sim I n k code (st.readOff + readCount n st) (readCount n st + 1)
          (afterRead n st) hc1 hk1 with
      | inl h =>
        left
        rw [h.2]
        exact ⟨by rw [t2]; exact h.1, rfl⟩
      | inr h =>
        right
        obtain ⟨h1, h2, h3, h4⟩ := h
        revert h2 h3 h4
        generalize procInner I n (some (k, code)) _ _ _ = rF
        obtain ⟨sF, eF⟩ := rF
        intro h2 h3 h4
        simp only at h2 h3 h4
        subst h2
        refine ⟨stopOut (.transport (.fault code)) sF, rfl, ?_⟩
        exact ⟨by rw [t2]; omega, rfl, h3, by rw [t1]; exact h4, rfl⟩

theorem procLoop_sim {σ : Type} (I : Iface σ) (n : Nat) (k : Nat) (code : Int) :
    ∀ (fuel : Nat) (st : PState σ), st.calls = st.trace.length → st.calls ≤ k →
    ((procLoop I n none fuel st).final.calls ≤ k ∧
      procLoop I n (some (k, code)) fuel st = procLoop I n none fuel st) ∨
    OCut k code (procLoop I n none fuel st).final (procLoop I n (some (k, code)) fuel st) := by
  intro fuel
  induction fuel with
  | zero => intro st _ hk; exact .inl ⟨hk, rfl⟩
  | succ f ih =>
    intro st hc hk
    rw [procLoop_succ, procLoop_succ]
    obtain ⟨ext, he1, he2, _⟩ := outerStep_ext I n none st
    cases outerStep_sim I n k code st hc hk with
    | inl h =>
      obtain ⟨hle, heq⟩ := h
      rw [heq]
      cases h0 : outerStep I n none st with
      | inl s' =>
        rw [h0] at hle he1 he2
        simp only [stOfOuter] at hle he1 he2
        exact ih s' (by rw [he1, he2, hc, List.length_append]) hle
      | inr r =>
        rw [h0] at hle
        exact .inl ⟨hle, rfl⟩
    | inr h =>
      obtain ⟨oF, hF, hcut⟩ := h
      rw [hF]
      right
      cases h0 : outerStep I n none st with
      | inr r => rw [h0] at hcut; exact hcut
      | inl s' =>
        rw [h0] at hcut he1 he2
        simp only [stOfOuter] at hcut he1 he2
        simp only []
        obtain ⟨ext2, g1, g2, _⟩ := procLoop_ext I n none f s'
        exact oCut_ext hcut (by rw [he1, he2, hc, List.length_append]) ext2 g1 g2

end Proc
end Scpi
