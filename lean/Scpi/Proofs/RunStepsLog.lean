/-
Instrumented interfaces: the user state is paired with a log to which every
handler invocation and every `onError` call appends.  The instrumented interface
behaves exactly like the original one (simulation), so statements about "how many
errors were reported" and "which handlers ran, in which order" are statements
about the log — for arbitrary user state `σ` and arbitrary handlers.
-/
import Scpi.Proofs.RunStepsExec

namespace Scpi

/-- A handler that also appends `fc tvs` to the log. -/
def Cmd.instrument {σ ε : Type} (fc : List TVal → List ε) (c : Cmd σ) : Cmd (σ × List ε) :=
  { argTys := c.argTys
    handler := fun sl tvs => (((c.handler sl.1 tvs).1, sl.2 ++ fc tvs), (c.handler sl.1 tvs).2) }

/-- `I` with a log: handler number `id` called with `tvs` appends `fc id tvs`;
`onError e` appends `fe e`.  Handlers and error handler act on the first component
exactly as those of `I`. -/
def Iface.instrument {σ ε : Type} (I : Iface σ) (fc : Nat → List TVal → List ε) (fe : Err → List ε) :
    Iface (σ × List ε) :=
  { root := I.root
    cmds := I.cmds.mapIdx fun id c => c.instrument (fc id)
    onError := fun sl e => (I.onError sl.1 e, sl.2 ++ fe e) }

/-- The logging wrapper of C06: `onError` appends the error it was handed to the log. -/
def Iface.logged {σ : Type} (I : Iface σ) : Iface (σ × List Err) :=
  I.instrument (fun _ _ => []) (fun e => [e])

/-- Observable events of a run. -/
inductive Ev where
  | call (id : Nat) (args : List TVal)
  | error (e : Err)
  deriving DecidableEq, Repr

/-- The tracing wrapper: handler invocations (with the converted parameters) and
reported errors are logged in the order in which they happen. -/
def Iface.traced {σ : Type} (I : Iface σ) : Iface (σ × List Ev) :=
  I.instrument (fun id tvs => [Ev.call id tvs]) (fun e => [Ev.error e])

/-- The handler invocation a call leads to, if it gets that far: unitSlot present,
arity right, every parameter converts. -/
def invocation {σ : Type} (I : Iface σ) (call : CommandCall) : Option (Nat × List TVal) :=
  match unitSlot call with
  | none => none
  | some id =>
    match I.cmds[id]? with
    | none => none
    | some c =>
      if call.args.length ≠ c.argTys.length then none
      else match convertArgs c.argTys call.args with
        | .ok tvs => some (id, tvs)
        | .error _ => none

/-- What an invocation appends to the log. -/
def callLog {ε : Type} (fc : Nat → List TVal → List ε) : Option (Nat × List TVal) → List ε
  | none => []
  | some (id, tvs) => fc id tvs

section
variable {σ ε : Type} (I : Iface σ) (fc : Nat → List TVal → List ε) (fe : Err → List ε)

@[simp] theorem instrument_root : (I.instrument fc fe).root = I.root := rfl

theorem instrument_cmds_get (id : Nat) :
    (I.instrument fc fe).cmds[id]? = (I.cmds[id]?).map (Cmd.instrument (fc id)) := by
  simp [Iface.instrument, List.getElem?_mapIdx]

/-- **Simulation for one unit**: the instrumented `execute` does to the first
component and to the writer exactly what `execute` does, and appends to the log the
invocation made (if any). -/
theorem execute_instrument (call : CommandCall) (w : Writer) (s : σ) (l : List ε) :
    execute (I.instrument fc fe) call w (s, l) =
      (((execute I call w s).1, l ++ callLog fc (invocation I call)),
       (execute I call w s).2.1, (execute I call w s).2.2) := by
  rw [execute_eq, execute_eq]
  unfold resolveCmd invocation
  cases hs : unitSlot call with
  | none => simp [callLog]
  | some id =>
    simp only [Option.bind_some, instrument_cmds_get]
    cases hc : I.cmds[id]? with
    | none => simp [callLog]
    | some c =>
      simp only [Option.map_some]
      have hty : (Cmd.instrument (fc id) c).argTys = c.argTys := rfl
      rw [hty]
      by_cases hl : call.args.length ≠ c.argTys.length
      · simp [hl, callLog]
      · rw [if_neg hl, if_neg hl, if_neg hl]
        cases hca : convertArgs c.argTys call.args with
        | error e' => cases e' <;> simp [callLog]
        | ok tvs =>
          simp only [callLog]
          rcases hh : c.handler s tvs with ⟨s1, r⟩
          have : (Cmd.instrument (fc id) c).handler (s, l) tvs = ((s1, l ++ fc id tvs), r) := by
            simp [Cmd.instrument, hh]
          rw [this]
          cases r <;> rfl

/-- First components of an output / configuration / step. -/
def RunOut.fst (o : RunOut (σ × List ε)) : RunOut σ :=
  { rest := o.rest, header := o.header, w := o.w, s := o.s.1, crash := o.crash }

def Cfg.fst (c : Cfg (σ × List ε)) : Cfg σ :=
  { header := c.header, input := c.input, w := c.w, s := c.s.1 }

def Step.fst : Step (σ × List ε) → Step σ
  | .stop o => .stop o.fst
  | .next c => .next c.fst

/-- The log after a step. -/
def Step.log : Step (σ × List ε) → List ε
  | .stop o => o.s.2
  | .next c => c.s.2

/-- What the unit at configuration `c` appends to the log: the handler invocation
(if one is made), then the reported error (if one is reported). -/
def unitLog (c : Cfg σ) : List ε :=
  match parse I.root c.header c.input with
  | .soft e => fe (parseErrToErr e)
  | .fatal e => fe e
  | .ok _ (some call) =>
    callLog fc (invocation I call) ++
      (match (execute I call c.w c.s).2.2 with
       | .err e => fe e
       | _ => [])
  | _ => []

/-- **Simulation for one step of the loop**, and what it appends to the log. -/
theorem unitStep_instrument (c : Cfg (σ × List ε)) :
    (unitStep (I.instrument fc fe) c).fst = unitStep I c.fst ∧
    (unitStep (I.instrument fc fe) c).log = c.s.2 ++ unitLog I fc fe c.fst := by
  obtain ⟨h, input, w, s, l⟩ := c
  unfold unitStep unitLog
  simp only [instrument_root, Cfg.fst]
  cases hp : parse I.root h input with
  | crash cr => simp [Step.fst, RunOut.fst, Step.log]
  | incomplete => simp [Step.fst, RunOut.fst, Step.log]
  | soft e =>
    simp only []
    cases afterNewline input <;> simp [Step.fst, RunOut.fst, Step.log, Cfg.fst, Iface.instrument]
  | fatal e =>
    simp only []
    cases afterNewline input <;> simp [Step.fst, RunOut.fst, Step.log, Cfg.fst, Iface.instrument]
  | ok i oc =>
    cases oc with
    | none => simp [Step.fst, Step.log, Cfg.fst]
    | some call =>
      simp only [execute_instrument]
      rcases he : execute I call w s with ⟨s', w', r⟩
      cases r <;>
        simp [Step.fst, RunOut.fst, Step.log, Cfg.fst, reportExec, Iface.instrument]

/-- Pair the user state of an output / configuration / step with a log. -/
def RunOut.withLog (o : RunOut σ) (l : List ε) : RunOut (σ × List ε) :=
  { rest := o.rest, header := o.header, w := o.w, s := (o.s, l), crash := o.crash }

def Cfg.withLog (c : Cfg σ) (l : List ε) : Cfg (σ × List ε) :=
  { header := c.header, input := c.input, w := c.w, s := (c.s, l) }

def Step.withLog : Step σ → List ε → Step (σ × List ε)
  | .stop o, l => .stop (o.withLog l)
  | .next c, l => .next (c.withLog l)

theorem Step.eq_withLog (st : Step (σ × List ε)) : st = st.fst.withLog st.log := by
  cases st <;> rfl

/-- **One step of the instrumented interface** is the step of the original one, with
the unit's log entries appended. -/
theorem unitStep_withLog (c : Cfg σ) (l : List ε) :
    unitStep (I.instrument fc fe) (c.withLog l) = (unitStep I c).withLog (l ++ unitLog I fc fe c) := by
  obtain ⟨h1, h2⟩ := unitStep_instrument I fc fe (c.withLog l)
  rw [Step.eq_withLog (unitStep (I.instrument fc fe) (c.withLog l)), h1, h2]
  rfl

/-- The log a whole run produces, started with an empty log. -/
def runLog (h : Node) (x : Bytes) (w : Writer) (s : σ) : List ε :=
  (runFrom (I.instrument fc fe) h x w (s, [])).s.2

theorem runFrom_instrument_aux : ∀ (n : Nat) (h : Node) (x : Bytes) (w : Writer) (s : σ) (l : List ε),
    x.length ≤ n →
    runFrom (I.instrument fc fe) h x w (s, l) =
      (runFrom I h x w s).withLog (l ++ runLog I fc fe h x w s) := by
  intro n
  induction n with
  | zero =>
    intro h x w s l hl
    have h0 : x = [] := List.eq_nil_of_length_eq_zero (by omega)
    subst h0
    simp [runLog, runFrom_nil, RunOut.withLog]
  | succ n ih =>
    intro h x w s l hl
    by_cases h0 : x = []
    · subst h0
      simp [runLog, runFrom_nil, RunOut.withLog]
    · have e1 := unitStep_withLog I fc fe ⟨h, x, w, s⟩ l
      have e2 := unitStep_withLog I fc fe ⟨h, x, w, s⟩ []
      unfold runLog
      rw [runFrom_step _ h x w (s, l) h0, runFrom_step _ h x w (s, []) h0, runFrom_step I h x w s h0]
      simp only [Cfg.withLog] at e1 e2
      rw [e1, e2]
      cases hs : unitStep I ⟨h, x, w, s⟩ with
      | stop o => simp [Step.withLog, RunOut.withLog]
      | next c =>
        have hlt := (unitStep_next_lt I _ _ hs).1
        simp only [Step.withLog, Cfg.withLog]
        have hc : c.input.length ≤ n := by simp only [] at hlt; omega
        rw [ih c.header c.input c.w c.s _ hc, ih c.header c.input c.w c.s ([] ++ _) hc]
        simp [RunOut.withLog, List.append_assoc]

/-- **Simulation for a whole run**: instrumenting changes nothing but the log; the
log only grows, and what is appended does not depend on what was logged before. -/
theorem runFrom_instrument (h : Node) (x : Bytes) (w : Writer) (s : σ) (l : List ε) :
    runFrom (I.instrument fc fe) h x w (s, l) =
      (runFrom I h x w s).withLog (l ++ runLog I fc fe h x w s) :=
  runFrom_instrument_aux I fc fe _ h x w s l (Nat.le_refl _)

theorem runLog_nil (h : Node) (w : Writer) (s : σ) : runLog I fc fe h [] w s = [] := by
  simp [runLog, runFrom_nil]

/-- **The log of a run, unit by unit**: the entries of the first unit, then the log
of the run from the configuration that unit left. -/
theorem runLog_step (h : Node) (x : Bytes) (w : Writer) (s : σ) (hne : x ≠ []) :
    runLog I fc fe h x w s =
      unitLog I fc fe ⟨h, x, w, s⟩ ++
        match unitStep I ⟨h, x, w, s⟩ with
        | .stop _ => []
        | .next c => runLog I fc fe c.header c.input c.w c.s := by
  have e2 := unitStep_withLog I fc fe ⟨h, x, w, s⟩ []
  simp only [Cfg.withLog] at e2
  conv => lhs; unfold runLog
  rw [runFrom_step _ h x w (s, []) hne, e2]
  cases hs : unitStep I ⟨h, x, w, s⟩ with
  | stop o => simp [Step.withLog, RunOut.withLog]
  | next c =>
    simp only [Step.withLog, Cfg.withLog]
    rw [runFrom_instrument]
    simp [RunOut.withLog]

end

/-! ### The error log -/

section
variable {σ : Type} (I : Iface σ)

/-- The error the unit at configuration `c` hands to the error handler, if any:
a parse-level fault (syntax error, undefined header) or the error `execute` returned. -/
def unitFault (c : Cfg σ) : Option Err :=
  match parse I.root c.header c.input with
  | .soft e => some (parseErrToErr e)
  | .fatal e => some e
  | .ok _ (some call) =>
    match (execute I call c.w c.s).2.2 with
    | .err e => some e
    | _ => none
  | _ => none

/-- What one unit appends to the error log: nothing, or the one error of the unit. -/
theorem unitLog_logged (c : Cfg σ) :
    unitLog I (fun _ _ => ([] : List Err)) (fun e => [e]) c = (unitFault I c).toList := by
  unfold unitLog unitFault
  cases parse I.root c.header c.input with
  | ok i oc =>
    cases oc with
    | none => rfl
    | some call =>
      have : callLog (fun _ _ => ([] : List Err)) (invocation I call) = [] := by
        unfold callLog; split <;> rfl
      simp only [this, List.nil_append]
      cases (execute I call c.w c.s).2.2 <;> rfl
  | _ => rfl

/-- The errors a run reports, in order (log started empty). -/
def errorsOf (h : Node) (x : Bytes) (w : Writer) (s : σ) : List Err :=
  runLog I (fun _ _ => ([] : List Err)) (fun e => [e]) h x w s

/-- **Logging does not change behaviour**; the log only grows. -/
theorem runFrom_logged (h : Node) (x : Bytes) (w : Writer) (s : σ) (l : List Err) :
    runFrom I.logged h x w (s, l) = (runFrom I h x w s).withLog (l ++ errorsOf I h x w s) :=
  runFrom_instrument I _ _ h x w s l

theorem unitStep_logged (c : Cfg σ) (l : List Err) :
    unitStep I.logged (c.withLog l) = (unitStep I c).withLog (l ++ (unitFault I c).toList) := by
  rw [← unitLog_logged]
  exact unitStep_withLog I _ _ c l

theorem errorsOf_nil (h : Node) (w : Writer) (s : σ) : errorsOf I h [] w s = [] :=
  runLog_nil I _ _ h w s

/-- The errors of a run: the error of the first unit, if it is faulty, then the errors
of the run on the configuration that unit left. -/
theorem errorsOf_step (h : Node) (x : Bytes) (w : Writer) (s : σ) (hne : x ≠ []) :
    errorsOf I h x w s =
      (unitFault I ⟨h, x, w, s⟩).toList ++
        match unitStep I ⟨h, x, w, s⟩ with
        | .stop _ => []
        | .next c => errorsOf I c.header c.input c.w c.s := by
  rw [← unitLog_logged]
  exact runLog_step I _ _ h x w s hne

end

end Scpi
