/-
Writers only ever grow (C04, "in execution order"): no call on a writer, no
`execute` and no `run` modifies or removes what was written before; bytes and
events are appended at the end.
-/
import Scpi.Proofs.RespExec

namespace Scpi
namespace Writer

/-- `w'` is `w` with bytes appended to the buffer and events appended to the event list. -/
def Extends (w w' : Writer) : Prop :=
  w'.cap = w.cap ∧ (∃ b, w'.buf = w.buf ++ b) ∧ ∃ e, w'.evs = w.evs ++ e

theorem Extends.refl (w : Writer) : Extends w w := ⟨rfl, ⟨[], by simp⟩, [], by simp⟩

theorem Extends.trans {w1 w2 w3 : Writer} (h1 : Extends w1 w2) (h2 : Extends w2 w3) :
    Extends w1 w3 := by
  obtain ⟨c1, ⟨b1, hb1⟩, e1, he1⟩ := h1
  obtain ⟨c2, ⟨b2, hb2⟩, e2, he2⟩ := h2
  exact ⟨c2.trans c1, ⟨b1 ++ b2, by rw [hb2, hb1, List.append_assoc]⟩,
    e1 ++ e2, by rw [he2, he1, List.append_assoc]⟩

theorem extends_push (w : Writer) (b : Bytes) : Extends w (w.push b) :=
  ⟨rfl, ⟨b, rfl⟩, [.w b], rfl⟩

theorem extends_flush (w : Writer) : Extends w w.flush :=
  ⟨rfl, ⟨[], by simp [flush]⟩, [.f], rfl⟩

theorem extends_pushPieces : ∀ (ps : List Bytes) (w : Writer), Extends w (w.pushPieces ps).1
  | [], w => Extends.refl w
  | p :: ps, w => by
    unfold pushPieces
    split
    · exact (extends_push w p).trans (extends_pushPieces ps (w.push p))
    · exact Extends.refl w

theorem extends_call (w : Writer) (c : WCall) : Extends w (w.call c).1 := by
  cases c with
  | direct b =>
    simp only [call]
    split
    · exact extends_push w b
    · exact Extends.refl w
  | fmt ps =>
    simp only [call]
    split
    · exact extends_push w _
    · have := extends_pushPieces ps w
      split <;> (rename_i heq; rw [heq] at this; exact this)
  | fail e => exact Extends.refl w

theorem extends_calls : ∀ (cs : List WCall) (w : Writer), Extends w (w.calls cs).1
  | [], w => Extends.refl w
  | c :: cs, w => by
    unfold calls
    have h1 := extends_call w c
    split
    · rename_i w1 heq
      rw [heq] at h1
      exact h1.trans (extends_calls cs w1)
    · rename_i w1 e heq
      rw [heq] at h1
      exact h1

end Writer

open Writer

theorem extends_executeCommand {σ : Type} (I : Iface σ) (id : Nat) (args : List Value) (w : Writer)
    (s : σ) : Extends w (executeCommand I id args w s).2.1 := by
  unfold executeCommand
  split
  · exact Extends.refl w
  · split
    · exact Extends.refl w
    · split
      · exact Extends.refl w
      · exact Extends.refl w
      · split
        · exact Extends.refl w
        · rename_i resp _
          have := extends_calls resp.calls w
          unfold Writer.writeResp
          split <;> (rename_i heq; rw [heq] at this; exact this)

/-- `execute` only appends to the writer, whatever the outcome. -/
theorem extends_execute {σ : Type} (I : Iface σ) (call : CommandCall) (w : Writer) (s : σ) :
    Extends w (execute I call w s).2.1 := by
  unfold execute
  split
  · exact Extends.refl w
  · rename_i id _
    have h := extends_executeCommand I id call.args w s
    split
    · rename_i s1 w1 heq
      rw [heq] at h
      split
      · have h2 := extends_call w1 (.direct [10])
        split
        · rename_i w2 heq2
          rw [heq2] at h2
          exact h.trans (h2.trans (extends_flush w2))
        · rename_i w2 e heq2
          rw [heq2] at h2
          exact h.trans h2
      · exact h
    · exact h

/-- The loop of `run_from` only appends to the writer. -/
theorem extends_runLoop {σ : Type} (I : Iface σ) : ∀ (fuel : Nat) (header : Node) (input : Bytes)
    (w : Writer) (s : σ), Extends w (runLoop I fuel header input w s).w
  | 0, _, _, w, _ => Extends.refl w
  | fuel + 1, header, input, w, s => by
    unfold runLoop
    split
    · exact Extends.refl w
    · split
      · exact Extends.refl w
      · exact Extends.refl w
      · simp only
        split
        · exact extends_runLoop I fuel _ _ w _
        · exact Extends.refl w
      · simp only
        split
        · exact extends_runLoop I fuel _ _ w _
        · exact Extends.refl w
      · exact extends_runLoop I fuel _ _ w _
      · rename_i i call _
        have h := extends_execute I call w s
        split
        · rename_i s1 w1 c heq
          rw [heq] at h
          exact h
        · rename_i s1 w1 r _ heq
          rw [heq] at h
          exact h.trans (extends_runLoop I fuel _ _ w1 _)

end Scpi
