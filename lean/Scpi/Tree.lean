/-
The run-time command tree (microscpi/src/tree.rs).  `&'static Node` pointers
become sub-terms of a recursive value; `tag` is ghost data standing for the
address of the static (the interpreter never inspects it; the driver uses it to
name nodes in its output).
-/
import Scpi.Basic

namespace Scpi

inductive Node where
  | mk (tag : Nat) (children : List (Bytes × Node)) (command : Option Nat) (query : Option Nat)
  deriving Repr, Inhabited

namespace Node
def tag : Node → Nat | mk t _ _ _ => t
def children : Node → List (Bytes × Node) | mk _ c _ _ => c
def command : Node → Option Nat | mk _ _ c _ => c
def query : Node → Option Nat | mk _ _ _ q => q
end Node

/-- `u8::to_ascii_lowercase`. -/
@[inline] def toLowerAscii (b : Nat) : Nat := if 65 ≤ b ∧ b ≤ 90 then b + 32 else b

/-- `str::eq_ignore_ascii_case`. -/
def eqIgnoreAsciiCase : Bytes → Bytes → Bool
  | [], [] => true
  | a :: as, b :: bs => toLowerAscii a == toLowerAscii b && eqIgnoreAsciiCase as bs
  | _, _ => false

/-- First child whose key equals `name` ignoring ASCII case (tree.rs:22-29). -/
def findChild : List (Bytes × Node) → Bytes → Option Node
  | [], _ => none
  | (k, n) :: rest, name => if eqIgnoreAsciiCase k name then some n else findChild rest name

def Node.child (n : Node) (name : Bytes) : Option Node := findChild n.children name

end Scpi
