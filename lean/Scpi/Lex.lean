/-
Lexical recognisers of parser.rs (lines 113-263 and 335-379), written with the
combinators of `Scpi.Basic`, one Lean definition per Rust function, in the same
order and with the same ordered choices.
-/
import Scpi.Basic
import Scpi.Utf8
import Scpi.Num

namespace Scpi

/-- `is_whitespace` (parser.rs:114): `0..=9 | 11..=32`. -/
@[inline] def isWs (b : Nat) : Bool := decide (b ≤ 9) || (decide (11 ≤ b) && decide (b ≤ 32))
@[inline] def isDigit (b : Nat) : Bool := decide (48 ≤ b) && decide (b ≤ 57)
@[inline] def isAlpha (b : Nat) : Bool :=
  (decide (65 ≤ b) && decide (b ≤ 90)) || (decide (97 ≤ b) && decide (b ≤ 122))
@[inline] def isAlnum (b : Nat) : Bool := isAlpha b || isDigit b
@[inline] def isHexDigit (b : Nat) : Bool :=
  isDigit b || (decide (65 ≤ b) && decide (b ≤ 70)) || (decide (97 ≤ b) && decide (b ≤ 102))
@[inline] def isBinDigit (b : Nat) : Bool := b == 48 || b == 49
/-- `(b'0'..b'8').contains(&c)`. -/
@[inline] def isOctDigit (b : Nat) : Bool := decide (48 ≤ b) && decide (b < 56)
@[inline] def isMnemonicTail (b : Nat) : Bool := isAlnum b || b == 95

/-- The kinds of program data (`Value`, value.rs:7-40) with their text. -/
inductive Value where
  | str (s : Bytes)
  | chars (s : Bytes)
  | dec (s : Bytes)
  | hex (s : Bytes)
  | bin (s : Bytes)
  | oct (s : Bytes)
  | arb (s : Bytes)
  deriving DecidableEq, Repr, Inhabited

/-- `whitespace` (parser.rs:119-130). -/
def whitespace : Parser Bytes := fun input =>
  match input.takeWhile isWs, input.dropWhile isWs with
  | [], [] => .incomplete
  | [], _ => ofErr .InvalidCharacter
  | t, r => .ok r t

/-- `digits` (parser.rs:138-142). The Rust code returns `&input[..res.len() + 1]`,
which is the first digit followed by `res`; the model returns that list directly. -/
def digits : Parser Bytes := fun input =>
  (satisfy isDigit input).bind fun i1 b =>
  (takeWhileP isDigit i1).bind fun i2 res =>
  .ok i2 (b :: res)

/-- `program_mnemonic` (parser.rs:145-149). -/
def mnemonic : Parser Bytes := fun input =>
  (satisfy isAlpha input).bind fun i1 b =>
  (takeWhileP isMnemonicTail i1).bind fun i2 res =>
  .ok i2 (b :: res)

/-- `sign` (parser.rs:152-154). -/
def sign : Parser Nat := fun input =>
  (tag 43 input).orElse fun _ => tag 45 input

/-- `str::from_utf8(bytes)?` : a failure is `InvalidCharacter` (parser.rs:35-39). -/
def fromUtf8 {α : Type} (s : Bytes) (k : Bytes → PResult α) : PResult α :=
  if validUtf8 s then k s else ofErr .InvalidCharacter

/-- `characters` (parser.rs:157-161). -/
def characters : Parser Value := fun input =>
  (mnemonic input).bind fun i res =>
  fromUtf8 res fun s => .ok i (.chars s)

/-- `mantissa` (parser.rs:164-175). -/
def mantissa : Parser Bytes := fun input =>
  (optP sign input).bind fun i1 _ =>
  (optP digits i1).bind fun i2 d1 =>
  (optP (tag 46) i2).bind fun i3 _ =>
  (if d1.isSome then optP digits i3 else (digits i3).map some).bind fun i4 _ =>
  consumed input i4 fun s => .ok i4 s

/-- `exponent` (parser.rs:178-183). -/
def exponent : Parser Bytes := fun input =>
  (satisfy (fun c => c == 69 || c == 101) input).bind fun i1 _ =>
  (optP sign i1).bind fun i2 _ =>
  (digits i2).bind fun i3 _ =>
  consumed input i3 fun s => .ok i3 s

/-- `decimal_numeric_program_data` (parser.rs:186-191). -/
def decimal : Parser Value := fun input =>
  (mantissa input).bind fun i1 _ =>
  (optP exponent i1).bind fun i2 _ =>
  consumed input i2 fun s =>
  fromUtf8 s fun s => .ok i2 (.dec s)

/-- Shared shape of the three non-decimal recognisers (parser.rs:194-221):
`#`, a radix letter, one digit of the class, further digits. -/
def nondecimal (isLetter isDig : Nat → Bool) (mk : Bytes → Value) : Parser Value := fun input =>
  (tag 35 input).bind fun i1 _ =>
  (satisfy isLetter i1).bind fun i2 _ =>
  (satisfy isDig i2).bind fun i3 _ =>
  (takeWhileP isDig i3).bind fun i4 _ =>
  consumed i2 i4 fun s =>
  fromUtf8 s fun s => .ok i4 (mk s)

def hexadecimal : Parser Value := nondecimal (fun c => c == 72 || c == 104) isHexDigit .hex
def binary : Parser Value := nondecimal (fun c => c == 66 || c == 98) isBinDigit .bin
def octal : Parser Value := nondecimal (fun c => c == 81 || c == 113) isOctDigit .oct

/-- `single_quoted_string_program_data` / `double_quoted_string_program_data`
(parser.rs:224-239) for the quote byte `q`. -/
def quoted (q : Nat) : Parser Value := fun input =>
  (tag q input).bind fun i1 _ =>
  (takeWhileP (fun c => c != q) i1).bind fun i2 res =>
  (tag q i2).bind fun i3 _ =>
  fromUtf8 res fun s => .ok i3 (.str s)

def singleQuoted : Parser Value := quoted 39
def doubleQuoted : Parser Value := quoted 34

/-- `arbitrary_program_data` (parser.rs:242-263), with the repaired range `1..=9`. -/
def arbitrary : Parser Value := fun input =>
  (tag 35 input).bind fun i1 _ =>
  ((satisfy (fun c => decide (49 ≤ c) && decide (c ≤ 57)) i1).map fun v => v - 48).bind fun i2 nd =>
  if i2.length < nd then .incomplete else
  let i3 := i2.drop nd
  let count := i2.take nd
  -- `str::from_utf8(count).or(Err(Error::CommandError))?`
  if !validUtf8 count then ofErr .CommandError else
  -- `usize::from_str_radix(count, 10)?`
  match fromStrRadix false 64 10 count with
  | none => ofErr .InvalidCharacterInNumber
  | some cnt =>
    let cnt := cnt.toNat
    if i3.length < cnt then .incomplete
    else .ok (i3.drop cnt) (.arb (i3.take cnt))

/-- `argument_separator` (parser.rs:336-341). -/
def argumentSeparator : Parser Unit := fun input =>
  (optP whitespace input).bind fun i1 _ =>
  ((tag 44 i1).mapErr .InvalidSeparator).bind fun i2 _ =>
  (optP whitespace i2).bind fun i3 _ =>
  .ok i3 ()

/-- `argument` (parser.rs, after the D2 repair): ordered choice that stops at `Incomplete`. -/
def argument : Parser Value := fun input =>
  (((((((characters input).orNext fun _ => decimal input).orNext fun _ => hexadecimal input).orNext
    fun _ => binary input).orNext fun _ => octal input).orNext fun _ => singleQuoted input).orNext
    fun _ => doubleQuoted input).orNext fun _ => arbitrary input

/-- `MAX_ARGS` (lib.rs). -/
def maxArgs : Nat := 10

/-- The loop of `arguments` (parser.rs:364-375). The vector `args` is threaded
explicitly because the Rust code mutates it in place even when it later fails.
`fuel` bounds the iterations; every iteration consumes the comma, so
`input.length` suffices (proved in `Scpi.Proofs`). -/
def argsLoop : Nat → List Value → Bytes → PResult Unit × List Value
  | 0, args, _ => (.crash .noProgress, args)
  | fuel + 1, args, input =>
    match argumentSeparator input with
    | .ok i _ =>
      match argument i with
      | .ok i2 arg =>
        -- `args.push(arg).or(Err(Error::UnexpectedNumberOfParameters))?`
        if args.length < maxArgs then argsLoop fuel (args ++ [arg]) i2
        else (ofErr .UnexpectedNumberOfParameters, args)
      | .soft e => (.soft e, args)
      | .fatal e => (.fatal e, args)
      | .incomplete => (.incomplete, args)
      | .crash c => (.crash c, args)
    | .soft _ => (.ok input (), args)
    | .fatal e => (.fatal e, args)
    | .incomplete => (.incomplete, args)
    | .crash c => (.crash c, args)

/-- `arguments(&mut args)` (parser.rs:356-379), called with an empty vector. -/
def arguments (input : Bytes) : PResult Unit × List Value :=
  match argument input with
  | .ok i arg =>
    -- `args.push(arg).unwrap()` on the empty vector
    if 0 < maxArgs then argsLoop (i.length + 1) [arg] i else (.crash .unwrapNone, [])
  | .soft e => (.soft e, [])
  | .fatal e => (.fatal e, [])
  | .incomplete => (.incomplete, [])
  | .crash c => (.crash c, [])

end Scpi
