/-
The attribute macro's command model (microscpi-macros/src/command.rs, tree.rs and
the tree-building part of lib.rs): declaration string → parts → every spelled
path → trie with command/query slots.

The macro's `HashMap<NodeId, TreeNode>` with numeric ids is modelled by the trie
it represents (a recursive `Node` whose children are kept in insertion order);
the statics it emits are that trie.  ASCII declarations only (`char::is_lowercase`
and `str::to_uppercase` are re-stated for ASCII).
-/
import Scpi.Tree

namespace Scpi

structure Part where
  optional : Bool
  short : Bytes
  long : Bytes
  deriving DecidableEq, Repr, Inhabited

structure Command where
  parts : List Part
  query : Bool
  deriving DecidableEq, Repr, Inhabited

@[inline] def isLowerAscii (b : Nat) : Bool := decide (97 ≤ b) && decide (b ≤ 122)
@[inline] def toUpperAscii (b : Nat) : Nat := if 97 ≤ b ∧ b ≤ 122 then b - 32 else b
/-- ASCII white space removed by `str::trim`. -/
@[inline] def isTrimWs (b : Nat) : Bool := b == 32 || (decide (9 ≤ b) && decide (b ≤ 13))

def trimBytes (s : Bytes) : Bytes :=
  ((s.dropWhile isTrimWs).reverse.dropWhile isTrimWs).reverse

/-- `value.split(':')`. -/
def splitColon : Bytes → Bytes → List Bytes
  | [], cur => [cur]
  | b :: rest, cur => if b == 58 then cur :: splitColon rest [] else splitColon rest (cur ++ [b])

/-- One element of the `for part in value.split(':').map(str::trim)` loop
(command.rs:30-50); `none` for a skipped empty part, `crash` for `"["`
(`&part[1..0]`). -/
def parsePart (raw : Bytes) : Except Crash (Option Part) :=
  let part := trimBytes raw
  if part.isEmpty then .ok none else
  let bracket := part.head? == some 91 && part.getLast? == some 93
  if bracket ∧ part.length < 2 then .error .sliceOutOfRange else
  let (name, opt) : Bytes × Bool :=
    if bracket then ((part.drop 1).take (part.length - 2), true) else (part, false)
  .ok (some { optional := opt, short := name.filter (fun c => !isLowerAscii c),
              long := name.map toUpperAscii })

def parseParts : List Bytes → Except Crash (List Part)
  | [] => .ok []
  | r :: rs =>
    match parsePart r, parseParts rs with
    | .error c, _ => .error c
    | _, .error c => .error c
    | .ok none, .ok ps => .ok ps
    | .ok (some p), .ok ps => .ok (p :: ps)

/-- `Command::try_from(&str)` (command.rs:18-54). -/
def Command.parse (s : Bytes) : Except Crash Command :=
  let (value, query) : Bytes × Bool :=
    if s.getLast? == some 63 then (s.dropLast, true) else (s, false)
  match parseParts (splitColon value []) with
  | .ok ps => .ok { parts := ps, query := query }
  | .error c => .error c

/-- One step of `paths()` (command.rs:64-82): extend every path by the long
form, the short form when it differs, and nothing when the part is optional. -/
def extendPaths (paths : List (List Bytes)) (p : Part) : List (List Bytes) :=
  paths.flatMap fun path =>
    [path ++ [p.long]] ++ (if p.short != p.long then [path ++ [p.short]] else [])
      ++ (if p.optional then [path] else [])

/-- `Command::paths` (command.rs:61-86). -/
def Command.paths (c : Command) : List (List Bytes) := c.parts.foldl extendPaths [[]]

inductive MacroErr where
  | commandExists
  | queryExists
  deriving DecidableEq, Repr, Inhabited

mutual
/-- `Tree::insert_at` (tree.rs:52-99, with the D9 repair: the same declaration may
be re-inserted). -/
def insertAt (n : Node) (path : List Bytes) (id : Nat) (isQuery : Bool) : Except MacroErr Node :=
  match path with
  | [] =>
    match n with
    | .mk t ch cmd q =>
      if isQuery then
        match q with
        | some existing => if existing = id then .ok n else .error .queryExists
        | none => .ok (.mk t ch cmd (some id))
      else
        match cmd with
        | some existing => if existing = id then .ok n else .error .commandExists
        | none => .ok (.mk t ch (some id) q)
  | part :: rest =>
    match n with
    | .mk t ch cmd q =>
      match insertChild ch part rest id isQuery with
      | .ok ch' => .ok (.mk t ch' cmd q)
      | .error e => .error e
/-- `children.entry(part)`: descend into the child with exactly this key, or
append a new one. -/
def insertChild (ch : List (Bytes × Node)) (part : Bytes) (rest : List Bytes) (id : Nat)
    (isQuery : Bool) : Except MacroErr (List (Bytes × Node)) :=
  match ch with
  | [] =>
    match insertAt (.mk 0 [] none none) rest id isQuery with
    | .ok n => .ok [(part, n)]
    | .error e => .error e
  | (k, c) :: more =>
    if k = part then
      match insertAt c rest id isQuery with
      | .ok c' => .ok ((k, c') :: more)
      | .error e => .error e
    else
      match insertChild more part rest id isQuery with
      | .ok more' => .ok ((k, c) :: more')
      | .error e => .error e
end

/-- `Tree::insert` (tree.rs:45-50): all paths of one declaration, first error wins. -/
def insertPaths (n : Node) : List (List Bytes) → Nat → Bool → Except MacroErr Node
  | [], _, _ => .ok n
  | p :: ps, id, q =>
    match insertAt n p id q with
    | .ok n' => insertPaths n' ps id q
    | .error e => .error e

/-- Insert the declarations `cmds` in order, ids counting from `start`; on
failure the index of the failing declaration and the tree reached are returned. -/
def insertAll (n : Node) : List Command → Nat → Except (MacroErr × Nat × Node) Node
  | [], _ => .ok n
  | c :: cs, id =>
    match insertPaths n c.paths id c.query with
    | .ok n' => insertAll n' cs (id + 1)
    | .error e => .error (e, id, n)

def emptyNode : Node := .mk 0 [] none none

/-- The declarations the attribute appends (lib.rs:202-232). -/
def standardDecls (standard errorCmds : Bool) : List Bytes :=
  (if standard then [strBytes "SYSTem:VERSion?"] else []) ++
  (if errorCmds then [strBytes "SYSTem:ERRor:[NEXT]?", strBytes "SYSTem:ERRor:COUNt?"] else [])

end Scpi
