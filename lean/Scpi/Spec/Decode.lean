/-
Specification side of C04 (response formatting): the *shapes* of response values
(`RespTy`, the Rust types that implement `Response`), the typing relation
`HasTy`, the well-formedness conditions under which response text can be decoded
again, and `decode`, a type-directed reader of IEEE 488.2 response data.

`decode` is written independently of the model's `Resp.calls`/`Resp.encode`: it
never calls them.  The only model function it uses is `parseFloat` (the re-stated
contract of Rust's `str::parse::<f32|f64>`), which is a *parameter* of the float
round trip (see `FloatTextOk`).
-/
import Scpi.Response

namespace Scpi

/-! ### Conditions on response values -/

/-- An error value is *canonical* when no other error value prints the same
`<number>,"<description>"` pair.  `Error::Custom(n, d)` with the number and text
of a standard error is indistinguishable from that standard error on the wire
(see `C04.err_not_injective`), so such custom errors are excluded from the
round trip. -/
def Err.Canonical : Err → Prop
  | .std _ => True
  | .custom n d => ∀ e : StdErr, ¬ (e.number = n ∧ strBytes e.describe = d)

/-- What a leaf of a response value must satisfy to be decodable:

* character data (`Characters`) is written verbatim, so it must not be empty (an
  empty element is indistinguishable from no element in a list) and must not
  contain a comma (the element separator): `C04.ambiguous_chars`.  Nothing else is
  excluded: the reader is type-directed, so a quote, `#` or even a newline in
  character data does not confuse `decode` (a newline would confuse whoever
  splits the response stream into lines, which is outside `decode`);
* floats are finite: NaN and the infinities are *replaced* by the sentinels
  `9.91E+37` / `±9.9E+37` (`C04.nan_sentinel`, `C04.inf_sentinel`) and do not round-trip;
* a block has fewer than 10^9 bytes: longer ones are refused by
  `write_response` (`C04.arb_too_long`);
* errors are canonical (`Err.Canonical`). -/
def Resp.LeafWF : Resp → Prop
  | .chars s => s ≠ [] ∧ 44 ∉ s
  | .f32 b => fmt32.isNan b = false ∧ fmt32.isInf b = false
  | .f64 b => fmt64.isNan b = false ∧ fmt64.isInf b = false
  | .arb s => s.length < 10 ^ 9
  | .err e => e.Canonical
  | _ => True

mutual
/-- `P` holds of every leaf (non-sequence node) of a response value. -/
def Resp.All (P : Resp → Prop) : Resp → Prop
  | .seq l => Resp.AllL P l
  | .unit => P .unit
  | .bool b => P (.bool b)
  | .int v => P (.int v)
  | .f32 b => P (.f32 b)
  | .f64 b => P (.f64 b)
  | .str s => P (.str s)
  | .chars s => P (.chars s)
  | .arb s => P (.arb s)
  | .err e => P (.err e)
def Resp.AllL (P : Resp → Prop) : List Resp → Prop
  | [] => True
  | r :: rs => Resp.All P r ∧ Resp.AllL P rs
end

/-- Well-formed response value: every leaf satisfies `Resp.LeafWF`. -/
def Resp.WF (r : Resp) : Prop := r.All Resp.LeafWF

/-! ### The formatter contract for floats (checked by translation validation) -/

namespace C04

/-- ASCII digit. -/
def isDig (b : Nat) : Bool := decide (48 ≤ b) && decide (b ≤ 57)

/-- "Plain decimal" text: optional `-`, one or more digits, optionally `.` and
one or more digits.  No exponent, no `+`, no blanks — what `Display` for `f32`
and `f64` prints for finite values. -/
def isPlainDecimal (s : Bytes) : Bool :=
  let body := if s.head? = some 45 then s.tail else s
  let ip := body.takeWhile isDig
  let r := body.dropWhile isDig
  !ip.isEmpty && (r.isEmpty || (r.head? == some 46 && !r.tail.isEmpty && r.tail.all isDig))

/-- The contract between `Display for f32|f64` (`floatText`) and
`str::parse` (`parseFloat`) for ONE finite value: the text is plain decimal and
parses back to exactly the same bits.  The shortest-digits algorithm is not
proved correct in general; the driver checks `FloatTextOk` on every float the
implementation prints. -/
def FloatTextOk (f : FloatFmt) (bits : Nat) : Prop :=
  isPlainDecimal (floatText f bits) = true ∧ parseFloat f (floatText f bits) = some bits

/-- The contract is executable: the driver evaluates it for every float it sees. -/
instance (f : FloatFmt) (bits : Nat) : Decidable (FloatTextOk f bits) :=
  inferInstanceAs (Decidable (_ ∧ _))

/-- The float leaves of a value satisfy the formatter contract. -/
def LeafFloatOk : Resp → Prop
  | .f32 b => fmt32.isNan b = false → fmt32.isInf b = false → FloatTextOk fmt32 b
  | .f64 b => fmt64.isNan b = false → fmt64.isInf b = false → FloatTextOk fmt64 b
  | _ => True

/-- `FloatTextOk` holds for every finite float occurring in the value. -/
def FloatsOk (r : Resp) : Prop := r.All LeafFloatOk

/-! ### Shapes -/

/-- The shape of a response: which `impl Response` produced it.  All integer types
share `int`, all string types share `str`; tuples are `seq` (one type per
position), slices and `heapless::Vec` are `list` (one type for all elements). -/
inductive RespTy where
  | unit | bool | int | f32 | f64 | str | chars | arb | err
  | seq (elems : List RespTy)
  | list (elem : RespTy)
  deriving Repr, Inhabited

mutual
/-- The typing relation (`Resp.seq` is used for tuples and for lists). -/
inductive HasTy : Resp → RespTy → Prop where
  | unit : HasTy .unit .unit
  | bool (b : Bool) : HasTy (.bool b) .bool
  | int (v : Int) : HasTy (.int v) .int
  | f32 (b : Nat) : HasTy (.f32 b) .f32
  | f64 (b : Nat) : HasTy (.f64 b) .f64
  | str (s : Bytes) : HasTy (.str s) .str
  | chars (s : Bytes) : HasTy (.chars s) .chars
  | arb (s : Bytes) : HasTy (.arb s) .arb
  | err (e : Err) : HasTy (.err e) .err
  /-- a tuple: one type per position -/
  | tuple {l : List Resp} {ts : List RespTy} : HasTys l ts → HasTy (.seq l) (.seq ts)
  /-- a slice or `heapless::Vec`: any number of elements of one type -/
  | list {l : List Resp} {t : RespTy} : (∀ x, x ∈ l → HasTy x t) → HasTy (.seq l) (.list t)
/-- Position-wise typing of the components of a tuple. -/
inductive HasTys : List Resp → List RespTy → Prop where
  | nil : HasTys [] []
  | cons {r : Resp} {t : RespTy} {rs : List Resp} {ts : List RespTy} :
      HasTy r t → HasTys rs ts → HasTys (r :: rs) (t :: ts)
end

mutual
/-- A type of fixed arity: no variable-length `list` anywhere inside. -/
def RespTy.fixed : RespTy → Bool
  | .seq ts => RespTy.fixedL ts
  | .list _ => false
  | _ => true
def RespTy.fixedL : List RespTy → Bool
  | [] => true
  | t :: ts => t.fixed && RespTy.fixedL ts
end

/-- Every (well-formed) value of the type has a non-empty text: all leaves but
`unit`; a tuple with at least two positions (it contains a comma) or with one
position of such a type. -/
def RespTy.nonEmpty : RespTy → Bool
  | .unit => false
  | .list _ => false
  | .seq [] => false
  | .seq [t] => t.nonEmpty
  | .seq (_ :: _ :: _) => true
  | _ => true

mutual
/-- Types whose text can be decoded by a type-directed, left-to-right reader.
Response text has no brackets: nested tuples and lists are simply flattened, so

* a variable-length `list` may only occur in tail position — as the whole
  response, or as the last position of a tuple that is itself in tail position;
  every other position must be `fixed`.  Two lists in one tuple are genuinely
  ambiguous (`([1],[2,3])` and `([1,2],[3])` both print `1,2,3`:
  `C04.ambiguous_two_lists`), and so is a list of lists (`[[1],[2]]` prints like
  `[[1,2]]`: `C04.ambiguous_nested_list`).  A single list followed by fixed
  positions (`(Vec<i32>, i32)`) would still be unambiguous, but reading it needs
  look-ahead to the end of the text; it is excluded to keep the reader simple;
* the elements of a `list` must have non-empty text (`nonEmpty`): the lists `[()]`
  and `[[]]` print nothing, exactly like `[]` (`C04.ambiguous_unit_list`).

`unit` positions inside tuples ARE allowed (they print nothing between their
commas; a type-directed reader copes), and so are empty tuples. -/
def RespTy.WF : RespTy → Bool
  | .seq ts => RespTy.WFL ts
  | .list t => t.fixed && t.nonEmpty
  | _ => true
def RespTy.WFL : List RespTy → Bool
  | [] => true
  | t :: ts => (if ts.isEmpty then t.WF else t.fixed) && RespTy.WFL ts
end

/-! ### The decoder -/

/-- Value of a string of decimal digits. -/
def decVal (ds : Bytes) : Nat := ds.foldl (fun a b => a * 10 + (b - 48)) 0

/-- One or more digits. -/
def decNat (i : Bytes) : Option (Nat × Bytes) :=
  let ds := i.takeWhile isDig
  if ds.isEmpty then none else some (decVal ds, i.dropWhile isDig)

/-- NR1 numeric response data: `[-]digits`. -/
def decInt (i : Bytes) : Option (Int × Bytes) :=
  if i.head? = some 45 then (decNat i.tail).map fun (n, r) => (-(n : Int), r)
  else (decNat i).map fun (n, r) => ((n : Int), r)

/-- Boolean response data: `0` or `1`. -/
def decBool : Bytes → Option (Bool × Bytes)
  | [] => none
  | b :: r => if b = 48 then some (false, r) else if b = 49 then some (true, r) else none

/-- The inside of string response data after the opening quote, up to the closing
quote; `""` stands for one `"`. -/
def unquote : Bytes → Option (Bytes × Bytes)
  | [] => none
  | b :: r =>
    if b = 34 then
      match r with
      | c :: r' => if c = 34 then (unquote r').map fun (s, t) => (34 :: s, t) else some ([], r)
      | [] => some ([], [])
    else (unquote r).map fun (s, t) => (b :: s, t)

/-- String response data: `"…"`. -/
def decStr : Bytes → Option (Bytes × Bytes)
  | [] => none
  | b :: r => if b = 34 then unquote r else none

/-- Definite length arbitrary block response data: `#`, one non-zero digit `k`,
`k` digits giving the length `n`, `n` bytes.  (`#10` is the empty block.) -/
def decArb : Bytes → Option (Bytes × Bytes)
  | h :: d :: r =>
    if h = 35 ∧ 49 ≤ d ∧ d ≤ 57 then
      let k := d - 48
      let ld := r.take k
      let r1 := r.drop k
      if ld.length = k ∧ ld.all isDig = true then
        let n := decVal ld
        if n ≤ r1.length then some (r1.take n, r1.drop n) else none
      else none
    else none
  | _ => none

/-- The text up to the next comma (or the end). -/
def upToComma (i : Bytes) : Bytes × Bytes := (i.takeWhile (· != 44), i.dropWhile (· != 44))

/-- Character response data: everything up to the next comma, not empty. -/
def decChars (i : Bytes) : Option (Bytes × Bytes) :=
  if (upToComma i).1.isEmpty then none else some (upToComma i)

/-- NR2 numeric response data: the text up to the next comma, read by `str::parse`. -/
def decFloat (f : FloatFmt) (i : Bytes) : Option (Nat × Bytes) :=
  (parseFloat f (upToComma i).1).map fun b => (b, (upToComma i).2)

/-- A comma. -/
def expectComma : Bytes → Option Bytes
  | [] => none
  | b :: r => if b = 44 then some r else none

/-- The error value printed as `<number>,"<description>"`: the standard error with
that number and description if there is one, a custom error otherwise. -/
def errOfPair (n : Int) (d : Bytes) : Err :=
  match StdErr.all.find? (fun e => decide (e.number = n) && decide (strBytes e.describe = d)) with
  | some e => .std e
  | none => .custom n d

/-- An error: integer, comma, string. -/
def decErr (i : Bytes) : Option (Err × Bytes) :=
  (decInt i).bind fun (n, r1) =>
  (expectComma r1).bind fun r2 =>
  (decStr r2).map fun (d, r3) => (errOfPair n d, r3)

/-- One or more `p`, separated by commas (`fuel` bounds the number of elements). -/
def sepBy1 (p : Bytes → Option (Resp × Bytes)) : Nat → Bytes → Option (List Resp × Bytes)
  | 0, _ => none
  | fuel + 1, i =>
    (p i).bind fun (x, rest) =>
      match rest with
      | [] => some ([x], [])
      | c :: rest' =>
        if c = 44 then (sepBy1 p fuel rest').map fun (xs, r) => (x :: xs, r)
        else some ([x], rest)

mutual
/-- Type-directed reader: the value at the front of the text and the unread rest. -/
def decodeP : RespTy → Bytes → Option (Resp × Bytes)
  | .unit, i => some (.unit, i)
  | .bool, i => (decBool i).map fun (b, r) => (.bool b, r)
  | .int, i => (decInt i).map fun (v, r) => (.int v, r)
  | .f32, i => (decFloat fmt32 i).map fun (b, r) => (.f32 b, r)
  | .f64, i => (decFloat fmt64 i).map fun (b, r) => (.f64 b, r)
  | .str, i => (decStr i).map fun (s, r) => (.str s, r)
  | .chars, i => (decChars i).map fun (s, r) => (.chars s, r)
  | .arb, i => (decArb i).map fun (s, r) => (.arb s, r)
  | .err, i => (decErr i).map fun (e, r) => (.err e, r)
  | .seq ts, i => (decodeSeq ts true i).map fun (xs, r) => (.seq xs, r)
  | .list t, i =>
    if i.isEmpty then some (.seq [], [])
    else (sepBy1 (decodeP t) (i.length + 1) i).map fun (xs, r) => (.seq xs, r)
/-- One value per type, separated by commas. -/
def decodeSeq : List RespTy → Bool → Bytes → Option (List Resp × Bytes)
  | [], _, i => some ([], i)
  | t :: ts, first, i =>
    (if first then some i else expectComma i).bind fun i1 =>
    (decodeP t i1).bind fun (x, i2) =>
    (decodeSeq ts false i2).map fun (xs, i3) => (x :: xs, i3)
end

/-- Decode a complete response (without the terminating newline) of type `ty`:
the whole text must be used up. -/
def decode (ty : RespTy) (i : Bytes) : Option Resp :=
  match decodeP ty i with
  | some (r, []) => some r
  | _ => none

end C04
end Scpi
