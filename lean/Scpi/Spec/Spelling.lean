/-
Abstract specification of "a header spelling of a declaration" (C01 / C14),
independent of the macro's path enumeration and of the trie.

A declaration is a list of parts (nodes).  A spelling picks, for every part in
order, its long form or its short form, or — for an optional part only —
nothing.
-/
import Scpi.Macro

namespace Scpi

/-- `Expands parts path`: `path` is obtained from `parts` by replacing every part
by its long form or its short form, or by dropping it when it is optional. -/
inductive Expands : List Part → List Bytes → Prop where
  | nil : Expands [] []
  | long (p : Part) {ps : List Part} {t : List Bytes} :
      Expands ps t → Expands (p :: ps) (p.long :: t)
  | short (p : Part) {ps : List Part} {t : List Bytes} :
      Expands ps t → Expands (p :: ps) (p.short :: t)
  | skip (p : Part) {ps : List Part} {t : List Bytes} :
      p.optional = true → Expands ps t → Expands (p :: ps) t

/-- `path` is one of the spellings (sequence of exact trie keys) of declaration `c`. -/
def Spells (c : Command) (path : List Bytes) : Prop := Expands c.parts path

/-- Executable version of `Expands`. -/
def expandsB : List Part → List Bytes → Bool
  | [], [] => true
  | [], _ :: _ => false
  | p :: ps, [] => p.optional && expandsB ps []
  | p :: ps, k :: t =>
    ((k == p.long || k == p.short) && expandsB ps t) || (p.optional && expandsB ps (k :: t))

theorem expands_nil_iff (path : List Bytes) : Expands [] path ↔ path = [] := by
  constructor
  · intro h; cases h; rfl
  · intro h; subst h; exact .nil

theorem expands_cons_iff (p : Part) (ps : List Part) (path : List Bytes) :
    Expands (p :: ps) path ↔
      (∃ t, path = p.long :: t ∧ Expands ps t) ∨ (∃ t, path = p.short :: t ∧ Expands ps t) ∨
        (p.optional = true ∧ Expands ps path) := by
  constructor
  · intro h
    cases h with
    | long _ h => exact .inl ⟨_, rfl, h⟩
    | short _ h => exact .inr (.inl ⟨_, rfl, h⟩)
    | skip _ ho h => exact .inr (.inr ⟨ho, h⟩)
  · rintro (⟨t, rfl, h⟩ | ⟨t, rfl, h⟩ | ⟨ho, h⟩)
    · exact .long p h
    · exact .short p h
    · exact .skip p ho h

theorem expandsB_iff (ps : List Part) (path : List Bytes) :
    expandsB ps path = true ↔ Expands ps path := by
  induction ps generalizing path with
  | nil =>
    cases path with
    | nil => simp [expandsB, expands_nil_iff]
    | cons k t => simp [expandsB, expands_nil_iff]
  | cons p ps ih =>
    cases path with
    | nil => simp [expandsB, expands_cons_iff, ih]
    | cons k t =>
      simp only [expandsB, expands_cons_iff, Bool.or_eq_true, Bool.and_eq_true, beq_iff_eq, ih,
        List.cons.injEq]
      constructor
      · rintro (⟨h | h, he⟩ | h)
        · exact .inl ⟨t, ⟨h, rfl⟩, he⟩
        · exact .inr (.inl ⟨t, ⟨h, rfl⟩, he⟩)
        · exact .inr (.inr h)
      · rintro (⟨t', ⟨h, rfl⟩, he⟩ | ⟨t', ⟨h, rfl⟩, he⟩ | h)
        · exact .inl ⟨.inl h, he⟩
        · exact .inl ⟨.inr h, he⟩
        · exact .inr h

instance (ps : List Part) (path : List Bytes) : Decidable (Expands ps path) :=
  decidable_of_iff _ (expandsB_iff ps path)

instance (c : Command) (path : List Bytes) : Decidable (Spells c path) :=
  inferInstanceAs (Decidable (Expands c.parts path))

/-- Every key of a spelling is the long or the short form of one of the parts. -/
theorem Expands.key_mem {ps : List Part} {path : List Bytes} (h : Expands ps path) :
    ∀ k ∈ path, ∃ p ∈ ps, k = p.long ∨ k = p.short := by
  induction h with
  | nil => intro k hk; cases hk
  | long p _ ih =>
    intro k hk
    rcases List.mem_cons.1 hk with rfl | hk
    · exact ⟨p, List.mem_cons_self, .inl rfl⟩
    · obtain ⟨p', hp', h'⟩ := ih k hk
      exact ⟨p', List.mem_cons_of_mem _ hp', h'⟩
  | short p _ ih =>
    intro k hk
    rcases List.mem_cons.1 hk with rfl | hk
    · exact ⟨p, List.mem_cons_self, .inr rfl⟩
    · obtain ⟨p', hp', h'⟩ := ih k hk
      exact ⟨p', List.mem_cons_of_mem _ hp', h'⟩
  | skip p _ _ ih =>
    intro k hk
    obtain ⟨p', hp', h'⟩ := ih k hk
    exact ⟨p', List.mem_cons_of_mem _ hp', h'⟩

/-- The all-long spelling always exists when no part is dropped. -/
theorem expands_long (ps : List Part) : Expands ps (ps.map (·.long)) := by
  induction ps with
  | nil => exact .nil
  | cons p ps ih => exact .long p ih

/-- The all-short spelling. -/
theorem expands_short (ps : List Part) : Expands ps (ps.map (·.short)) := by
  induction ps with
  | nil => exact .nil
  | cons p ps ih => exact .short p ih

/-- The spelling that omits every optional part and uses the short form otherwise. -/
theorem expands_minimal (ps : List Part) :
    Expands ps ((ps.filter (fun p => !p.optional)).map (·.short)) := by
  induction ps with
  | nil => exact .nil
  | cons p ps ih =>
    cases ho : p.optional with
    | true => simpa [List.filter, ho] using Expands.skip p ho ih
    | false => simpa [List.filter, ho] using Expands.short p ih

/-- A program header, given as its list of mnemonics, matches a declaration's
parts: every mnemonic equals, ignoring ASCII case, the long form or the short
form of the corresponding part; optional parts may be present or omitted
(the C01 acceptance rule, stated on what the user types). -/
inductive HeaderMatches : List Part → List Bytes → Prop where
  | nil : HeaderMatches [] []
  | node (p : Part) {ps : List Part} (name : Bytes) {ns : List Bytes} :
      (eqIgnoreAsciiCase p.long name = true ∨ eqIgnoreAsciiCase p.short name = true) →
      HeaderMatches ps ns → HeaderMatches (p :: ps) (name :: ns)
  | skip (p : Part) {ps : List Part} {ns : List Bytes} :
      p.optional = true → HeaderMatches ps ns → HeaderMatches (p :: ps) ns

/-- Executable version of `HeaderMatches`. -/
def headerMatchesB : List Part → List Bytes → Bool
  | [], [] => true
  | [], _ :: _ => false
  | p :: ps, [] => p.optional && headerMatchesB ps []
  | p :: ps, name :: ns =>
    ((eqIgnoreAsciiCase p.long name || eqIgnoreAsciiCase p.short name) && headerMatchesB ps ns) ||
      (p.optional && headerMatchesB ps (name :: ns))

theorem headerMatchesB_iff (ps : List Part) (ns : List Bytes) :
    headerMatchesB ps ns = true ↔ HeaderMatches ps ns := by
  induction ps generalizing ns with
  | nil =>
    cases ns with
    | nil => simp [headerMatchesB, HeaderMatches.nil]
    | cons n ns => simp only [headerMatchesB, Bool.false_eq_true, false_iff]; intro h; cases h
  | cons p ps ih =>
    cases ns with
    | nil =>
      simp only [headerMatchesB, Bool.and_eq_true, ih]
      constructor
      · rintro ⟨ho, h⟩; exact .skip p ho h
      · intro h; cases h with | skip _ ho h => exact ⟨ho, h⟩
    | cons n ns =>
      simp only [headerMatchesB, Bool.or_eq_true, Bool.and_eq_true, ih]
      constructor
      · rintro (⟨hm, h⟩ | ⟨ho, h⟩)
        · exact .node p n hm h
        · exact .skip p ho h
      · intro h
        cases h with
        | node _ _ hm h => exact .inl ⟨hm, h⟩
        | skip _ ho h => exact .inr ⟨ho, h⟩

instance (ps : List Part) (ns : List Bytes) : Decidable (HeaderMatches ps ns) :=
  decidable_of_iff _ (headerMatchesB_iff ps ns)

end Scpi
