/-
What "an interface built with `ErrorCommands`" is in the model (commands.rs).

In the Rust crate the user implements `ErrorCommands::error_queue(&mut self) ->
&mut impl ErrorQueue` on the interface struct; the crate then supplies

* `impl<I: ErrorCommands> ErrorHandler for I` — `handle_error` pushes the error on
  that queue (`handleErrorQueue`), and
* the two handlers `system_error_next` / `system_error_count`, which the attribute
  macro registers under `SYSTem:ERRor:[NEXT]?` / `SYSTem:ERRor:COUNt?` with no
  parameters.

`error_queue()` is a mutable borrow of one field of the user state: a lens
(`getQ`, `setQ`).  Every other handler is user code; the assumption made about it
(`others_keep`) is that it does not touch the error queue.
-/
import Scpi.Commands
import Scpi.Exec

namespace Scpi
namespace E2E

/-- An interface whose error handling is the one `ErrorCommands` provides. -/
structure ErrIface (σ : Type) where
  /-- the dispatcher's view of the interface -/
  I : Iface σ
  /-- `error_queue()`: the queue component of the user state … -/
  getQ : σ → EQueue
  /-- … and writing through the `&mut` -/
  setQ : σ → EQueue → σ
  get_set : ∀ s q, getQ (setQ s q) = q
  set_get : ∀ s, setQ s (getQ s) = s
  set_set : ∀ s q q', setQ (setQ s q) q' = setQ s q'
  /-- the blanket `impl ErrorHandler for I: ErrorCommands` -/
  onError_eq : ∀ s e, I.onError s e = setQ s (handleErrorQueue (getQ s) e)
  /-- command id of `system_error_next` -/
  idNext : Nat
  /-- command id of `system_error_count` -/
  idCount : Nat
  ids_ne : idNext ≠ idCount
  /-- `SYSTem:ERRor[:NEXT]?`: no parameters, the handler is `systemErrorNext` on the
  queue component -/
  next_cmd : ∃ c, I.cmds[idNext]? = some c ∧ c.argTys = [] ∧
    ∀ s tvs, c.handler s tvs =
      (setQ s (systemErrorNext (getQ s)).1, .ok (systemErrorNext (getQ s)).2)
  /-- `SYSTem:ERRor:COUNt?`: no parameters, the handler is `systemErrorCount` on the
  queue component; the state is unchanged -/
  count_cmd : ∃ c, I.cmds[idCount]? = some c ∧ c.argTys = [] ∧
    ∀ s tvs, c.handler s tvs = (s, .ok (systemErrorCount (getQ s)))
  /-- every other handler leaves the queue alone -/
  others_keep : ∀ id c, I.cmds[id]? = some c → id ≠ idNext → id ≠ idCount →
    ∀ s tvs, getQ (c.handler s tvs).1 = getQ s

namespace ErrIface
variable {σ : Type} (E : ErrIface σ)

/-- The error handler pushes on the queue component. -/
theorem getQ_onError (s : σ) (e : Err) : E.getQ (E.I.onError s e) = (E.getQ s).push e := by
  rw [E.onError_eq, E.get_set]; rfl

/-- What the handler with number `id` does to the queue when it is invoked:
`NEXT?` pops, every other handler does nothing. -/
def handlerEffect (id : Nat) (q : EQueue) : EQueue := if id = E.idNext then q.pop.2 else q

theorem systemErrorNext_fst (q : EQueue) : (systemErrorNext q).1 = q.pop.2 := by
  unfold systemErrorNext
  rcases h : q.pop with ⟨o, q'⟩
  cases o <;> rfl

/-- The queue after handler number `id` ran. -/
theorem getQ_handler (id : Nat) (c : Cmd σ) (hc : E.I.cmds[id]? = some c) (s : σ) (tvs : List TVal) :
    E.getQ (c.handler s tvs).1 = E.handlerEffect id (E.getQ s) := by
  unfold handlerEffect
  by_cases h1 : id = E.idNext
  · subst h1
    obtain ⟨c', hc', _, hh⟩ := E.next_cmd
    rw [hc] at hc'; cases hc'
    rw [if_pos rfl, hh, E.get_set, systemErrorNext_fst]
  · rw [if_neg h1]
    by_cases h2 : id = E.idCount
    · subst h2
      obtain ⟨c', hc', _, hh⟩ := E.count_cmd
      rw [hc] at hc'; cases hc'
      rw [hh]
    · exact E.others_keep id c hc h1 h2 s tvs

end ErrIface
end E2E
end Scpi
