/-
Exact-key lookup in a command tree: the observation through which the macro's
trie is specified (C14) and to which the run-time's case-insensitive lookup is
related (C01).
-/
import Scpi.Tree

namespace Scpi

/-- First child whose key is exactly `key`. -/
def lookupKey : List (Bytes × Node) → Bytes → Option Node
  | [], _ => none
  | (k, n) :: rest, key => if k = key then some n else lookupKey rest key

/-- Follow `children` by key equality. -/
def walk : Node → List Bytes → Option Node
  | n, [] => some n
  | n, k :: ks => (lookupKey n.children k).bind fun c => walk c ks

/-- The handler slot of a node for the given kind (`true` = query). -/
def slot (q : Bool) (n : Node) : Option Nat := if q then n.query else n.command

/-- The handler id stored for path `p` and kind `q`, if any. -/
def lookupId (q : Bool) (n : Node) (p : List Bytes) : Option Nat := (walk n p).bind (slot q)

/-- Follow `children` with the run-time's `Node.child` (first key equal ignoring
ASCII case) — what `compound_command_program_header` does with the mnemonics of a
program header. -/
def childWalk : Node → List Bytes → Option Node
  | n, [] => some n
  | n, name :: names => (n.child name).bind fun c => childWalk c names

end Scpi
