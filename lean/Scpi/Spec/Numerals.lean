/-
Specification side of C03 (parameter conversion): what an integer literal *is* and
what it *means*, written without reference to the model's `fromStrRadix`.

A numeral in radix `r` is an optional sign followed by at least one digit; its value
is the number the digits denote in positional notation, negated after a `-`.  The
model function (`Scpi.fromStrRadix`, the re-statement of `core`'s `from_str_radix`)
is proved in `Scpi/Props/C03.lean` to return exactly this value when it lies in the
range of the integer type, and nothing otherwise.

For floats: the rational value of a finite IEEE-754 bit pattern, as a pair
(mantissa, binary exponent), so that "nearest" can be stated by cross-multiplication
over the integers (no rational numbers needed).
-/
import Scpi.Value

namespace Scpi
namespace C03

/-! ### Integer literals -/

/-- The value of one ASCII digit: `0`-`9` are 0..9, `a`-`z` and `A`-`Z` are 10..35;
no other byte is a digit. -/
def charDigit (b : Nat) : Option Nat :=
  if 48 ≤ b ∧ b ≤ 57 then some (b - 48)
  else if 97 ≤ b ∧ b ≤ 122 then some (b - 97 + 10)
  else if 65 ≤ b ∧ b ≤ 90 then some (b - 65 + 10)
  else none

/-- Horner evaluation of a digit sequence, most significant digit first:
`digitsValue r [d₁, …, dₙ] = (…(d₁·r + d₂)·r + …)·r + dₙ = Σ dᵢ · r^(n-i)`
(`digitsValue_cons` below is the positional form). -/
def digitsValue (radix : Nat) (ds : List Nat) : Nat :=
  ds.foldl (fun acc d => acc * radix + d) 0

/-- The bytes `s` are digits of radix `radix` with the digit values `ds`, position by
position: every byte is an ASCII digit or letter and its value is below the radix. -/
def IsDigits (radix : Nat) (s : Bytes) (ds : List Nat) : Prop :=
  s.map charDigit = ds.map some ∧ ∀ d ∈ ds, d < radix

/-- `IsNumeral signed radix s v`: the text `s` is an integer literal of radix `radix`
and `v` is its mathematical value.  A literal is at least one digit, optionally
preceded by `+` (byte 43), or by `-` (byte 45) when the type is `signed`; the value is
the positional value of the digits, negated after `-`.  Nothing else is a literal: no
white space, no radix prefix, no digit separators, no sign for an unsigned type other
than `+`, and the empty digit string is excluded. -/
inductive IsNumeral (signed : Bool) (radix : Nat) : Bytes → Int → Prop where
  | unsignedDigits (s : Bytes) (ds : List Nat) (hne : s ≠ []) (hd : IsDigits radix s ds) :
      IsNumeral signed radix s (digitsValue radix ds)
  | plus (s : Bytes) (ds : List Nat) (hne : s ≠ []) (hd : IsDigits radix s ds) :
      IsNumeral signed radix (43 :: s) (digitsValue radix ds)
  | minus (s : Bytes) (ds : List Nat) (hs : signed = true) (hne : s ≠ [])
      (hd : IsDigits radix s ds) :
      IsNumeral signed radix (45 :: s) (-(digitsValue radix ds : Int))

/-- Positional reading of `digitsValue`: the leading digit weighs `radix ^ (number of
digits after it)`. -/
theorem digitsValue_cons (radix d : Nat) (ds : List Nat) :
    digitsValue radix (d :: ds) = d * radix ^ ds.length + digitsValue radix ds := by
  have key : ∀ (l : List Nat) (a : Nat),
      l.foldl (fun acc d => acc * radix + d) a =
        a * radix ^ l.length + l.foldl (fun acc d => acc * radix + d) 0 := by
    intro l
    induction l with
    | nil => intro a; simp
    | cons x xs ih =>
      intro a
      simp only [List.foldl_cons, List.length_cons, Nat.zero_mul, Nat.zero_add]
      rw [ih (a * radix + x), ih x, Nat.pow_succ, Nat.add_mul, Nat.add_assoc, Nat.mul_assoc,
        Nat.mul_comm radix]
  unfold digitsValue
  rw [List.foldl_cons, Nat.zero_mul, Nat.zero_add, key ds d]

theorem digitsValue_nil (radix : Nat) : digitsValue radix [] = 0 := rfl

/-! ### Finite floating-point values -/

/-- Mantissa and binary exponent of the finite, non-negative bit pattern `bits`
(`bits < f.infBits`): the value is `m * 2^e` with
`m = frac` and `e = 1 - bias - mbits` for a sub-normal (exponent field 0), and
`m = 2^mbits + frac`, `e = expField - bias - mbits` otherwise. -/
def fmant (f : FloatFmt) (bits : Nat) : Nat :=
  if f.expOf bits = 0 then f.fracOf bits else 2 ^ f.mbits + f.fracOf bits

def fexp (f : FloatFmt) (bits : Nat) : Int :=
  (if f.expOf bits = 0 then 1 else (f.expOf bits : Int)) - (f.bias : Int) - (f.mbits : Int)

/-- A common (negated) exponent offset: every finite value is an integer multiple of
`2^(-(bias + mbits - 1))`, the smallest sub-normal.  `fscaled f bits` is the value of
`bits` in that unit: `fval bits = fscaled f bits * 2^(1 - bias - mbits)`. -/
def fscaled (f : FloatFmt) (bits : Nat) : Nat :=
  fmant f bits * 2 ^ (if f.expOf bits = 0 then 0 else f.expOf bits - 1)

/-- The unit of `fscaled` as a fraction: `2^(1 - bias - mbits) = 1 / 2^(bias + mbits - 1)`. -/
def funitDen (f : FloatFmt) : Nat := 2 ^ (f.bias + f.mbits - 1)

end C03
end Scpi
