/-
Specification side of C03 (parameter conversion): what an integer literal *is* and
what it *means*, written without reference to the model's `fromStrRadix`.

A numeral in radix `r` is an optional sign followed by at least one digit; its value
is the number the digits denote in positional notation, negated after a `-`.  The
model function (`Scpi.fromStrRadix`, the re-statement of `core`'s `from_str_radix`)
is proved in `Scpi/Props/C03.lean` to return exactly this value when it lies in the
range of the integer type, and nothing otherwise.

For floats: the rational value of a finite IEEE-754 bit pattern, as a pair
(mantissa, binary exponent), so that "nearest" can be stated by cross-multiplication
over the integers (no rational numbers needed).
-/
import Scpi.Value

namespace Scpi
namespace C03

/-! ### Integer literals -/

/-- The value of one ASCII digit: `0`-`9` are 0..9, `a`-`z` and `A`-`Z` are 10..35;
no other byte is a digit. -/
def charDigit (b : Nat) : Option Nat :=
  if 48 ≤ b ∧ b ≤ 57 then some (b - 48)
  else if 97 ≤ b ∧ b ≤ 122 then some (b - 97 + 10)
  else if 65 ≤ b ∧ b ≤ 90 then some (b - 65 + 10)
  else none

/-- Horner evaluation of a digit sequence, most significant digit first:
`digitsValue r [d₁, …, dₙ] = (…(d₁·r + d₂)·r + …)·r + dₙ = Σ dᵢ · r^(n-i)`
(`digitsValue_cons` below is the positional form). -/
def digitsValue (radix : Nat) (ds : List Nat) : Nat :=
  ds.foldl (fun acc d => acc * radix + d) 0

/-- The bytes `s` are digits of radix `radix` with the digit values `ds`, position by
position: every byte is an ASCII digit or letter and its value is below the radix. -/
def IsDigits (radix : Nat) (s : Bytes) (ds : List Nat) : Prop :=
  s.map charDigit = ds.map some ∧ ∀ d ∈ ds, d < radix

/-- `IsNumeral signed radix s v`: the text `s` is an integer literal of radix `radix`
and `v` is its mathematical value.  A literal is at least one digit, optionally
preceded by `+` (byte 43), or by `-` (byte 45) when the type is `signed`; the value is
the positional value of the digits, negated after `-`.  Nothing else is a literal: no
white space, no radix prefix, no digit separators, no sign for an unsigned type other
than `+`, and the empty digit string is excluded. -/
inductive IsNumeral (signed : Bool) (radix : Nat) : Bytes → Int → Prop where
  | unsignedDigits (s : Bytes) (ds : List Nat) (hne : s ≠ []) (hd : IsDigits radix s ds) :
      IsNumeral signed radix s (digitsValue radix ds)
  | plus (s : Bytes) (ds : List Nat) (hne : s ≠ []) (hd : IsDigits radix s ds) :
      IsNumeral signed radix (43 :: s) (digitsValue radix ds)
  | minus (s : Bytes) (ds : List Nat) (hs : signed = true) (hne : s ≠ [])
      (hd : IsDigits radix s ds) :
      IsNumeral signed radix (45 :: s) (-(digitsValue radix ds : Int))

/-- Positional reading of `digitsValue`: the leading digit weighs `radix ^ (number of
digits after it)`. -/
theorem digitsValue_cons (radix d : Nat) (ds : List Nat) :
    digitsValue radix (d :: ds) = d * radix ^ ds.length + digitsValue radix ds := by
  have key : ∀ (l : List Nat) (a : Nat),
      l.foldl (fun acc d => acc * radix + d) a =
        a * radix ^ l.length + l.foldl (fun acc d => acc * radix + d) 0 := by
    intro l
    induction l with
    | nil => intro a; simp
    | cons x xs ih =>
      intro a
      simp only [List.foldl_cons, List.length_cons, Nat.zero_mul, Nat.zero_add]
      rw [ih (a * radix + x), ih x, Nat.pow_succ, Nat.add_mul, Nat.add_assoc, Nat.mul_assoc,
        Nat.mul_comm radix]
  unfold digitsValue
  rw [List.foldl_cons, Nat.zero_mul, Nat.zero_add, key ds d]

theorem digitsValue_nil (radix : Nat) : digitsValue radix [] = 0 := rfl

/-! ### Decimal real literals -/

/-- All bytes are ASCII decimal digits. -/
def AllDigits (s : Bytes) : Prop := ∀ b ∈ s, 48 ≤ b ∧ b ≤ 57

/-- The number a string of decimal digits denotes. -/
def decimalValue (s : Bytes) : Nat := digitsValue 10 (s.map (· - 48))

/-- `IsExponent ex x`: `ex` is an exponent part denoting `10^x` — empty (`x = 0`), or
`e`/`E`, an optional sign, and at least one digit. -/
inductive IsExponent : Bytes → Int → Prop where
  | absent : IsExponent [] 0
  | plain (c : Nat) (ed : Bytes) (hc : c = 69 ∨ c = 101) (hne : ed ≠ []) (hd : AllDigits ed) :
      IsExponent (c :: ed) (decimalValue ed)
  | plus (c : Nat) (ed : Bytes) (hc : c = 69 ∨ c = 101) (hne : ed ≠ []) (hd : AllDigits ed) :
      IsExponent (c :: 43 :: ed) (decimalValue ed)
  | minus (c : Nat) (ed : Bytes) (hc : c = 69 ∨ c = 101) (hne : ed ≠ []) (hd : AllDigits ed) :
      IsExponent (c :: 45 :: ed) (-(decimalValue ed : Int))

/-- `IsDecimalText s mant exp10`: the text `s` (without sign) is a decimal real literal
`ip [. fp] [exponent]` with at least one digit in `ip`, `fp` together, and it denotes
`mant · 10^exp10`, where `mant` is the number written by the digits `ip fp` and
`exp10` is the exponent minus the number of fraction digits — i.e. the value is
`ip.fp · 10^x`. -/
def IsDecimalText (s : Bytes) (mant : Nat) (exp10 : Int) : Prop :=
  ∃ (ip fp ex : Bytes) (x : Int), AllDigits ip ∧ AllDigits fp ∧ ip ++ fp ≠ [] ∧ IsExponent ex x ∧
    ((s = ip ++ ex ∧ fp = []) ∨ s = ip ++ 46 :: (fp ++ ex)) ∧
    mant = decimalValue (ip ++ fp) ∧ exp10 = x - (fp.length : Int)

/-! ### Finite floating-point values

The value of the finite, non-negative bit pattern `bits` (`bits < f.infBits`) with
exponent field `E = f.expOf bits` and fraction field `F = f.fracOf bits` is

* `F · 2^(1 - bias - mbits)` when `E = 0` (zero and the sub-normal numbers),
* `(2^mbits + F) · 2^(E - bias - mbits)` otherwise (the normal numbers).

Every such value is a multiple of the smallest sub-normal `2^(1 - bias - mbits)
= 1 / 2^(bias + mbits - 1)`; so, without rational numbers,

    value bits = fscaled f bits / funitDen f

with the two natural numbers below, and "`value u` is at least as far from `n/d` as
`value b`" is the cross-multiplied `fdist f n d b ≤ fdist f n d u`. -/

/-- Integer significand: `F` for `E = 0`, `2^mbits + F` otherwise. -/
def fmant (f : FloatFmt) (bits : Nat) : Nat :=
  if f.expOf bits = 0 then f.fracOf bits else 2 ^ f.mbits + f.fracOf bits

/-- Binary exponent of the significand's unit: the value is `fmant · 2^fexp`. -/
def fexp (f : FloatFmt) (bits : Nat) : Int :=
  (if f.expOf bits = 0 then 1 else (f.expOf bits : Int)) - (f.bias : Int) - (f.mbits : Int)

/-- The value in units of the smallest sub-normal: `fmant · 2^(E - 1)` for `E ≥ 1`,
`fmant` for `E = 0` (`E - 1` is truncated subtraction, so one formula serves both). -/
def fscaled (f : FloatFmt) (bits : Nat) : Nat := fmant f bits * 2 ^ (f.expOf bits - 1)

/-- One over the smallest sub-normal: `2^(bias + mbits - 1)`. -/
def funitDen (f : FloatFmt) : Nat := 2 ^ (f.bias + f.mbits - 1)

/-- `|a - b|` on natural numbers. -/
def absDiff (a b : Nat) : Nat := (a - b) + (b - a)

/-- Distance between the value of `bits` and `n/d`, multiplied by `d · funitDen f`:
`|fscaled bits / funitDen - n/d| · d · funitDen = |fscaled bits · d - n · funitDen|`. -/
def fdist (f : FloatFmt) (n d bits : Nat) : Nat := absDiff (fscaled f bits * d) (n * funitDen f)

end C03
end Scpi
