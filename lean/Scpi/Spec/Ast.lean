/-
Abstract syntax of a well-formed program message unit and its renderings.

A unit is a header (`Hdr`) and at most ten literals (`Lit`).  A *rendering* of a
unit is determined by lexical choices (`Lex`: the white space that the syntax
allows before the unit, between header and parameters, around the commas and before
the terminator) and by the terminator (`Term`).  The letter case of the mnemonics,
the case of the `#H/#Q/#B` prefixes, the quote kind and the number of length digits
of a block are part of the AST because the parser delivers (or looks up) the text as
it is spelled; theorems about them are stated on the AST (`Lit.value`, `resolve`).

`parse_render` (Scpi/Props/C11.lean) says what `parse` returns on every rendering.
-/
import Scpi.Parse
import Scpi.Spec.Lookup

namespace Scpi

/-! ### White space and mnemonics -/

/-- Every byte is white space (`0..=9 | 11..=32`). -/
def allWs (w : Bytes) : Bool := w.all isWs

/-- A program mnemonic: a letter followed by letters, digits and underscores. -/
def isMnemonicText : Bytes → Bool
  | [] => false
  | b :: r => isAlpha b && r.all isMnemonicTail

/-! ### Decimal numbers -/

/-- An optional sign is `+` or `-`. -/
def isSignOpt : Option Nat → Bool
  | none => true
  | some s => s == 43 || s == 45

/-- The spelling of a decimal literal, `mantissa [exponent]` of parser.rs:
`[sign] int ['.'] frac [(e|E) [sign] digits]`. -/
structure DecText where
  sign : Option Nat
  int : Bytes
  dot : Bool
  frac : Bytes
  /-- exponent letter, optional sign, digits -/
  exp : Option (Nat × Option Nat × Bytes)
  deriving DecidableEq, Repr

namespace DecText

/-- Well-formed: digits are digits, a fraction needs the point, at least one mantissa
digit, and an exponent has a letter `e`/`E`, an optional sign and at least one digit. -/
def wf (d : DecText) : Bool :=
  isSignOpt d.sign && d.int.all isDigit && d.frac.all isDigit &&
  (d.dot || d.frac.isEmpty) && !(d.int ++ d.frac).isEmpty &&
  match d.exp with
  | none => true
  | some (e, s, ds) => (e == 69 || e == 101) && isSignOpt s && ds.all isDigit && !ds.isEmpty

def renderExp : Option (Nat × Option Nat × Bytes) → Bytes
  | none => []
  | some (e, s, ds) => e :: (s.toList ++ ds)

def renderMantissa (d : DecText) : Bytes :=
  d.sign.toList ++ (d.int ++ ((if d.dot then [46] else []) ++ d.frac))

/-- The text of the literal. -/
def render (d : DecText) : Bytes := d.renderMantissa ++ renderExp d.exp

end DecText

/-! ### Block lengths -/

/-- The `k` least significant decimal digits of `n`, most significant first
(`n` zero-padded to `k` digits when `n < 10^k`). -/
def padDigits : Nat → Nat → Bytes
  | 0, _ => []
  | k + 1, n => padDigits k (n / 10) ++ [48 + n % 10]

/-! ### Literals -/

/-- Program data. -/
inductive Lit where
  /-- character data -/
  | chars (s : Bytes)
  /-- decimal numeric data -/
  | dec (d : DecText)
  /-- `#H`/`#h` and hexadecimal digits -/
  | hex (upperPrefix : Bool) (digits : Bytes)
  /-- `#B`/`#b` and binary digits -/
  | bin (upperPrefix : Bool) (digits : Bytes)
  /-- `#Q`/`#q` and octal digits -/
  | oct (upperPrefix : Bool) (digits : Bytes)
  /-- string in quotes `q` (39 = `'`, 34 = `"`) -/
  | str (q : Nat) (payload : Bytes)
  /-- definite-length block with `nd` length digits -/
  | block (nd : Nat) (payload : Bytes)
  deriving DecidableEq, Repr

namespace Lit

def wf : Lit → Bool
  | chars s => isMnemonicText s
  | dec d => d.wf
  | hex _ ds => !ds.isEmpty && ds.all isHexDigit
  | bin _ ds => !ds.isEmpty && ds.all isBinDigit
  | oct _ ds => !ds.isEmpty && ds.all isOctDigit
  | str q p => (q == 39 || q == 34) && validUtf8 p && p.all (fun c => c != q)
  | block nd p => decide (1 ≤ nd) && decide (nd ≤ 9) && decide (p.length < 10 ^ nd)

/-- The bytes of the literal. -/
def render : Lit → Bytes
  | chars s => s
  | dec d => d.render
  | hex up ds => 35 :: (if up then 72 else 104) :: ds
  | bin up ds => 35 :: (if up then 66 else 98) :: ds
  | oct up ds => 35 :: (if up then 81 else 113) :: ds
  | str q p => q :: (p ++ [q])
  | block nd p => 35 :: (48 + nd) :: (padDigits nd p.length ++ p)

/-- What the lexer has to deliver: the text (or payload) verbatim. -/
def value : Lit → Value
  | chars s => .chars s
  | dec d => .dec d.render
  | hex _ ds => .hex ds
  | bin _ ds => .bin ds
  | oct _ ds => .oct ds
  | str _ p => .str p
  | block _ p => .arb p

/-- The bytes that would extend the literal if they followed it directly.  Strings
and blocks are self-delimiting. -/
def ext : Lit → Nat → Bool
  | chars _ => isMnemonicTail
  | dec _ => fun b => isDigit b || b == 46 || b == 69 || b == 101
  | hex _ _ => isHexDigit
  | bin _ _ => isBinDigit
  | oct _ _ => isOctDigit
  | str _ _ => fun _ => false
  | block _ _ => fun _ => false

end Lit

/-- A byte that may follow program data: white space, `,`, `;` or newline. -/
def isDelim (b : Nat) : Bool := isWs b || b == 44 || b == 59 || b == 10

/-- The first byte of `rest`, if there is one, is not in the class `p`. -/
def Ends (p : Nat → Bool) (rest : Bytes) : Prop := ∀ d r, rest = d :: r → p d = false

/-! ### Headers -/

inductive HdrPath where
  /-- `[:]M1:M2:…` -/
  | compound (absolute : Bool) (mnemonics : List Bytes)
  /-- `*NAME` -/
  | common (name : Bytes)
  deriving DecidableEq, Repr

structure Hdr where
  path : HdrPath
  query : Bool
  deriving DecidableEq, Repr

def HdrPath.wf : HdrPath → Bool
  | .compound _ ms => !ms.isEmpty && ms.all isMnemonicText
  | .common n => isMnemonicText n

/-- Mnemonics separated by colons. -/
def renderPath : List Bytes → Bytes
  | [] => []
  | [m] => m
  | m :: ms => m ++ 58 :: renderPath ms

def HdrPath.render : HdrPath → Bytes
  | .compound a ms => (if a then [58] else []) ++ renderPath ms
  | .common n => 42 :: n

def Hdr.render (h : Hdr) : Bytes := h.path.render ++ (if h.query then [63] else [])

/-- Walk `Node.child` along the mnemonics starting at `parent`; the result is the
node reached and the node before it. -/
def resolveFrom (parent : Node) : List Bytes → Option (Node × Option Node)
  | [] => none
  | [m] => (parent.child m).map fun n => (n, some parent)
  | m :: ms => (parent.child m).bind fun n => resolveFrom n ms

/-- The node a header designates, with the path it sets for the next unit. -/
def resolve (root cur : Node) : HdrPath → Option (Node × Option Node)
  | .compound a ms => resolveFrom (if a then root else cur) ms
  | .common n => (root.child (42 :: n)).map fun node => (node, none)

/-! ### Units and their renderings -/

/-- A program message unit: header and parameters. -/
structure MsgUnit where
  hdr : Hdr
  lits : List Lit
  deriving DecidableEq, Repr

def MsgUnit.wf (u : MsgUnit) : Bool :=
  u.hdr.path.wf && u.lits.all Lit.wf && decide (u.lits.length ≤ maxArgs)

/-- Unit separator or message terminator. -/
inductive Term where
  | semi
  | nl
  deriving DecidableEq, Repr

def Term.byte : Term → Nat
  | .semi => 59
  | .nl => 10

/-- The lexical choices of a rendering. -/
structure Lex where
  /-- before the unit -/
  lead : Bytes
  /-- between header and parameters -/
  sep : Bytes
  /-- before and after each comma (missing entries mean no white space) -/
  commas : List (Bytes × Bytes)
  /-- before the terminator; contains `\r` for a CR LF ending -/
  trail : Bytes
  deriving DecidableEq, Repr

/-- All lexical choices are white space. -/
def Lex.wf (ℓ : Lex) : Bool :=
  allWs ℓ.lead && allWs ℓ.sep && ℓ.commas.all (fun p => allWs p.1 && allWs p.2) && allWs ℓ.trail

/-- Parameters need white space after the header. -/
def Lex.fits (ℓ : Lex) (u : MsgUnit) : Bool := u.lits.isEmpty || !ℓ.sep.isEmpty

/-- `, lit` for every further literal, with the white space chosen for each comma. -/
def renderMore : List Lit → List (Bytes × Bytes) → Bytes
  | [], _ => []
  | l :: ls, cs =>
    (cs.head?.getD ([], [])).1 ++ 44 :: ((cs.head?.getD ([], [])).2 ++ (l.render ++ renderMore ls cs.tail))

def renderArgs : List Lit → List (Bytes × Bytes) → Bytes
  | [], _ => []
  | l :: ls, cs => l.render ++ renderMore ls cs

/-- The bytes of unit `u` with lexical choices `ℓ` and terminator `t`. -/
def render (u : MsgUnit) (ℓ : Lex) (t : Term) : Bytes :=
  ℓ.lead ++ (u.hdr.render ++ (ℓ.sep ++ (renderArgs u.lits ℓ.commas ++ (ℓ.trail ++ [t.byte]))))

end Scpi
