/-
The abstract byte-at-a-time machine that `Interface::process::<N, _>` implements.

It is a function of the byte stream only: there are no reads, no offsets and no
buffer, only the bytes received since the last completely interpreted unit
(`pending`).  `Scpi/Props/C07.lean` proves that the model of `process` over any
read schedule produces exactly the writes, flushes and user state of this machine.
-/
import Scpi.Process

namespace Scpi

/-- Everything the adapter sees except the reads: writes and flushes. -/
def PEv.nonRead : PEv → Bool
  | .r _ _ => false
  | _ => true

/-- State of the stream machine. -/
structure SpecState (σ : Type) where
  /-- bytes received and not yet interpreted (an unfinished message) -/
  pending : Bytes
  /-- header path for the next unit (`header` of `process`) -/
  header : Node
  user : σ
  /-- the writes and flushes performed so far (only `PEv.w` and `PEv.f`) -/
  out : List PEv

/-- A newline has arrived: interpret everything pending, send the response if there
is one, keep what `run_from` left unparsed. -/
def streamNewline {σ : Type} (I : Iface σ) (n : Nat) (st : SpecState σ) : SpecState σ :=
  let o := runFrom I st.header st.pending { cap := some n } st.user
  { pending := o.rest, header := o.header, user := o.s,
    out := st.out ++ (if o.w.buf = [] then [] else [PEv.w o.w.buf, PEv.f]) }

/-- One byte without the overflow rule. -/
def streamFeed {σ : Type} (I : Iface σ) (n : Nat) (st : SpecState σ) (b : Nat) : SpecState σ :=
  let st := { st with pending := st.pending ++ [b] }
  if b = 10 then streamNewline I n st else st

/-- An unfinished message that fills the `n`-byte command buffer is thrown away and
the header path is reset. -/
def streamDiscard {σ : Type} (I : Iface σ) (n : Nat) (st : SpecState σ) : SpecState σ :=
  if st.pending.length ≥ n then { st with pending := [], header := I.root } else st

/-- One byte of the stream. -/
def streamSpec {σ : Type} (I : Iface σ) (n : Nat) (st : SpecState σ) (b : Nat) : SpecState σ :=
  streamDiscard I n (streamFeed I n st b)

def streamInit {σ : Type} (I : Iface σ) (s : σ) : SpecState σ :=
  { pending := [], header := I.root, user := s, out := [] }

/-- The whole stream, byte by byte. -/
def streamRun {σ : Type} (I : Iface σ) (n : Nat) (stream : Bytes) (s : σ) : SpecState σ :=
  stream.foldl (streamSpec I n) (streamInit I s)

/-- A complete message for an `n`-byte command buffer: it ends with its only newline,
fits in the buffer and `run` consumes it entirely. -/
structure IsMessage {σ : Type} (I : Iface σ) (n : Nat) (m : Bytes) : Prop where
  shape : ∃ body, m = body ++ [10] ∧ ∀ b ∈ body, b ≠ 10
  fits : m.length ≤ n
  complete : ∀ (w : Writer) (s : σ), (run I m w s).rest = []

/-- Handing complete messages to `run` one at a time, each with a fresh `n`-byte
response buffer, sending and flushing every non-empty response: the final user
state and the writes and flushes (appended to `out`). -/
def runMessages {σ : Type} (I : Iface σ) (n : Nat) : List Bytes → σ → List PEv → σ × List PEv
  | [], s, out => (s, out)
  | m :: ms, s, out =>
    let o := run I m { cap := some n } s
    runMessages I n ms o.s (out ++ (if o.w.buf = [] then [] else [PEv.w o.w.buf, PEv.f]))

end Scpi
