/-
Abstract syntax and abstract semantics of a whole program MESSAGE.

A message is a list of program message units (`MsgUnit`, Scpi/Spec/Ast.lean) separated
by `;` and ended by the message terminator (newline).  `renderMsg` gives its bytes for
a choice of white space per unit (`Lex`; a CR before the LF is white space in the last
unit's `Lex.trail`).  `renderOpen` covers the two remaining shapes: the message whose
last unit is followed by `;` and only then — after optional white space — by the
newline (`X;⏎`), and with no unit at all the empty message (white space and newline).

`specExec` is what a message MEANS: no bytes, no white space, no parser.  It is a plain
recursion over the unit list that threads the response writer and the user's state
through the units and carries the current header path:

* the header is resolved by `resolve I.root cur` (Scpi/Spec/Ast.lean — a walk along
  `Node.child`: absolute ⇒ from the root, relative ⇒ from the current path `cur`,
  common `*` ⇒ a child of the root);
* a header that does not resolve costs ONE `onError UndefinedHeader` and THE REST OF
  THE MESSAGE IS DROPPED;
* otherwise the unit is executed on the node reached (`specUnit`) and the next unit
  is read with the path `parent.getD cur`: the parent of the node addressed, or the
  path unchanged after a common command;
* nothing else is carried from unit to unit, and nothing at all from message to
  message (the main theorem `run_render` restarts at `I.root` behind the terminator).

`specUnit` is one unit on a node: the slot chosen by the `?` of the header
(`node.query` / `node.command`, then the handler table), the arity check, the
conversion of the parameters left to right (`convertAll`), the handler, and for the
response `reply` (the response, and for a query a newline and a flush).  Each failure
costs exactly one `onError` with the error named; the following units run regardless.

The refinement theorem `Scpi.Msg.run_render` (Scpi/Props/RunRender.lean) says that the
byte-level interpreter `runFrom` on ANY rendering of the message computes `specExec`.
-/
import Scpi.Spec.Ast
import Scpi.Exec

namespace Scpi
namespace Msg

/-! ### Bytes of a message -/

/-- Units separated by `;`, the last one ended by the newline.  (The empty list has no
rendering of this shape; see `renderOpen`.) -/
def renderMsg : List (MsgUnit × Lex) → Bytes
  | [] => []
  | [(u, ℓ)] => render u ℓ .nl
  | (u, ℓ) :: m => render u ℓ .semi ++ renderMsg m

/-- Every unit followed by `;`. -/
def renderSemis : List (MsgUnit × Lex) → Bytes
  | [] => []
  | (u, ℓ) :: m => render u ℓ .semi ++ renderSemis m

/-- A message whose last unit is followed by `;`, white space `ws` and the newline
(`X;⏎`); with no units: the empty message `ws⏎`. -/
def renderOpen (m : List (MsgUnit × Lex)) (ws : Bytes) : Bytes :=
  renderSemis m ++ (ws ++ [10])

/-- The units of a rendering. -/
def units (m : List (MsgUnit × Lex)) : List MsgUnit := m.map (·.1)

/-- Every unit is well-formed and its white-space choices are white space and fit it
(white space after the header when there are parameters). -/
def wfMsg (m : List (MsgUnit × Lex)) : Bool :=
  m.all fun p => p.1.wf && p.2.wf && p.2.fits p.1

/-! ### One unit -/

/-- `try_into` for parameter 0, 1, … left to right; the first failure is the result. -/
def convertAll : List Ty → List Value → Except Err (List TVal)
  | t :: ts, v :: vs =>
    match convert t v with
    | .error e => .error e
    | .ok tv =>
      match convertAll ts vs with
      | .error e => .error e
      | .ok tvs => .ok (tv :: tvs)
  | _, _ => .ok []

/-- Writing the response: the response itself, then for a query the newline and a
flush.  The first write that fails is the outcome. -/
def reply (query : Bool) (w : Writer) (resp : Resp) : Writer × Except Err Unit :=
  match w.writeResp resp with
  | (w', .error e) => (w', .error e)
  | (w', .ok ()) =>
    if query then
      match w'.call (.direct [10]) with
      | (w'', .error e) => (w'', .error e)
      | (w'', .ok ()) => (w''.flush, .ok ())
    else (w', .ok ())

/-- The handler slot of a node that a header with (`query = true`) or without a
question mark addresses, looked up in the handler table. -/
def slotCmd {σ : Type} (I : Iface σ) (node : Node) (query : Bool) : Option (Cmd σ) :=
  (if query then node.query else node.command).bind fun id => I.cmds[id]?

/-- One unit on the node its header designates. -/
def specUnit {σ : Type} (I : Iface σ) (node : Node) (query : Bool) (args : List Value)
    (w : Writer) (s : σ) : Writer × σ :=
  match slotCmd I node query with
  | none => (w, I.onError s (.std .UndefinedHeader))
  | some c =>
    if args.length ≠ c.argTys.length then (w, I.onError s (.std .UnexpectedNumberOfParameters))
    else
      match convertAll c.argTys args with
      | .error e => (w, I.onError s e)
      | .ok tvs =>
        match c.handler s tvs with
        | (s', .error e) => (w, I.onError s' e)
        | (s', .ok resp) =>
          match reply query w resp with
          | (w', .error e) => (w', I.onError s' e)
          | (w', .ok ()) => (w', s')

/-! ### A message -/

/-- **The meaning of a message**, read with the current path `cur`. -/
def specExec {σ : Type} (I : Iface σ) : Node → List MsgUnit → Writer → σ → Writer × σ
  | _, [], w, s => (w, s)
  | cur, u :: us, w, s =>
    match resolve I.root cur u.hdr.path with
    | none => (w, I.onError s (.std .UndefinedHeader))
    | some (node, parent) =>
      match specUnit I node u.hdr.query (u.lits.map Lit.value) w s with
      | (w', s') => specExec I (parent.getD cur) us w' s'

/-! ### The side condition for dropped units

After an undefined header the interpreter does not look for the message terminator
but for the first BYTE 10.  A newline inside a string or block parameter of the failing
unit or of a later unit of the same message therefore ends the skipping early (finding
`Scpi.C06.newline_in_string_after_fault`).  `specExec` describes messages in which
this does not happen: -/

/-- No newline in a string or block payload (no other literal can contain one). -/
def litNlFree : Lit → Bool
  | .str _ p => p.all (· != 10)
  | .block _ p => p.all (· != 10)
  | _ => true

/-- No parameter of the unit contains a newline. -/
def unitNlFree (u : MsgUnit) : Bool := u.lits.all litNlFree

/-- Along the evolution of the path: if a header does not resolve then that unit and
all units after it are free of newlines.  (Units that are executed may contain any
payload.) -/
def dropSafe (root : Node) : Node → List MsgUnit → Bool
  | _, [] => true
  | cur, u :: us =>
    match resolve root cur u.hdr.path with
    | none => (u :: us).all unitNlFree
    | some (_, parent) => dropSafe root (parent.getD cur) us

/-- Every header resolves (along the evolution of the path). -/
def allResolve (root : Node) : Node → List MsgUnit → Bool
  | _, [] => true
  | cur, u :: us =>
    match resolve root cur u.hdr.path with
    | none => false
    | some (_, parent) => allResolve root (parent.getD cur) us

/-! ### Vocabulary for the corollaries (Scpi/Props/RunRenderCor.lean) -/

/-- The unit `u` executed on `node`, as a transformation of (writer, user state). -/
def onNode {σ : Type} (I : Iface σ) (node : Node) (u : MsgUnit) (ws : Writer × σ) : Writer × σ :=
  specUnit I node u.hdr.query (u.lits.map Lit.value) ws.1 ws.2

/-- Go on behind a message: run on `rest` from the root. -/
def resume {σ : Type} (I : Iface σ) (rest : Bytes) (ws : Writer × σ) : RunOut σ :=
  runFrom I I.root rest ws.1 ws.2

/-- The outcome of a run that consumed everything and ended with a terminator. -/
def finished {σ : Type} (I : Iface σ) (ws : Writer × σ) : RunOut σ :=
  { rest := [], header := I.root, w := ws.1, s := ws.2, crash := none }

/-- The nodes the units address one after the other, up to the first header that does
not resolve. -/
def nodesOf (root : Node) : Node → List MsgUnit → List Node
  | _, [] => []
  | cur, u :: us =>
    match resolve root cur u.hdr.path with
    | none => []
    | some (node, parent) => node :: nodesOf root (parent.getD cur) us

end Msg
end Scpi
