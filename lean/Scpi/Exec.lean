/-
The dispatcher: the `execute_command` the attribute macro generates
(microscpi-macros/src/lib.rs:36-84), `Interface::execute` and
`Interface::run`/`run_from` (interface.rs:16-125).

The user's part of an interface — handlers and error handler — is a parameter,
so every theorem holds for all handlers.
-/
import Scpi.Parse
import Scpi.Value
import Scpi.Response

namespace Scpi

/-- One `#[scpi(cmd = …)]` function as the generated dispatcher sees it. -/
structure Cmd (σ : Type) where
  argTys : List Ty
  /-- the user's function: new user state and `Result<impl Response, Error>` -/
  handler : σ → List TVal → σ × Except Err Resp

structure Iface (σ : Type) where
  root : Node
  /-- command id ↦ declaration (ids are positions, lib.rs:166) -/
  cmds : List (Cmd σ)
  /-- `ErrorHandler::handle_error` -/
  onError : σ → Err → σ

/-- Outcome of executing one unit. -/
inductive ExecRes where
  | ok
  | err (e : Err)
  | crash (c : Crash)
  deriving Repr, Inhabited

/-- `args.get(i).unwrap().try_into()?` for `i = 0, 1, …` left to right. -/
def convertArgs : List Ty → List Value → Except (Err ⊕ Crash) (List TVal)
  | [], _ => .ok []
  | _ :: _, [] => .error (.inr .unwrapNone)
  | t :: ts, v :: vs =>
    match convert t v with
    | .error e => .error (.inl e)
    | .ok tv =>
      match convertArgs ts vs with
      | .ok tvs => .ok (tv :: tvs)
      | .error e => .error e

/-- The generated `execute_command` (lib.rs:36-84, 262-275), with the D4 repair
(`write_response(..).await?`). -/
def executeCommand {σ : Type} (I : Iface σ) (id : Nat) (args : List Value) (w : Writer) (s : σ) :
    σ × Writer × ExecRes :=
  match I.cmds[id]? with
  | none => (s, w, .err (.std .UndefinedHeader))
  | some c =>
    if args.length ≠ c.argTys.length then (s, w, .err (.std .UnexpectedNumberOfParameters))
    else
      match convertArgs c.argTys args with
      | .error (.inl e) => (s, w, .err e)
      | .error (.inr c) => (s, w, .crash c)
      | .ok tvs =>
        match c.handler s tvs with
        | (s', .error e) => (s', w, .err e)
        | (s', .ok resp) =>
          match w.writeResp resp with
          | (w', .ok ()) => (s', w', .ok)
          | (w', .error e) => (s', w', .err e)

/-- `Interface::execute` (interface.rs:28-52). -/
def execute {σ : Type} (I : Iface σ) (call : CommandCall) (w : Writer) (s : σ) : σ × Writer × ExecRes :=
  match (if call.query then call.node.query else call.node.command) with
  | none => (s, w, .err (.std .UndefinedHeader))
  | some id =>
    match executeCommand I id call.args w s with
    | (s', w', .ok) =>
      if call.query then
        match w'.call (.direct [10]) with
        | (w'', .ok ()) => (s', w''.flush, .ok)
        | (w'', .error e) => (s', w'', .err e)
      else (s', w', .ok)
    | r => r

/-- `impl From<ParseError> for Error` (error.rs). -/
def parseErrToErr (e : Option Err) : Err := e.getD (.std .SyntaxError)

/-- Input after the first newline: `input.iter().position(|b| *b == b'\n')` then `&input[position + 1..]`. -/
def afterNewline : Bytes → Option Bytes
  | [] => none
  | b :: rest => if b == 10 then some rest else afterNewline rest

/-- Result of `run_from`: the unparsed rest, the header path reached, the writer and the user state. -/
structure RunOut (σ : Type) where
  rest : Bytes
  header : Node
  w : Writer
  s : σ
  crash : Option Crash := none

/-- The loop of `run_from` (interface.rs, after the D1, D3 and D11 repairs).
Every iteration consumes at least one byte, so `input.length + 1` bounds the
iterations (proved in `Scpi.Proofs`); running out of fuel is the outcome `noProgress`. -/
def runLoop {σ : Type} (I : Iface σ) : Nat → Node → Bytes → Writer → σ → RunOut σ
  | 0, header, input, w, s => { rest := input, header, w, s, crash := some .noProgress }
  | fuel + 1, header, input, w, s =>
    if input.isEmpty then { rest := [], header, w, s }
    else
      match parse I.root header input with
      | .crash c => { rest := input, header, w, s, crash := some c }
      | .incomplete => { rest := input, header, w, s }
      | .soft e =>
        let s := I.onError s (parseErrToErr e)
        match afterNewline input with
        | some rest => runLoop I fuel I.root rest w s
        | none => { rest := input, header, w, s }
      | .fatal e =>
        let s := I.onError s e
        match afterNewline input with
        | some rest => runLoop I fuel I.root rest w s
        | none => { rest := input, header, w, s }
      | .ok i none => runLoop I fuel I.root i w s
      | .ok i (some call) =>
        match execute I call w s with
        | (s, w, .crash c) => { rest := input, header, w, s, crash := some c }
        | (s, w, r) =>
          let s := match r with
            | .err e => I.onError s e
            | _ => s
          let header :=
            if call.terminated then I.root
            else match call.header with
              | some h => h
              | none => header
          runLoop I fuel header i w s

/-- `run_from(header, input, response)`. -/
def runFrom {σ : Type} (I : Iface σ) (header : Node) (input : Bytes) (w : Writer) (s : σ) : RunOut σ :=
  runLoop I (input.length + 1) header input w s

/-- `run(input, response)`. -/
def run {σ : Type} (I : Iface σ) (input : Bytes) (w : Writer) (s : σ) : RunOut σ :=
  runFrom I I.root input w s

end Scpi
