/-
Typed arguments (value.rs): the fifteen parameter types and `TryInto<T> for &Value`.
-/
import Scpi.Lex
import Scpi.Float

namespace Scpi

inductive Ty where
  | u8 | i8 | u16 | i16 | u32 | i32 | u64 | i64 | usize | isize | f32 | f64 | bool | str | bytes
  deriving DecidableEq, Repr, Inhabited

/-- Signedness and width of the integer types (`usize`/`isize` are 64 bit: the
host the harness runs on). -/
def Ty.intInfo : Ty → Option (Bool × Nat)
  | .u8 => some (false, 8) | .i8 => some (true, 8)
  | .u16 => some (false, 16) | .i16 => some (true, 16)
  | .u32 => some (false, 32) | .i32 => some (true, 32)
  | .u64 => some (false, 64) | .i64 => some (true, 64)
  | .usize => some (false, 64) | .isize => some (true, 64)
  | _ => none

/-- A converted argument as the handler receives it. -/
inductive TVal where
  | int (ty : Ty) (v : Int)
  | f32 (bits : Nat)
  | f64 (bits : Nat)
  | bool (b : Bool)
  | str (s : Bytes)
  | bytes (s : Bytes)
  deriving DecidableEq, Repr, Inhabited

/-- `impl_try_into_int!` (value.rs:72-103). -/
def convertInt (ty : Ty) (signed : Bool) (bits : Nat) (v : Value) : Except Err TVal :=
  let go (radix : Nat) (s : Bytes) : Except Err TVal :=
    match fromStrRadix signed bits radix s with
    | some n => .ok (.int ty n)
    | none => .error (.std .NumericDataError)
  match v with
  | .dec s => go 10 s
  | .hex s => go 16 s
  | .bin s => go 2 s
  | .oct s => go 8 s
  | _ => .error (.std .DataTypeError)

/-- `TryInto<bool>` (value.rs:116-130). -/
def convertBool (v : Value) : Except Err TVal :=
  match v with
  | .chars s =>
    if s == strBytes "ON" || s == strBytes "on" || s == strBytes "TRUE" || s == strBytes "true"
    then .ok (.bool true)
    else if s == strBytes "OFF" || s == strBytes "off" || s == strBytes "FALSE"
      || s == strBytes "false" then .ok (.bool false)
    else .error (.std .IllegalParameterValue)
  | .dec s =>
    if s == [49] then .ok (.bool true)
    else if s == [48] then .ok (.bool false)
    else .error (.std .IllegalParameterValue)
  | _ => .error (.std .IllegalParameterValue)

/-- `TryInto<f32|f64>` (value.rs:140-175). -/
def convertFloat (f : FloatFmt) (mk : Nat → TVal) (v : Value) : Except Err TVal :=
  match v with
  | .dec s =>
    match parseFloat f s with
    | some b => .ok (mk b)
    | none => .error (.std .NumericDataError)
  | _ => .error (.std .DataTypeError)

/-- `TryInto<T> for &Value` for every parameter type. -/
def convert (ty : Ty) (v : Value) : Except Err TVal :=
  match ty with
  | .f32 => convertFloat fmt32 .f32 v
  | .f64 => convertFloat fmt64 .f64 v
  | .bool => convertBool v
  | .str => match v with | .str s => .ok (.str s) | _ => .error (.std .DataTypeError)
  | .bytes => match v with | .arb s => .ok (.bytes s) | _ => .error (.std .DataTypeError)
  | t =>
    match t.intInfo with
    | some (sg, bits) => convertInt t sg bits v
    | none => .error (.std .DataTypeError)

end Scpi
