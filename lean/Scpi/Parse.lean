/-
Header recognisers and `parse` (parser.rs:265-333 and 381-431).
-/
import Scpi.Lex
import Scpi.Tree

namespace Scpi

/-- `header_separator` (parser.rs:266-271). -/
def headerSeparator : Parser Unit := fun input =>
  (optP whitespace input).bind fun i1 _ =>
  ((tag 58 i1).mapErr .HeaderSeparatorError).bind fun i2 _ =>
  (optP whitespace i2).bind fun i3 _ =>
  .ok i3 ()

/-- `node.child(str::from_utf8(name)?).ok_or(Error::UndefinedHeader)?`. -/
def lookup {α : Type} (node : Node) (name : Bytes) (k : Node → PResult α) : PResult α :=
  fromUtf8 name fun s =>
  match node.child s with
  | some n => k n
  | none => ofErr .UndefinedHeader

/-- `common_command_program_header(root)` (parser.rs:274-287). The name
`&input[0..res.len() + 1]` is the asterisk followed by the mnemonic. -/
def commonHeader (root : Node) : Parser (Node × Option Node) := fun input =>
  ((tag 42 input).mapErr .UndefinedHeader).bind fun i1 star =>
  (mnemonic i1).bind fun i2 res =>
  lookup root (star :: res) fun node => .ok i2 (node, none)

/-- The loop of `compound_command_program_header` (parser.rs:307-319); every
iteration consumes the colon, so `input.length` bounds the iterations. -/
def headerLoop : Nat → Node → Node → Bytes → PResult (Node × Option Node)
  | 0, _, _, _ => .crash .noProgress
  | fuel + 1, node, header, input =>
    match headerSeparator input with
    | .ok i _ =>
      (mnemonic i).bind fun i2 res =>
      lookup node res fun child => headerLoop fuel child node i2
    | .soft _ => .ok input (node, some header)
    | .fatal e => .fatal e
    | .incomplete => .incomplete
    | .crash c => .crash c

/-- `compound_command_program_header(root, header)` (parser.rs:290-323), with
the D7 repair: a leading colon makes the root the path of the unit. -/
def compoundHeader (root header : Node) : Parser (Node × Option Node) := fun input =>
  (optP headerSeparator input).bind fun i1 rootCommand =>
  let header := if rootCommand.isSome then root else header
  (mnemonic i1).bind fun i2 res =>
  lookup header res fun node => headerLoop (i2.length + 1) node header i2

/-- `command_program_header` (parser.rs:326-333): any failure of the compound
form falls through to the common form. -/
def commandHeader (root header : Node) : Parser (Node × Option Node) := fun input =>
  (compoundHeader root header input).orElse fun _ => commonHeader root input

/-- `CommandCall` (parser.rs:56-70). -/
structure CommandCall where
  node : Node
  header : Option Node
  query : Bool
  args : List Value
  terminated : Bool
  deriving Repr, Inhabited

/-- The end of `parse` (parser.rs:417-430): optional white space, then the
terminator (`\n`, message ends) or `;` (unit ends). -/
def parseTail (nh : Node × Option Node) (query : Bool) (i6 : Bytes) (args : List Value) :
    PResult (Option CommandCall) :=
  (optP whitespace i6).bind fun i7 _ =>
  (((tag 10 i7).map fun _ => true).orElse fun _ => (tag 59 i7).map fun _ => false).bind
    fun i8 terminated =>
  .ok i8 (some { node := nh.1, header := nh.2, query := query, args := args,
                 terminated := terminated })

/-- The parameter part of `parse` (parser.rs:405-415): a soft failure of the
argument list puts the input back (the partly filled vector is kept, as in the
Rust code). -/
def parseArgs (nh : Node × Option Node) (query : Bool) (i5 : Bytes) (hasArgs : Bool) :
    PResult (Option CommandCall) :=
  if hasArgs then
    match arguments i5 with
    | (.ok i6 _, args) => parseTail nh query i6 args
    | (.soft _, args) => parseTail nh query i5 args
    | (.fatal e, _) => .fatal e
    | (.incomplete, _) => .incomplete
    | (.crash c, _) => .crash c
  else parseTail nh query i5 []

/-- `tag(b'?')(input).map(|(i, _)| (i, true)).unwrap_or_else(|_| (input, false))` (parser.rs:395-397). -/
def queryMark (i3 : Bytes) : Bytes × Bool :=
  match tag 63 i3 with
  | .ok r _ => (r, true)
  | _ => (i3, false)

/-- `parse` after the header (parser.rs:395-430). -/
def parseAfterHeader (nh : Node × Option Node) (i3 : Bytes) : PResult (Option CommandCall) :=
  match whitespace (queryMark i3).1 with
  | .ok i5 _ => parseArgs nh (queryMark i3).2 i5 true
  | .soft _ => parseArgs nh (queryMark i3).2 (queryMark i3).1 false
  | .fatal e => .fatal e
  | .incomplete => .incomplete
  | .crash c => .crash c

/-- `parse(root, header, input)` (parser.rs:382-431). -/
def parse (root header : Node) (input : Bytes) : PResult (Option CommandCall) :=
  (optP whitespace input).bind fun i1 _ =>
  (optP (tag 10) i1).bind fun i2 terminator =>
  if terminator.isSome then .ok i2 none else
  (commandHeader root header i2).bind fun i3 nh => parseAfterHeader nh i3

end Scpi
