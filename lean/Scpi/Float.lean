/-
IEEE-754 binary32/binary64 as bit patterns, with the two `core` routines the
library relies on, re-stated (modelled, not verified; validated by the `CONV`
and `RESP` op classes):

* `str::parse::<f32|f64>` — the grammar of `core::num::dec2flt` and exact
  round-to-nearest-even of the decimal value (the documented contract);
* `Display` for floats — `flt2dec::to_shortest_str` with the Dragon strategy
  (Steele & White / Burger & Dybvig free-format algorithm) and
  `digits_to_dec_str`, including the units in which `fmt` hands the text to the
  writer.
-/
import Scpi.Basic
import Scpi.Num

namespace Scpi

/-- A binary interchange format: mantissa (fraction) bits and exponent bits. -/
structure FloatFmt where
  mbits : Nat
  ebits : Nat
  deriving Repr, DecidableEq

def fmt32 : FloatFmt := ⟨23, 8⟩
def fmt64 : FloatFmt := ⟨52, 11⟩

namespace FloatFmt
def bias (f : FloatFmt) : Nat := 2 ^ (f.ebits - 1) - 1
def expMax (f : FloatFmt) : Nat := 2 ^ f.ebits - 1
def signBit (f : FloatFmt) : Nat := 2 ^ (f.mbits + f.ebits)
def infBits (f : FloatFmt) : Nat := f.expMax * 2 ^ f.mbits
/-- `f32::NAN` / `f64::NAN`: quiet NaN with zero payload. -/
def nanBits (f : FloatFmt) : Nat := f.infBits + 2 ^ (f.mbits - 1)
def fracOf (f : FloatFmt) (bits : Nat) : Nat := bits % 2 ^ f.mbits
def expOf (f : FloatFmt) (bits : Nat) : Nat := (bits / 2 ^ f.mbits) % 2 ^ f.ebits
def negOf (f : FloatFmt) (bits : Nat) : Bool := decide (f.signBit ≤ bits % (2 * f.signBit))
def isNan (f : FloatFmt) (bits : Nat) : Bool := f.expOf bits == f.expMax && f.fracOf bits != 0
def isInf (f : FloatFmt) (bits : Nat) : Bool := f.expOf bits == f.expMax && f.fracOf bits == 0
end FloatFmt

/-! ### Decimal text → float -/

/-- Decimal number: `(-1)^neg * mant * 10^exp10`. -/
structure DecNum where
  neg : Bool
  mant : Nat
  exp10 : Int
  deriving Repr

def takeDigits : Bytes → Bytes × Bytes
  | [] => ([], [])
  | b :: r => if 48 ≤ b ∧ b ≤ 57 then let (d, rest) := takeDigits r; (b :: d, rest) else ([], b :: r)

def decValue (ds : Bytes) (acc : Nat) : Nat := ds.foldl (fun a b => a * 10 + (b - 48)) acc

/-- The number grammar of `dec2flt::parse::parse_number` (after the sign):
`digits* [. digits*] [(e|E) [+|-] digits+]`, at least one mantissa digit, whole
input consumed. -/
def parseNumberBody (s : Bytes) : Option (Nat × Int) :=
  let (ip, r1) := takeDigits s
  let (fp, r2) : Bytes × Bytes :=
    match r1 with
    | 46 :: r => takeDigits r
    | _ => ([], r1)
  if ip.length + fp.length = 0 then none else
  let mant := decValue fp (decValue ip 0)
  let e0 : Int := -(fp.length : Int)
  match r2 with
  | [] => some (mant, e0)
  | c :: r =>
    if c == 69 || c == 101 then
      let (neg, r') : Bool × Bytes :=
        match r with
        | 45 :: t => (true, t)
        | 43 :: t => (false, t)
        | _ => (false, r)
      let (ed, r3) := takeDigits r'
      if ed.length = 0 then none
      else if r3 != [] then none
      else
        let ev : Int := (decValue ed 0 : Nat)
        some (mant, e0 + (if neg then -ev else ev))
    else none

def lowerAscii (b : Nat) : Nat := if 65 ≤ b ∧ b ≤ 90 then b + 32 else b

/-- Number of decimal digits of a positive number (0 for 0). -/
def decLen (n : Nat) : Nat := if n = 0 then 0 else (Nat.toDigits 10 n).length

/-- Round the positive rational `n/d` to the nearest value of the format, ties to
even; returns the bit pattern without sign (infinity on overflow). -/
def roundRat (f : FloatFmt) (n d : Nat) : Nat :=
  if n = 0 then 0 else
  -- e = floor(log2(n/d))
  let e0 : Int := (n.log2 : Int) - (d.log2 : Int)
  let ge (e : Int) : Bool := if e ≥ 0 then decide (d * 2 ^ e.toNat ≤ n) else decide (d ≤ n * 2 ^ (-e).toNat)
  let e : Int := if ge (e0 + 1) then e0 + 1 else if ge e0 then e0 else e0 - 1
  let emin : Int := 1 - (f.bias : Int)
  let e' : Int := if e < emin then emin else e
  -- quantum 2^(e' - mbits)
  let sh : Int := e' - (f.mbits : Int)
  let (num, den) : Nat × Nat := if sh ≥ 0 then (n, d * 2 ^ sh.toNat) else (n * 2 ^ (-sh).toNat, d)
  let q := num / den
  let r := num % den
  let q := if 2 * r > den ∨ (2 * r = den ∧ q % 2 = 1) then q + 1 else q
  -- q < 2^(mbits+1) + 1
  let (q, e') : Nat × Int := if q = 2 ^ (f.mbits + 1) then (2 ^ f.mbits, e' + 1) else (q, e')
  if q < 2 ^ f.mbits then q  -- subnormal (e' = emin) or zero
  else
    let biased : Int := e' + (f.bias : Int)
    if biased ≥ (f.expMax : Int) then f.infBits
    else biased.toNat * 2 ^ f.mbits + (q - 2 ^ f.mbits)

/-- Correctly rounded value of `mant * 10^exp10` (bit pattern without sign). -/
def roundDec (f : FloatFmt) (mant : Nat) (exp10 : Int) : Nat :=
  if mant = 0 then 0 else
  let l : Int := (decLen mant : Nat)
  -- magnitude shortcuts: 10^(l-1+exp10) ≤ value < 10^(l+exp10)
  if exp10 + l > 400 then f.infBits
  else if exp10 + l < -400 then 0
  else if exp10 ≥ 0 then roundRat f (mant * 10 ^ exp10.toNat) 1
  else roundRat f mant (10 ^ (-exp10).toNat)

/-- `s.parse::<f32|f64>().ok()` as a bit pattern. -/
def parseFloat (f : FloatFmt) (s : Bytes) : Option Nat :=
  match s with
  | [] => none
  | c :: rest =>
    let (neg, body) : Bool × Bytes :=
      if c == 45 then (true, rest) else if c == 43 then (false, rest) else (false, s)
    let sgn (b : Nat) : Nat := if neg then b + f.signBit else b
    match parseNumberBody body with
    | some (m, e) => some (sgn (roundDec f m e))
    | none =>
      let lower := body.map lowerAscii
      if lower == strBytes "nan" then some (sgn f.nanBits)
      else if lower == strBytes "inf" || lower == strBytes "infinity" then some (sgn f.infBits)
      else none

/-! ### Float → shortest decimal text (`Display`) -/

/-- `flt2dec::decode` for a finite non-zero value: `(mant, minus, plus, exp, inclusive)`,
the value is `mant * 2^exp`, its rounding interval `[(mant-minus) 2^exp, (mant+plus) 2^exp]`. -/
def decodeFinite (f : FloatFmt) (bits : Nat) : Nat × Nat × Nat × Int × Bool :=
  let frac := f.fracOf bits
  let ex := f.expOf bits
  -- `integer_decode`
  let m : Nat := if ex = 0 then frac * 2 else frac + 2 ^ f.mbits
  let e : Int := (ex : Int) - ((f.bias + f.mbits : Nat) : Int)
  let even := m % 2 == 0
  if ex = 0 then (m, 1, 1, e, even)
  else if m = 2 ^ f.mbits then (m * 4, 1, 2, e - 2, even)
  else (m * 2, 1, 1, e - 1, even)

/-- `round_up` on a digit buffer: `none` when every digit was 9 (the caller then
has `1 0 … 0` plus one more `0`). -/
def roundUpDigits (ds : List Nat) : List Nat × Bool :=
  match ds.reverse.dropWhile (· == 9) with
  | [] => (1 :: (ds.drop 1).map (fun _ => 0), true)
  | d :: pre =>
    let nines := ds.length - (pre.length + 1)
    (((d + 1) :: pre).reverse ++ List.replicate nines 0, false)

/-- The digit loop of `dragon::format_shortest`. -/
def shortestLoop (inclusive : Bool) : Nat → Nat → Nat → Nat → Nat → List Nat → List Nat × Nat × Bool × Bool
  | 0, mant, _, _, _, acc => (acc, mant, true, true)
  | fuel + 1, mant, minus, plus, scale, acc =>
    let d := mant / scale
    let mant := mant % scale
    let acc := acc ++ [d]
    let down := if inclusive then decide (mant ≤ minus) else decide (mant < minus)
    let up := if inclusive then decide (scale ≤ mant + plus) else decide (scale < mant + plus)
    if down || up then (acc, mant, down, up)
    else shortestLoop inclusive fuel (mant * 10) (minus * 10) (plus * 10) scale acc

/-- `flt2dec::strategy::dragon::format_shortest`: digits and exponent `k` with
value ≈ `0.d1d2… * 10^k`. -/
def formatShortest (f : FloatFmt) (bits : Nat) : List Nat × Int :=
  let (mant0, minus0, plus0, exp, inclusive) := decodeFinite f bits
  -- scale everything to integers: value = mant/scale
  let (mant1, minus1, plus1, scale1) : Nat × Nat × Nat × Nat :=
    if exp < 0 then (mant0, minus0, plus0, 2 ^ (-exp).toNat)
    else (mant0 * 2 ^ exp.toNat, minus0 * 2 ^ exp.toNat, plus0 * 2 ^ exp.toNat, 1)
  -- `estimate_scaling_factor(mant + plus, exp)`
  let nbits : Int := ((mant0 + plus0 - 1).log2 + 1 : Nat)
  let k0 : Int := ((nbits + exp) * 1292913986) / 4294967296
  let (mant2, minus2, plus2, scale2) : Nat × Nat × Nat × Nat :=
    if k0 ≥ 0 then (mant1, minus1, plus1, scale1 * 10 ^ k0.toNat)
    else (mant1 * 10 ^ (-k0).toNat, minus1 * 10 ^ (-k0).toNat, plus1 * 10 ^ (-k0).toNat, scale1)
  -- fixup
  let hiGe : Bool :=
    if inclusive then decide (scale2 ≤ mant2 + plus2) else decide (scale2 < mant2 + plus2)
  let (k, mant3, minus3, plus3) : Int × Nat × Nat × Nat :=
    if hiGe then (k0 + 1, mant2, minus2, plus2) else (k0, mant2 * 10, minus2 * 10, plus2 * 10)
  let (ds, mantR, down, up) := shortestLoop inclusive 2000 mant3 minus3 plus3 scale2 []
  if up && (!down || decide (scale2 ≤ mantR * 2)) then
    let (ds', carry) := roundUpDigits ds
    if carry then (ds' ++ [0], k + 1) else (ds', k)
  else (ds, k)

/-- Chunks in which `Formatter::write_formatted_parts` writes `n` zeroes (at most 64 at a time). -/
def zeroChunks : Nat → Nat → List Bytes
  | 0, _ => []
  | fuel + 1, n =>
    if n = 0 then []
    else if n > 64 then List.replicate 64 48 :: zeroChunks fuel (n - 64)
    else [List.replicate n 48]

/-- `Display` for a finite float: the pieces handed to `fmt::Write::write_str`, in order
(`float_to_decimal_display` → `to_shortest_str` with `frac_digits = 0` →
`digits_to_dec_str` → `write_formatted_parts`). -/
def floatPieces (f : FloatFmt) (bits : Nat) : List Bytes :=
  let sign : List Bytes := if f.negOf bits then [[45]] else []
  if f.expOf bits = 0 ∧ f.fracOf bits = 0 then sign ++ [[48]]
  else
    let (ds, k) := formatShortest f bits
    let dsb := ds.map (· + 48)
    let len : Int := (ds.length : Nat)
    if k ≤ 0 then
      sign ++ [[48, 46]] ++ zeroChunks ((-k).toNat + 1) (-k).toNat ++ [dsb]
    else if k < len then
      sign ++ [dsb.take k.toNat, [46], dsb.drop k.toNat]
    else
      sign ++ [dsb] ++ zeroChunks ((k - len).toNat + 1) (k - len).toNat

def floatText (f : FloatFmt) (bits : Nat) : Bytes := (floatPieces f bits).flatten

end Scpi
