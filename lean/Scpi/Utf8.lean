/-
`core::str::from_utf8` re-stated (Unicode 15, table 3-7 "Well-Formed UTF-8 Byte
Sequences"; the same table `run_utf8_validation` implements).  Modelled, not
verified: validated against the implementation by the `UTF8` op class.
-/
import Scpi.Basic

namespace Scpi

@[inline] def inRange (lo hi b : Nat) : Bool := decide (lo ≤ b) && decide (b ≤ hi)

/-- Continuation byte `80..BF`. -/
@[inline] def isCont (b : Nat) : Bool := inRange 0x80 0xBF b

def validUtf8 : Bytes → Bool
  | [] => true
  | b0 :: rest =>
    if b0 < 0x80 then validUtf8 rest
    else if inRange 0xC2 0xDF b0 then
      match rest with
      | b1 :: r => isCont b1 && validUtf8 r
      | _ => false
    else if inRange 0xE0 0xEF b0 then
      match rest with
      | b1 :: b2 :: r =>
        (if b0 == 0xE0 then inRange 0xA0 0xBF b1
         else if b0 == 0xED then inRange 0x80 0x9F b1
         else isCont b1) && isCont b2 && validUtf8 r
      | _ => false
    else if inRange 0xF0 0xF4 b0 then
      match rest with
      | b1 :: b2 :: b3 :: r =>
        (if b0 == 0xF0 then inRange 0x90 0xBF b1
         else if b0 == 0xF4 then inRange 0x80 0x8F b1
         else isCont b1) && isCont b2 && isCont b3 && validUtf8 r
      | _ => false
    else false

end Scpi
