/-
`Interface::process::<N, A>` (interface.rs, after the D3 and D5 repairs) over a
scripted transport.

The adapter is a script: the byte stream, the sizes of the successive reads and
an optional fault at the k-th adapter call.  One read is issued per iteration of
the outer loop; the result is the trace of successful adapter calls, the final
user state and the transport error that ended the call (`process` never returns
`Ok`).
-/
import Scpi.Exec

namespace Scpi

/-- Transport errors of the scripted adapter. -/
inductive TErr where
  | eos                 -- a read with nothing left to deliver
  | fault (code : Int)  -- injected
  deriving DecidableEq, Repr, Inhabited

/-- Successful adapter calls. -/
inductive PEv where
  | r (delivered dstLen : Nat)
  | w (b : Bytes)
  | f
  deriving DecidableEq, Repr, Inhabited

structure Script where
  stream : Bytes
  sizes : List Nat
  fault : Option (Nat × Int) := none
  deriving Repr, Inhabited

/-- Why `process` stopped. -/
inductive PEnd where
  | transport (e : TErr)
  | crash (c : Crash)
  deriving Repr, Inhabited

/-- Local variables of `process` plus the adapter's script position and the trace. -/
structure PState (σ : Type) where
  buf : Bytes            -- `cmd_buf`, always `N` long
  procOff : Nat := 0
  readOff : Nat := 0
  header : Node
  user : σ
  stream : Bytes         -- bytes not yet delivered
  sizes : List Nat       -- read sizes not yet used
  calls : Nat := 0       -- adapter calls made so far
  trace : List PEv := []

structure POut (σ : Type) where
  trace : List PEv
  user : σ
  stop : PEnd
  final : PState σ

/-- Is adapter call number `k` the injected fault? -/
def faultAt (fault : Option (Nat × Int)) (k : Nat) : Option Int :=
  match fault with
  | some (i, c) => if i = k then some c else none
  | none => none

/-- `cmd_buf[read_offset..read_end].iter().position(|b| *b == b'\n')`. -/
def newlinePos : Bytes → Option Nat
  | [] => none
  | b :: rest => if b == 10 then some 0 else (newlinePos rest).map (· + 1)

/-- `list[a..b]` with Rust's bounds check. -/
def slice (l : Bytes) (a b : Nat) : Option Bytes :=
  if a ≤ b ∧ b ≤ l.length then some ((l.take b).drop a) else none

/-- The inner loop of `process` (one iteration per newline in the bytes just read).
Returns the new state or the reason to stop. -/
def procInner {σ : Type} (I : Iface σ) (n : Nat) (fault : Option (Nat × Int)) :
    Nat → Nat → PState σ → PState σ × Option PEnd
  | 0, _, st => (st, some (.crash .noProgress))
  | fuel + 1, readEnd, st =>
    match slice st.buf st.readOff readEnd with
    | none => (st, some (.crash .sliceOutOfRange))
    | some window =>
      match newlinePos window with
      | none => (st, none)
      | some position =>
        let terminatorPos := st.readOff + position
        -- `&cmd_buf[proc_offset..=terminator_pos]`
        match slice st.buf st.procOff (terminatorPos + 1) with
        | none => (st, some (.crash .sliceOutOfRange))
        | some data =>
          let out := runFrom I st.header data { cap := some n } st.user
          match out.crash with
          | some c => ({ st with user := out.s }, some (.crash c))
          | none =>
            let st := { st with header := out.header, user := out.s }
            -- `if !res_buf.is_empty() { adapter.write(..)?; adapter.flush()?; res_buf.clear(); }`
            let written : PState σ × Option PEnd :=
              if out.w.buf.isEmpty then (st, none)
              else
                match faultAt fault st.calls with
                | some c => (st, some (.transport (.fault c)))
                | none =>
                  let st := { st with calls := st.calls + 1, trace := st.trace ++ [PEv.w out.w.buf] }
                  match faultAt fault st.calls with
                  | some c => (st, some (.transport (.fault c)))
                  | none => ({ st with calls := st.calls + 1, trace := st.trace ++ [PEv.f] }, none)
            match written with
            | (st, some e) => (st, some e)
            | (st, none) =>
              if !out.rest.isEmpty then
                -- `proc_offset = proc_offset + data.len() - remaining.len()`
                if out.rest.length ≤ st.procOff + data.length then
                  procInner I n fault fuel readEnd
                    { st with procOff := st.procOff + data.length - out.rest.length,
                              readOff := terminatorPos + 1 }
                else (st, some (.crash .subOverflow))
              else
                procInner I n fault fuel readEnd
                  { st with procOff := terminatorPos + 1, readOff := terminatorPos + 1 }

/-- The outer loop of `process`: one `adapter.read` per iteration. -/
def procLoop {σ : Type} (I : Iface σ) (n : Nat) (fault : Option (Nat × Int)) :
    Nat → PState σ → POut σ
  | 0, st => { trace := st.trace, user := st.user, stop := .crash .noProgress, final := st }
  | fuel + 1, st =>
    let stop (e : PEnd) (st : PState σ) : POut σ :=
      { trace := st.trace, user := st.user, stop := e, final := st }
    -- `adapter.read(&mut cmd_buf[read_offset..]).await?`
    if st.readOff > n then stop (.crash .sliceOutOfRange) st else
    let dstLen := n - st.readOff
    match faultAt fault st.calls with
    | some c => stop (.transport (.fault c)) st
    | none =>
      if st.stream.isEmpty ∧ st.sizes.isEmpty then stop (.transport .eos) st else
      let want := match st.sizes with
        | k :: _ => k
        | [] => dstLen
      let count := min want (min dstLen st.stream.length)
      let chunk := st.stream.take count
      let st := { st with
        buf := st.buf.take st.readOff ++ chunk ++ st.buf.drop (st.readOff + count),
        stream := st.stream.drop count, sizes := st.sizes.drop 1,
        calls := st.calls + 1, trace := st.trace ++ [PEv.r count dstLen] }
      let readEnd := st.readOff + count
      match procInner I n fault (count + 1) readEnd st with
      | (st, some e) => stop e st
      | (st, none) =>
        let st := { st with readOff := readEnd }
        -- shift the unprocessed data to the beginning of the buffer
        let shifted : Except PEnd (PState σ) :=
          if st.procOff > 0 then
            match slice st.buf st.procOff readEnd with
            | none => .error (.crash .sliceOutOfRange)
            | some pending =>
              if st.procOff ≤ st.readOff then
                .ok { st with buf := pending ++ st.buf.drop pending.length,
                              readOff := st.readOff - st.procOff, procOff := 0 }
              else .error (.crash .subOverflow)
          else .ok st
        match shifted with
        | .error e => stop e st
        | .ok st =>
          -- a single unfinished message fills the buffer: discard it
          let st := if st.readOff ≥ n then { st with readOff := 0, header := I.root } else st
          procLoop I n fault fuel st

/-- `process::<N, _>(adapter)` on the scripted adapter. -/
def process {σ : Type} (I : Iface σ) (n : Nat) (sc : Script) (s : σ) : POut σ :=
  procLoop I n sc.fault (sc.sizes.length + sc.stream.length + 1)
    { buf := List.replicate n 0, header := I.root, user := s, stream := sc.stream, sizes := sc.sizes }

end Scpi
