/-
Standard commands (commands.rs): `SYSTem:ERRor[:NEXT]?`, `SYSTem:ERRor:COUNt?`,
`SYSTem:VERSion?` and the `ErrorHandler` the `ErrorCommands` blanket impl provides.
-/
import Scpi.ErrorQueue
import Scpi.Response

namespace Scpi

/-- `ErrorCommands::system_error_next` (commands.rs:22-29): `(number, description)`
of the oldest entry, which is removed; `(0, "")` when the queue is empty. -/
def systemErrorNext (q : EQueue) : EQueue × Resp :=
  match q.pop with
  | (some e, q') => (q', .seq [.int e.number, .str e.descBytes])
  | (none, q') => (q', .seq [.int 0, .str []])

/-- `ErrorCommands::system_error_count` (commands.rs:18-20). -/
def systemErrorCount (q : EQueue) : Resp := .int q.count

/-- `StandardCommands::system_version` (commands.rs:47-49), `SCPI_STD_VERSION`. -/
def systemVersion : Resp := .chars (strBytes "1999.0")

/-- `impl<I: ErrorCommands> ErrorHandler for I` (commands.rs:32-39). -/
def handleErrorQueue (q : EQueue) (e : Err) : EQueue := q.push e

end Scpi
