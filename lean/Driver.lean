/-
Line-protocol driver of the model (see /verif/PROTOCOL.md).  Reads the interface
specification file given as first argument, then op lines on stdin; prints one
result line per op line.
-/
import Scpi
import Scpi.Spec.Decode

open Scpi

/-! ### Text helpers -/

def hexDigit (n : Nat) : Char := "0123456789abcdef".toList.getD n '?'

def toHex (b : Bytes) : String :=
  if b.isEmpty then "-" else String.ofList (b.flatMap fun x => [hexDigit (x / 16 % 16), hexDigit (x % 16)])

def hexVal (c : Char) : Option Nat :=
  if '0' ≤ c ∧ c ≤ '9' then some (c.toNat - 48)
  else if 'a' ≤ c ∧ c ≤ 'f' then some (c.toNat - 87)
  else if 'A' ≤ c ∧ c ≤ 'F' then some (c.toNat - 55)
  else none

def fromHexChars : List Char → Option Bytes
  | [] => some []
  | [_] => none
  | a :: b :: rest =>
    match hexVal a, hexVal b, fromHexChars rest with
    | some x, some y, some r => some ((x * 16 + y) :: r)
    | _, _, _ => none

def fromHex (s : String) : Option Bytes := if s == "-" then some [] else fromHexChars s.toList

def hexNat (s : String) : Option Nat :=
  s.toList.foldl (fun acc c => match acc, hexVal c with
    | some a, some v => some (a * 16 + v)
    | _, _ => none) (some 0)

def padHex (n width : Nat) : String :=
  let ds := (Nat.toDigits 16 n)
  String.ofList (List.replicate (width - ds.length) '0' ++ ds)

def joinWith (sep : String) (l : List String) : String := sep.intercalate l

def errStr : Err → String
  | .std e => toString e.number
  | .custom n d => s!"c{n}:{toHex d}"

def tyName : Ty → String
  | .u8 => "u8" | .i8 => "i8" | .u16 => "u16" | .i16 => "i16" | .u32 => "u32" | .i32 => "i32"
  | .u64 => "u64" | .i64 => "i64" | .usize => "usize" | .isize => "isize" | .f32 => "f32"
  | .f64 => "f64" | .bool => "bool" | .str => "str" | .bytes => "bytes"

def tyOfName : String → Option Ty
  | "u8" => some .u8 | "i8" => some .i8 | "u16" => some .u16 | "i16" => some .i16
  | "u32" => some .u32 | "i32" => some .i32 | "u64" => some .u64 | "i64" => some .i64
  | "usize" => some .usize | "isize" => some .isize | "f32" => some .f32 | "f64" => some .f64
  | "bool" => some .bool | "str" => some .str | "bytes" => some .bytes
  | _ => none

def tvalStr : TVal → String
  | .int ty v => s!"{tyName ty}:{v}"
  | .f32 b => s!"f32:0x{padHex b 8}"
  | .f64 b => s!"f64:0x{padHex b 16}"
  | .bool b => if b then "bool:1" else "bool:0"
  | .str s => s!"str:{toHex s}"
  | .bytes s => s!"bytes:{toHex s}"

def stdErrOfNumber (n : Int) : Option StdErr := StdErr.all.find? (fun e => e.number == n)

/-! ### Value expressions (RESP, `const:` behaviours) -/

/-- Split at top-level `;` (not inside brackets). -/
def splitTop (cs : List Char) : List (List Char) :=
  let rec go : List Char → Nat → List Char → List (List Char) → List (List Char)
    | [], _, cur, acc => (acc ++ [cur])
    | c :: rest, depth, cur, acc =>
      if c == ';' && depth == 0 then go rest depth [] (acc ++ [cur])
      else
        let depth := if c == '(' || c == '[' then depth + 1
          else if c == ')' || c == ']' then depth - 1 else depth
        go rest depth (cur ++ [c]) acc
  go cs 0 [] []

def parseIntStr (s : String) : Option Int := s.toInt?

partial def parseValExpr (s : String) : Option Resp :=
  let cs := s.toList
  if s == "unit" then some .unit
  else if s.startsWith "t(" && s.endsWith ")" then
    let inner := (cs.drop 2).dropLast
    let parts := splitTop inner
    if parts.length < 2 ∨ parts.length > 4 then none else
    (parts.mapM fun p => parseValExpr (String.ofList p)).map .seq
  else if (s.startsWith "hv[" || s.startsWith "sl[") && s.endsWith "]" then
    let inner := (cs.drop 3).dropLast
    if inner.isEmpty then some (.seq []) else
    let parts := splitTop inner
    if s.startsWith "hv[" ∧ parts.length > 16 then none else
    (parts.mapM fun p => parseValExpr (String.ofList p)).map .seq
  else
    match s.splitOn ":" with
    | [k, v] =>
      if k == "bool" then (if v == "1" then some (.bool true) else if v == "0" then some (.bool false) else none)
      else if k == "f32" then (if v.startsWith "0x" then (hexNat (v.drop 2).toString).map .f32 else none)
      else if k == "f64" then (if v.startsWith "0x" then (hexNat (v.drop 2).toString).map .f64 else none)
      else if k == "chars" then (fromHex v).map .chars
      else if k == "arb" then (fromHex v).map .arb
      else if k == "str" || k == "sstr" then (fromHex v).map .str
      else if k == "hstr" then (fromHex v).bind fun b => if b.length > 64 then none else some (.str b)
      else if k == "err" then (parseIntStr v).bind fun n => (stdErrOfNumber n).map fun e => .err (.std e)
      else
        match tyOfName k with
        | some ty =>
          match ty.intInfo, parseIntStr v with
          | some (sg, bits), some n =>
            if intMin sg bits ≤ n ∧ n ≤ intMax sg bits then some (.int n) else none
          | _, _ => none
        | none => none
    | ["errc", n, d] =>
      match parseIntStr n, fromHex d with
      | some n, some d => some (.err (.custom n d))
      | _, _ => none
    | _ => none

/-! ### Interface specifications -/

inductive Beh where
  | unit
  | echo
  | const (r : Resp)
  | err (e : Err)
  deriving Inhabited

structure Decl where
  id : Nat
  cmd : Bytes
  isAsync : Bool
  argTys : List Ty
  beh : Beh
  deriving Inhabited

structure IfaceSpec where
  name : String
  std : Bool
  errc : Bool
  qcap : Nat
  procFull : Bool
  decls : List Decl
  deriving Inhabited

/-- User state of the driver's interfaces. -/
structure UState where
  log : List String := []
  errs : List Err := []
  queue : EQueue := { cap := 0 }
  hasQueue : Bool := false

def parseBeh (s : String) : Option Beh :=
  if s == "unit" then some .unit
  else if s == "echo" then some .echo
  else if s.startsWith "const:" then (parseValExpr (s.drop 6).toString).map .const
  else if s.startsWith "errc:" then
    match (s.drop 5).toString.splitOn ":" with
    | [n, d] => match parseIntStr n, fromHex d with
      | some n, some d => some (.err (.custom n d))
      | _, _ => none
    | _ => none
  else if s.startsWith "err:" then
    (parseIntStr (s.drop 4).toString).bind fun n => (stdErrOfNumber n).map fun e => .err (.std e)
  else none

def parseArgTys (s : String) : Option (List Ty) :=
  if s == "-" then some [] else (s.splitOn ",").mapM tyOfName

def respOfTVal : TVal → Resp
  | .int _ v => .int v
  | .f32 b => .f32 b
  | .f64 b => .f64 b
  | .bool b => .bool b
  | .str s => .str s
  | .bytes s => .arb s

def mkHandler (d : Decl) : UState → List TVal → UState × Except Err Resp := fun s args =>
  let entry := s!"{d.id}({joinWith "," (args.map tvalStr)})"
  let s := { s with log := s.log ++ [entry] }
  match d.beh with
  | .unit => (s, .ok .unit)
  | .echo =>
    match args with
    | [a] => (s, .ok (respOfTVal a))
    | _ => (s, .ok (.seq (args.map respOfTVal)))
  | .const r => (s, .ok r)
  | .err e => (s, .error e)

/-- `StandardCommands::system_version`, `ErrorCommands::system_error_next/_count` (commands.rs). -/
def stdCmds (spec : IfaceSpec) : List (Cmd UState) :=
  (if spec.std then [{ argTys := [], handler := fun s _ => (s, .ok systemVersion) }] else []) ++
  (if spec.errc then
    [{ argTys := [], handler := fun s _ =>
        let (q, r) := systemErrorNext s.queue
        ({ s with queue := q }, .ok r) },
     { argTys := [], handler := fun s _ => (s, .ok (systemErrorCount s.queue)) }]
   else [])

/-- Number the nodes (ghost tags) in depth-first order and list `(tag, path)`. -/
partial def relabel (n : Node) (path : List Bytes) (next : Nat) : Node × Nat × List (Nat × List Bytes) :=
  match n with
  | .mk _ ch cmd q =>
    let me := next
    let (ch', next', tab) := ch.foldl (fun (acc : List (Bytes × Node) × Nat × List (Nat × List Bytes)) kv =>
      let (done, nx, tb) := acc
      let (c', nx', tb') := relabel kv.2 (path ++ [kv.1]) nx
      (done ++ [(kv.1, c')], nx', tb ++ tb')) ([], next + 1, [])
    (.mk me ch' cmd q, next', (me, path) :: tab)

structure Built where
  spec : IfaceSpec
  iface : Iface UState
  paths : List (Nat × List Bytes)

def pathStr (p : List Bytes) : String :=
  if p.isEmpty then "-" else joinWith "/" (p.map fun k => String.ofList (k.map Char.ofNat))

def buildIface (spec : IfaceSpec) : Option Built :=
  let declStrs := spec.decls.map (·.cmd) ++ standardDecls spec.std spec.errc
  match declStrs.mapM (fun s => match Command.parse s with | .ok c => some c | .error _ => none) with
  | none => none
  | some cmds =>
    match insertAll emptyNode cmds 0 with
    | .error _ => none
    | .ok root =>
      let (root', _, tab) := relabel root [] 0
      let userCmds : List (Cmd UState) := spec.decls.map fun d => { argTys := d.argTys, handler := mkHandler d }
      some { spec, paths := tab,
             iface := { root := root', cmds := userCmds ++ stdCmds spec,
                        onError := fun s e =>
                          let s := { s with errs := s.errs ++ [e] }
                          if s.hasQueue then { s with queue := handleErrorQueue s.queue e } else s } }

def initState (spec : IfaceSpec) : UState :=
  { queue := { cap := spec.qcap }, hasQueue := spec.errc }

def parseSpecs (lines : List String) : Except String (List IfaceSpec) :=
  let rec go : List String → Option IfaceSpec → List IfaceSpec → Except String (List IfaceSpec)
    | [], none, acc => .ok acc
    | [], some _, _ => .error "unterminated IFACE"
    | l :: rest, cur, acc =>
      let toks := l.trimAscii.toString.splitOn " "
      match toks, cur with
      | [""], _ => go rest cur acc
      | ["IFACE", name, flags, qcap, procn], none =>
        go rest (some { name, std := flags.contains 'S', errc := flags.contains 'E',
                        qcap := qcap.toNat!, procFull := procn == "full", decls := [] }) acc
      | ["DECL", id, hexcmd, asy, args, beh], some sp =>
        match fromHex hexcmd, parseArgTys args, parseBeh beh with
        | some cmd, some tys, some b =>
          go rest (some { sp with decls := sp.decls ++
            [{ id := id.toNat!, cmd, isAsync := asy == "async", argTys := tys, beh := b }] }) acc
        | _, _, _ => .error s!"bad DECL: {l}"
      | ["END"], some sp => go rest none (acc ++ [sp])
      | _, _ => .error s!"bad spec line: {l}"
  go lines none []

/-! ### Printing results -/

def listStr (l : List String) : String := "[" ++ joinWith "," l ++ "]"

/-- Merge consecutive writes, drop empty ones. -/
def mergeEvs (evs : List WEv) : List String :=
  let rec go : List WEv → Bytes → List String → List String
    | [], cur, acc => if cur.isEmpty then acc else acc ++ [s!"W:{toHex cur}"]
    | .w b :: rest, cur, acc => go rest (cur ++ b) acc
    | .f :: rest, cur, acc => go rest [] ((if cur.isEmpty then acc else acc ++ [s!"W:{toHex cur}"]) ++ ["F"])
  go evs [] []

def parseWriter (s : String) : Option (Writer × Bool) :=
  if s == "std" then some ({ cap := none }, false)
  else if s == "pt" then some ({ cap := none }, true)
  else if s.startsWith "hl" then (s.drop 2).toString.toNat?.map fun c => ({ cap := some c }, false)
  else none

def queueStr (s : UState) : String := listStr (s.queue.items.map errStr)

def crashStr : Crash → String
  | .sliceOutOfRange => "PANIC" | .subOverflow => "PANIC" | .unwrapNone => "PANIC"
  | .noProgress => "HANG"

def valueStr : Value → String
  | .str s => s!"str:{toHex s}" | .chars s => s!"chars:{toHex s}" | .dec s => s!"dec:{toHex s}"
  | .hex s => s!"hex:{toHex s}" | .bin s => s!"bin:{toHex s}" | .oct s => s!"oct:{toHex s}"
  | .arb s => s!"arb:{toHex s}"

def optErrStr : Option Err → String
  | some e => errStr e
  | none => "none"

/-! ### Ops -/

def findIface (bs : List Built) (name : String) : Option Built := bs.find? (·.spec.name == name)

def opRun (b : Built) (wr : String) (inputs : String) : String :=
  match parseWriter wr, (inputs.splitOn "|").mapM fromHex with
  | some (w0, isPt), some ins =>
    let step := fun (acc : Writer × UState × List Nat × Option Crash) (inp : Bytes) =>
      let (w, s, rests, cr) := acc
      match cr with
      | some _ => acc
      | none =>
        let out := run b.iface inp w s
        (out.w, out.s, rests ++ [out.rest.length], out.crash)
    let (w, s, rests, cr) := ins.foldl step (w0, initState b.spec, [], none)
    match cr with
    | some c => crashStr c
    | none =>
      let ev := if isPt then listStr (mergeEvs w.evs) else "-"
      s!"log=[{joinWith ";" s.log}] out={toHex w.buf} ev={ev} errs={listStr (s.errs.map errStr)} rest={listStr (rests.map toString)} q={queueStr s}"
  | _, _ => "bad-op run"

/-- `RUNF`: like `RUN`, but the inputs are pieces handed to `run_from` one after the other, the header path left by
one piece being the start path of the next (the first starts at the root). -/
def opRunFrom (b : Built) (wr : String) (inputs : String) : String :=
  match parseWriter wr, (inputs.splitOn "|").mapM fromHex with
  | some (w0, isPt), some ins =>
    let step := fun (acc : Node × Writer × UState × List Nat × Option Crash) (inp : Bytes) =>
      let (h, w, s, rests, cr) := acc
      match cr with
      | some _ => acc
      | none =>
        let out := runFrom b.iface h inp w s
        (out.header, out.w, out.s, rests ++ [out.rest.length], out.crash)
    let (_, w, s, rests, cr) := ins.foldl step (b.iface.root, w0, initState b.spec, [], none)
    match cr with
    | some c => crashStr c
    | none =>
      let ev := if isPt then listStr (mergeEvs w.evs) else "-"
      s!"log=[{joinWith ";" s.log}] out={toHex w.buf} ev={ev} errs={listStr (s.errs.map errStr)} rest={listStr (rests.map toString)} q={queueStr s}"
  | _, _ => "bad-op run"

def pevStr : PEv → String
  | .r d n => s!"R{d}/{n}"
  | .w b => s!"W:{toHex b}"
  | .f => "F"

def opProc (b : Built) (n : String) (stream sched : String) (opts : List String) : String :=
  let fault : Option (Nat × Int) := opts.findSome? fun o =>
    if o.startsWith "fault=" then
      match (o.drop 6).toString.splitOn ":" with
      | [i, c] => match i.toNat?, c.toInt? with
        | some i, some c => some (i, c)
        | _, _ => none
      | _ => none
    else none
  let sizes : Option (List Nat) := if sched == "-" then some [] else (sched.splitOn ",").mapM (·.toNat?)
  match n.toNat?, fromHex stream, sizes with
  | some n, some st, some sizes =>
    if n = 0 then "bad-op n" else
    let out := process b.iface n { stream := st, sizes, fault } (initState b.spec)
    match out.stop with
    | .crash c => crashStr c
    | .transport e =>
      let e := match e with
        | .eos => "eos"
        | .fault c => s!"fault:{c}"
      s!"tr={listStr (out.trace.map pevStr)} log=[{joinWith ";" out.user.log}] errs={listStr (out.user.errs.map errStr)} end={e} q={queueStr out.user}"
  | _, _, _ => "bad-op proc"

def findNode (n : Node) : List Bytes → Option Node
  | [] => some n
  | k :: rest =>
    match n.children.find? (fun kv => kv.1 == k) with
    | some kv => findNode kv.2 rest
    | none => none

def nodePath (b : Built) (n : Node) : String :=
  match b.paths.find? (·.1 == n.tag) with
  | some (_, p) => pathStr p
  | none => "?"

def opParse (b : Built) (start : String) (hex : String) : String :=
  let keys : List Bytes := if start == "-" then [] else (start.splitOn "/").map strBytes
  match findNode b.iface.root keys, fromHex hex with
  | some hdr, some input =>
    match parse b.iface.root hdr input with
    | .ok rest none => s!"ok {rest.length} none"
    | .ok rest (some c) =>
      let h := match c.header with
        | some h => nodePath b h
        | none => "none"
      s!"ok {rest.length} node={nodePath b c.node} hdr={h} q={if c.query then 1 else 0} args={listStr (c.args.map valueStr)} term={if c.terminated then 1 else 0}"
    | .soft e => s!"soft:{optErrStr e}"
    | .fatal e => s!"fatal:{errStr e}"
    | .incomplete => "inc"
    | .crash c => crashStr c
  | _, _ => "bad-op parse"

partial def treeLines (n : Node) (path : List Bytes) : List (String × String) :=
  let optStr : Option Nat → String
    | some i => toString i
    | none => "none"
  let me := (pathStr path, s!"{pathStr path}:c={optStr n.command}:q={optStr n.query}")
  me :: n.children.flatMap fun kv => treeLines kv.2 (path ++ [kv.1])

def treeStr (n : Node) : String :=
  let ls := (treeLines n []).toArray.qsort (fun a b => a.1.toUTF8.toList < b.1.toUTF8.toList)
  "[" ++ joinWith ";" (ls.toList.map (·.2)) ++ "]"

def kindValue (kind : String) (text : Bytes) : Option Value :=
  match kind with
  | "str" => some (.str text) | "chars" => some (.chars text) | "dec" => some (.dec text)
  | "hex" => some (.hex text) | "bin" => some (.bin text) | "oct" => some (.oct text)
  | "arb" => some (.arb text)
  | _ => none

def opConv (ty kind hex : String) : String :=
  match tyOfName ty, fromHex hex with
  | some t, some text =>
    if kind != "arb" ∧ !validUtf8 text then "bad-op utf8" else
    match kindValue kind text with
    | some v =>
      match convert t v with
      | .ok tv => s!"ok {tvalStr tv}"
      | .error e => s!"err {errStr e}"
    | none => "bad-op kind"
  | _, _ => "bad-op conv"

def opResp (wr expr : String) : String :=
  match parseWriter wr, parseValExpr expr with
  | some (w0, isPt), some r =>
    let (w, res) := w0.writeResp r
    let rs := match res with
      | .ok () => "ok"
      | .error e => s!"err:{errStr e}"
    let ev := if isPt then listStr (mergeEvs w.evs) else "-"
    s!"res={rs} out={toHex w.buf} ev={ev}"
  | some _, none => "bad-op cap"
  | none, _ => "bad-op writer"

def opQueue (cap ops : String) : String :=
  match cap.toNat? with
  | none => "bad-op cap"
  | some c =>
    let step := fun (acc : EQueue × List String × Bool) (op : String) =>
      let (q, out, okk) := acc
      if op == "o" then
        match q.pop with
        | (some e, q') => (q', out ++ [s!"o={errStr e}"], okk)
        | (none, q') => (q', out ++ ["o=none"], okk)
      else if op == "n" then (q, out ++ [s!"n={q.count}"], okk)
      else if op.startsWith "p" then
        match (op.drop 1).toString.toInt?.bind stdErrOfNumber with
        | some e => (q.push (.std e), out, okk)
        | none => (q, out, false)
      else if op.startsWith "c" then
        match (op.drop 1).toString.splitOn ":" with
        | [n, d] => match n.toInt?, fromHex d with
          | some n, some d => (q.push (.custom n d), out, okk)
          | _, _ => (q, out, false)
        | _ => (q, out, false)
      else (q, out, false)
    let (_, out, okk) := (ops.splitOn ",").foldl step ({ cap := c }, [], true)
    if okk then listStr out else "bad-op queue"

def opMacro (decls : String) : String :=
  match (decls.splitOn ";").mapM fromHex with
  | none => "bad-op macro"
  | some ds =>
    match ds.mapM (fun s => match Command.parse s with | .ok c => some c | .error _ => none) with
    | none => "PANIC"
    | some cmds =>
      let paths := joinWith "|" (cmds.map fun c => joinWith "," (c.paths.map pathStr))
      match insertAll emptyNode cmds 0 with
      | .ok root => s!"paths=[{paths}] ins=ok tree={treeStr root}"
      | .error (e, k, _) =>
        let es := match e with
          | .commandExists => "CommandExists"
          | .queryExists => "QueryExists"
        s!"paths=[{paths}] ins={es}@{k} tree=-"

def opErrTab : String :=
  "tab=" ++ listStr (StdErr.all.map fun e => s!"{e.number}:{toHex (strBytes e.describe)}")

def runOp (bs : List Built) (line : String) : String :=
  let toks := line.trimAscii.toString.splitOn " "
  match toks with
  | [""] => ""
  | "RUN" :: name :: wr :: inputs :: _ =>
    match findIface bs name with
    | some b => opRun b wr inputs
    | none => "bad-op iface"
  | "RUNF" :: name :: wr :: inputs :: _ =>
    match findIface bs name with
    | some b => opRunFrom b wr inputs
    | none => "bad-op iface"
  | "PROC" :: name :: n :: stream :: sched :: opts =>
    match findIface bs name with
    | some b => opProc b n stream sched opts
    | none => "bad-op iface"
  | ["PARSE", name, start, hex] =>
    match findIface bs name with
    | some b => opParse b start hex
    | none => "bad-op iface"
  | ["TREE", name] =>
    match findIface bs name with
    | some b => "tree=" ++ treeStr b.iface.root
    | none => "bad-op iface"
  | ["CONV", ty, kind, hex] => opConv ty kind hex
  | ["RESP", wr, expr] => opResp wr expr
  | ["QUEUE", cap, ops] => opQueue cap ops
  | ["MACRO", decls] => opMacro decls
  | ["ERRTAB"] => opErrTab
  | ["UTF8", hex] =>
    match fromHex hex with
    | some b => if validUtf8 b then "1" else "0"
    | none => "bad-op hex"
  -- C04: the contract under which float responses decode (`FloatTextOk`), decided on the
  -- model's own formatter; the harness evaluates the same contract on the implementation's.
  | ["FLOATOK", ty, hex] =>
    if !hex.startsWith "0x" then "bad-op args" else
    match hexNat (hex.drop 2).toString with
    | none => "bad-op hex"
    | some bits =>
      let go (f : FloatFmt) : String :=
        if f.isNan bits || f.isInf bits then "na"
        else if decide (Scpi.C04.FloatTextOk f bits) then "1" else "0"
      if ty == "f32" then (if bits < 2 ^ 32 then go fmt32 else "bad-op val")
      else if ty == "f64" then (if bits < 2 ^ 64 then go fmt64 else "bad-op val")
      else "bad-op type"
  -- C13: the model's prediction for the number of heap allocations inside run/process is the
  -- constant 0 (every container is bounded: Props/C13); the op is only checked for shape.
  | "ALLOC" :: "RUN" :: name :: wr :: _ :: [] =>
    match findIface bs name with
    | some _ => if wr.startsWith "hl" then "alloc=0" else "bad-op writer"
    | none => "bad-op iface"
  | "ALLOC" :: "PROC" :: name :: _ :: _ :: _ :: [] =>
    match findIface bs name with
    | some _ => "alloc=0"
    | none => "bad-op iface"
  | _ => if line.startsWith "//" then "" else "bad-op unknown"

partial def loop (h : IO.FS.Stream) (out : IO.FS.Stream) (bs : List Built) : IO Unit := do
  let line ← h.getLine
  if line.isEmpty then return ()
  out.putStrLn (runOp bs line)
  loop h out bs

def main (args : List String) : IO UInt32 := do
  match args with
  | [specFile] =>
    let text ← IO.FS.readFile specFile
    match parseSpecs (text.splitOn "\n") with
    | .error e => IO.eprintln e; return 2
    | .ok specs =>
      let bs := specs.filterMap buildIface
      let stdin ← IO.getStdin
      let stdout ← IO.getStdout
      loop stdin stdout bs
      return 0
  | _ => IO.eprintln "usage: driver <ifaces.txt>"; return 2
