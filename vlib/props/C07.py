"""C07 — process depends only on the byte stream, not on how it arrives."""
import itertools
from ..common import Case, hx, parse_fields, parse_list, is_crash, log_entries
from .. import gen as G

LEVEL = 'proof'
TRUSTED = ['Lean 4 kernel; axioms propext, Classical.choice, Quot.sound only',
           'Poll::Pending patterns of transport / writer / handler futures are not a notion of the model: exercised on the real code with pend=k '
           'and compared with the same (Pending-free) model; rests on Rust lowering sequential async code (trusted)',
           'correspondence harness + driver (differential testing; covers only generated cases)']
RULE = ('streams (well-formed, faulty, arbitrary, with payload newlines, longer than the buffer) x buffer sizes x schedules: all-at-once, byte-wise, '
        'every composition of short streams into read sizes (exhaustive up to the bound), zero-length reads, reads that exactly fill the buffer, '
        'random sizes, pend=k. Relational oracle on the implementation alone: every schedule gives the same writes/flushes, handler log, errors '
        'and queue as the byte-wise schedule; and the same as run message by message when every message fits and has one newline. '
        'non-trivial = distinct executed op')
EXPLANATION = 'process refines the byte-at-a-time stream machine (theorem) => chunk independence; tie by PROC ops; oracle relational on the implementation'


def strip_reads(line):
    f = parse_fields(line)
    tr = [t for t in parse_list(f.get('tr', '[]')) if not t.startswith('R')]
    return (tuple(tr), f.get('log'), f.get('errs'), f.get('q'), f.get('end'))


def no_crash(line, case):
    if is_crash(line):
        return 'crash'
    if 'end=budget' in line:
        return 'process spins'
    return None


def compositions(n, maxpart):
    """all compositions of n into parts 1..maxpart"""
    if n == 0:
        yield []
        return
    for k in range(1, min(n, maxpart) + 1):
        for rest in compositions(n - k, maxpart):
            yield [k] + rest


def relational(cases, impl):
    fails = []
    groups = {}
    for i, c in enumerate(cases):
        g = c.meta.get('group')
        if g is not None:
            groups.setdefault(g, []).append(i)
    for g, idx in groups.items():
        procs = [i for i in idx if cases[i].op.startswith('PROC')]
        if not procs:
            continue
        ref = strip_reads(impl[procs[0]])
        for i in procs[1:]:
            if is_crash(impl[i]):
                continue
            got = strip_reads(impl[i])
            if got != ref:
                fails.append((i, f'schedule changes the outcome: byte-wise schedule gives {ref}, this schedule gives {got}'))
                break
        runs = [i for i in idx if cases[i].op.startswith('RUN')]
        for i in runs:
            # messages fit, one newline each: same handler log, errors, queue and response bytes as process
            fr = parse_fields(impl[i])
            fp = parse_fields(impl[procs[0]])
            if any(x != '0' for x in parse_list(fr.get('rest', '[]'))):
                continue    # some "message" leaves a string or block open: its newline is not a terminator (DESIGN section 7)
            wbytes = ''.join(t[2:] for t in parse_list(fp.get('tr', '[]')) if t.startswith('W:')) or '-'
            if (fr.get('log'), fr.get('errs'), fr.get('q')) != (fp.get('log'), fp.get('errs'), fp.get('q')) or fr.get('out') != wbytes:
                nbuf = int(cases[procs[0]].op.split()[2])
                out_run = fr.get('out', '-')
                total = 0 if out_run == '-' else len(out_run) // 2
                if ('-223' in fp.get('errs', '') or '-310' in fp.get('errs', '')) and total > nbuf:
                    continue    # a response may not have fitted the N-byte response buffer: run with an unbounded writer differs by
                                # design (when all responses of the stream together are at most N bytes, each of them fitted)
                fails.append((i, f'run message by message gives log={fr.get("log")} errs={fr.get("errs")} out={fr.get("out")}, '
                                 f'process gives log={fp.get("log")} errs={fp.get("errs")} out={wbytes}'))
    return fails


def schedules(rng, stream, n, tier, exhaustive):
    L = len(stream)
    out = [[1] * L, []]
    if exhaustive and L <= (9 if tier == 'quick' else 12):
        for comp in compositions(L, L):
            out.append(comp)
    else:
        out.append([n] * (L // max(n, 1) + 1))                       # reads that exactly fill the buffer
        out.append([x for _ in range(L) for x in (0, 1)])            # empty reads interleaved
        for _ in range(4 if tier == 'quick' else 12):
            s, tot = [], 0
            while tot < L:
                k = rng.choice([0, 1, 1, 2, 3, n, n - 1, n + 1, rng.randint(1, max(2, n))])
                k = max(0, k)
                s.append(k); tot += k
            out.append(s)
    return out


def echo_cases(rng, tier, echo):
    """3. every echo query with a valid literal of its type (long float expansions included), one to three messages, buffers
    in which message and response fit: process must do what run does message by message"""
    out = []
    echoes = [d for d in echo.decls if d.beh == 'echo']
    fixed = [b'ECHO:F64? 1e40\n', b'ECHO:F64? -1e-35\n', b'ECHO:F32? 1e38\n', b'ECHO:F32? -1.5e-40\n', b'ECHO:F64? 123456789012345678901234567890123\n',
             b'ECHO:F64? 1e33\n', b'ECHO:F64? 1e32\n', b'ECHO:F64? 1e31\n', b'ECHO:U64? 18446744073709551615\n', b'ECHO:I64? -9223372036854775808\n']
    streams = [[m] for m in fixed]
    for _ in range(60 if tier == 'quick' else 1500):
        msgs = []
        for _k in range(rng.randint(1, 3)):
            d = rng.choice(echoes)
            t, _entry, _ = G.valid_call(rng, echo, d, newline=False)
            msgs.append(t + b'\n')
        streams.append(msgs)
    for gi, msgs in enumerate(streams):
        stream = b''.join(msgs)
        if any(len(m) > 256 for m in msgs):
            continue
        for sched in ([1] * len(stream), [], [rng.randint(1, 9) for _ in range(len(stream))]):
            out.append(Case(f'PROC echo 256 {hx(stream)} {",".join(map(str, sched)) or "-"}', no_crash, {'group': f'echo{gi}', 'kind': 'PROC-echo'}))
        out.append(Case('RUN echo std ' + '|'.join(hx(m) for m in msgs), no_crash, {'group': f'echo{gi}', 'kind': 'RUN-permsg'}))
    return out


def corpus_cases(ifaces):
    s = b'ECHO:U8? 1\nECHO:U8? 2\nECHO:U8? 3\n'
    out = []
    for sched in ([1] * len(s), [], [11, 11, 11]):
        out.append(Case(f'PROC echo 16 {hx(s)} {",".join(map(str, sched)) or "-"}', no_crash, {'group': 'corpus-D5', 'kind': 'corpus-D5'}))
    s2 = b'U\nECHO:BOOL? ON\nECHO:BOOL? 0\n'
    for sched in ([1] * len(s2), [], [16, 16]):
        out.append(Case(f'PROC echo 16 {hx(s2)} {",".join(map(str, sched)) or "-"}', no_crash, {'group': 'corpus-D5b', 'kind': 'corpus-D5'}))
    return out


def cases(tier, rng, ifaces):
    out = []
    echo = ifaces['echo']
    gid = 0
    # 1. short streams, exhaustive compositions, small buffers
    shorts = [b'X\n', b'X;X\n', b'*IDN?\n', b'X\nX\n', b'FOO\nX\n', b'STR "a\nb"\n', b'BLK #12\n\n\n', b'SYST:A;BAR\n', b'X "\n', b'\n\nX\n', b'X\r\n',
              b'BOOL ON\n', b'ARB?\n', b'XXXXXXXXX\n', b'SYST:A;STR "\n";BAR\n', b'SYST:A;BLK #11\n;A\n', b'SYST:STR "x\ny";A;BAR\nBAR\n']
    for s in shorts:
        for n in ([2, 3, 4, 5, 8, 16, 32] if tier == 'quick' else [1, 2, 3, 4, 5, 6, 7, 8, 12, 16, 24, 32, 64]):
            gid += 1
            for sched in schedules(rng, s, n, tier, True):
                out.append(Case(f'PROC echo {n} {hx(s)} {",".join(map(str, sched)) or "-"}', no_crash, {'group': gid, 'kind': 'PROC-exh'}))
    # 1b. compound messages with relative units / common commands: the path context must not leak from one
    #     message into the next, whatever the chunking, and process must equal run message by message
    from .C02 import gen_message as gen_compound
    for _ in range(150 if tier == 'quick' else 2500):
        iface = ifaces[rng.choice(['echo', 't1', 't1', 'a1', 'g1'] + sorted(n for n in ifaces if n.startswith('r')))]
        msgs = [gen_compound(rng, iface, rng.randint(1, 5), 0.0)[0] for _ in range(rng.randint(2, 4))]
        stream = b''.join(msgs)
        n = rng.choice([x for x in iface.proc_sizes() if x >= max(len(m) for m in msgs)] or [256])
        if max(len(m) for m in msgs) > n:
            continue
        gid += 1
        for sched in schedules(rng, stream, n, tier, False):
            out.append(Case(f'PROC {iface.name} {n} {hx(stream)} {",".join(map(str, sched)) or "-"}', no_crash, {'group': gid, 'kind': 'PROC-compound'}))
        out.append(Case(f'RUN {iface.name} std ' + '|'.join(hx(m) for m in msgs), no_crash, {'group': gid, 'kind': 'RUN-permsg'}))
    # 2. generated streams of messages (valid, faulty, payload newlines), random buffers and schedules
    from .C06 import gen_message
    nstreams = 250 if tier == 'quick' else 3000
    for _ in range(nstreams):
        k = rng.randint(1, 4)
        msgs = []
        fits_src = True
        for _m in range(k):
            r = rng.random()
            if r < 0.6:
                m, _l, _e = gen_message(rng, echo, rng.random() < 0.3)
            elif r < 0.8:
                d = rng.choice([x for x in echo.decls if x.args and x.args[0] in ('str', 'bytes') and len(x.args) == 1])
                t, _entry, _ = G.valid_call(rng, echo, d, newline=True)
                m = t + b'\n'
            else:
                m = bytes(rng.choice(b'X1"#; \n?:,*\'') for _ in range(rng.randint(1, 12))) + b'\n'
            msgs.append(m)
        stream = b''.join(msgs)
        one_nl = all(m.count(b'\n') == 1 for m in msgs)
        n = rng.choice(echo.proc_sizes())
        gid += 1
        for sched in schedules(rng, stream, n, tier, False):
            pend = f' pend={rng.randint(1, 3)}' if rng.random() < 0.25 else ''
            out.append(Case(f'PROC echo {n} {hx(stream)} {",".join(map(str, sched)) or "-"}{pend}', no_crash, {'group': gid, 'kind': 'PROC-gen'}))
        if one_nl and all(len(m) <= n for m in msgs):
            out.append(Case('RUN echo std ' + '|'.join(hx(m) for m in msgs), no_crash, {'group': gid, 'kind': 'RUN-permsg'}))
    return out + echo_cases(rng, tier, echo)
