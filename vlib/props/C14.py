"""C14 — ambiguous command sets are rejected at compile time, never shadowed."""
import json, os, shutil, subprocess
from ..common import Case, hx, is_crash, HARNESS, ENV, BuildError
from .. import gen as G
from .. import spell
from .C01 import macro_oracle, random_declset

LEVEL = 'proof'
TRUSTED = ['Lean 4 kernel; axioms propext, Classical.choice, Quot.sound only',
           'compile failure itself is tree.insert(..).unwrap() panicking inside the attribute macro: modelled as "insert error => no program", validated on real compiler runs of generated crates',
           'HashMap in the macro: only its map semantics', 'ASCII declarations',
           'correspondence harness + driver (differential testing; covers only generated cases)']
RULE = ('TREE of every compiled interface and every spelling of every declaration (it must reach its own handler); MACRO on pairs/sets of declarations biased towards intersecting spellings (identical, short-equals-long, optional-node-induced) '
        'and their collision-free twins (one letter renamed, kind flipped, bracket removed), real command.rs/tree.rs by path include vs model, '
        'judged by an independent spelling-set intersection; plus real cargo builds of generated one-interface crates (ambiguous crate and twin). '
        'non-trivial = distinct executed op / compiled crate')
EXPLANATION = 'insertAll fails iff two different declarations share a spelled path of one kind (theorem); tie to the code by MACRO ops and real compiler runs'

BASES = ['SYSTem:ERRor', 'MEASure:VOLTage', 'OUTPut:STATe', 'aBc:D_1e', 'TeST', 'FOo', 'A:B:C', 'CONFigure:[VOLTage]:DC', '[SENSe]:CURRent',
         'TRIGger:[SEQuence]:[IMMediate]', '*IDN', 'X1:Y2', '[AB]:[AB]', 'SOURce:[LEVel]:LEVel']


def variant_colliding(rng, d):
    parts, q = spell.parse_decl(d)
    r = rng.random()
    sp = []
    for opt, p in parts:
        x = rng.random()
        if opt and x < 0.4:
            continue
        form = spell.short_form(p) if (x < 0.7 and spell.short_form(p)) else p.upper()
        sp.append(('[' + form + ']') if (opt and rng.random() < 0.3) else form)
    if not sp:
        sp = [parts[-1][1]]
    return ':'.join(sp) + ('?' if q else '')


def twin(rng, d):
    """a declaration close to `d` that does not collide with it"""
    parts, q = spell.parse_decl(d)
    r = rng.random()
    if r < 0.4:
        return d[:-1] if q else d + '?'
    ps = [('[' + p + ']' if o else p) for o, p in parts]
    k = rng.randrange(len(ps))
    ps[k] = ps[k].replace(']', 'Z]') if ps[k].endswith(']') else ps[k] + 'Z'
    return ':'.join(ps) + ('?' if q else '')


def pair_cases(rng, n):
    out = []
    for _ in range(n):
        base = rng.choice(BASES) + ('?' if rng.random() < 0.5 else '')
        other = variant_colliding(rng, base) if rng.random() < 0.6 else twin(rng, base)
        extra = [rng.choice(BASES) for _ in range(rng.randint(0, 2))]
        decls = [base, other] + extra
        rng.shuffle(decls)
        out.append(Case('MACRO ' + ';'.join(hx(d) for d in decls), macro_oracle, {'decls': decls, 'kind': 'MACRO-pair'}))
    return out


def corpus_cases(ifaces):
    # D9: a declaration never collides with itself
    return [Case('MACRO ' + hx('[AB]:[AB]'), macro_oracle, {'decls': ['[AB]:[AB]'], 'kind': 'corpus-D9'}),
            Case('MACRO ' + hx('[AB]:[AB]') + ';' + hx('AB'), macro_oracle, {'decls': ['[AB]:[AB]', 'AB'], 'kind': 'corpus-D9'})]


def fresh_cases(tier, rng, ifaces):
    """thorough tier: the run's fresh collision-free declaration sets were accepted by the real attribute macro (the second
    harness was built from them); their emitted trees are compared with the model's, and the same sets go through MACRO"""
    out = []
    for name, iface in ifaces.items():
        out.append(Case(f'TREE {name}', None, {'kind': 'TREE-fresh'}))
        decls = [d.cmd for d in iface.decls]
        out.append(Case('MACRO ' + ';'.join(hx(d) for d in decls), macro_oracle, {'decls': decls, 'kind': 'MACRO-fresh'}))
    return out


def shadow_cases(tier, rng, ifaces):
    """never silently shadowed: on every compiled interface the emitted tree is the model's (TREE) and every spelling of every
    declaration reaches that declaration's own handler (the RUN-spelling cases of C01)"""
    from .C01 import header_cases
    out = []
    for name, iface in ifaces.items():
        out.append(Case(f'TREE {name}', None, {'kind': 'TREE'}))
        out += [c for c in header_cases(rng, iface, tier) if c.meta.get('kind') == 'RUN-spelling']
    return out


def cases(tier, rng, ifaces):
    out = shadow_cases(tier, rng, ifaces) + pair_cases(rng, 4000 if tier == 'quick' else 60000)
    for _ in range(1000 if tier == 'quick' else 20000):
        decls = random_declset(rng, 0.6)
        out.append(Case('MACRO ' + ';'.join(hx(d) for d in decls), macro_oracle, {'decls': decls, 'kind': 'MACRO-set'}))
    return out


# ---------------------------------------------------------------------------
# real compiler runs

CF_DIR = os.path.join(HARNESS, 'compilefail')


def crate_source(decls):
    fns = []
    for i, d in enumerate(decls):
        esc = d.replace('\\', '\\\\').replace('"', '\\"')
        fns.append(f'    #[scpi(cmd = "{esc}")]\n    async fn h{i}(&mut self) -> Result<(), microscpi::Error> {{ Ok(()) }}')
    return ('use microscpi::{self as scpi};\npub struct T;\nimpl scpi::ErrorHandler for T { fn handle_error(&mut self, _e: scpi::Error) {} }\n'
            '#[scpi::interface]\nimpl T {\n' + '\n'.join(fns) + '\n}\nfn main() { let _ = T; }\n')


def compile_sets(sets):
    """-> list of 'ok' | 'CommandExists' | 'QueryExists' | 'other:<msg>' for each declaration set"""
    if os.path.isdir(CF_DIR):
        shutil.rmtree(CF_DIR)
    os.makedirs(os.path.join(CF_DIR, 'src', 'bin'))
    with open(os.path.join(CF_DIR, 'Cargo.toml'), 'w') as f:
        f.write('[package]\nname = "compilefail"\nversion = "0.0.0"\nedition = "2021"\n[workspace]\n'
                '[dependencies]\nmicroscpi = { path = "/repo/microscpi", features = ["std"] }\n'
                '[profile.dev]\nopt-level = 1\ndebug = false\n')
    shutil.copy(os.path.join(HARNESS, 'Cargo.lock'), os.path.join(CF_DIR, 'Cargo.lock'))
    for k, decls in enumerate(sets):
        with open(os.path.join(CF_DIR, 'src', 'bin', f'case_{k}.rs'), 'w') as f:
            f.write(crate_source(decls))
    p = subprocess.run(['cargo', 'build', '--offline', '--bins', '--keep-going', '--message-format=json',
                        '--target-dir', os.path.join(HARNESS, 'target')], cwd=CF_DIR, env=ENV,
                       stdout=subprocess.PIPE, stderr=subprocess.PIPE, text=True, timeout=1800)
    res = [None] * len(sets)
    for line in p.stdout.split('\n'):
        if not line.startswith('{'):
            continue
        try:
            m = json.loads(line)
        except ValueError:
            continue
        tgt = (m.get('target') or {}).get('name', '')
        if not tgt.startswith('case_'):
            continue
        k = int(tgt[5:])
        if m.get('reason') == 'compiler-artifact':
            if res[k] is None:
                res[k] = 'ok'
        elif m.get('reason') == 'compiler-message' and m['message'].get('level') == 'error':
            txt = m['message'].get('rendered') or m['message'].get('message', '')
            if 'CommandExists' in txt:
                res[k] = 'CommandExists'
            elif 'QueryExists' in txt:
                res[k] = 'QueryExists'
            elif res[k] in (None, 'ok'):
                res[k] = 'other:' + m['message'].get('message', '')[:200]
    # remove generated sources and their build output
    shutil.rmtree(CF_DIR, ignore_errors=True)
    tdir = os.path.join(HARNESS, 'target', 'debug')
    for sub in ('', 'deps', 'incremental'):
        d = os.path.join(tdir, sub)
        if os.path.isdir(d):
            for fn in os.listdir(d):
                if fn.startswith('case_') or fn.startswith('compilefail'):
                    pth = os.path.join(d, fn)
                    shutil.rmtree(pth, ignore_errors=True) if os.path.isdir(pth) else os.remove(pth)
    for k in range(len(res)):
        if res[k] is None:
            res[k] = 'other:no result (' + p.stderr[-300:] + ')'
    return res


def compile_pairs(tier, rng):
    n = 5 if tier == 'quick' else 30
    sets = [['[AB]:[AB]']]          # D9 witness: must compile
    for _ in range(n):
        base = rng.choice([b for b in BASES if not b.startswith('*')]) + ('?' if rng.random() < 0.5 else '')
        bad = variant_colliding(rng, base)
        good = twin(rng, base)
        sets.append([base, bad])
        sets.append([base, good])
    return sets


def relational(cases, impl):
    return []


def extra_stage(tier, rng):
    """Real compiler runs. -> (failures [(desc, msg)], n_compiled)"""
    sets = compile_pairs(tier, rng)
    res = compile_sets(sets)
    fails = []
    for decls, r in zip(sets, res):
        coll = spell.set_collides(decls)
        if coll and r == 'ok':
            fails.append((decls, 'ambiguous declarations compiled (a declaration is shadowed)'))
        elif not coll and r != 'ok':
            fails.append((decls, f'collision-free declarations did not compile: {r}'))
        elif coll and r.startswith('other'):
            fails.append((decls, f'ambiguous declarations failed for another reason: {r}'))
    return fails, len(sets), list(zip(sets, res))[:4]
