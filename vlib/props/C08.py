"""C08 — strings and blocks are transparent containers, also across reads."""
from ..common import Case, hx, parse_fields, parse_list, is_crash, log_entries
from .. import gen as G

LEVEL = 'proof'
TRUSTED = ['Lean 4 kernel; axioms propext, Classical.choice, Quot.sound only',
           'core::str::from_utf8 re-stated (validated by UTF8 ops)',
           'correspondence harness + driver (differential testing; covers only generated cases)']
RULE = ('string payloads (UTF-8 without the enclosing quote) and block payloads (all byte values, 1..9 length digits) stressing ; , : # quotes white '
        'space NUL 0xff CR LF and multi-byte UTF-8, at every argument position and unit position of compound messages (relative units after ";" '
        'included), given to run whole and streamed through process with buffers from the message length upward in byte-wise/random/aligned '
        'chunkings. Oracle: payload delivered verbatim, no error, all units run, process == run. non-trivial = distinct executed op with a payload')
EXPLANATION = 'payload recognisers verbatim, resume of an incomplete message (theorems); tie by RUN/PROC ops; oracle = expectation carried by the generator'

SPECIAL_STR = ['', '\n', '\n\n', 'a\nb', ';', 'a;b', ',', ':', '#', '#12ab', ' ', '\t', '\r', '\r\n', '?', '*', '\x00', '\x7f', 'é', '€', '😀', "it's" , 'say "x"',
               ';\n;', ':X\n', '\n*IDN?', 'X;X', '\nFOO\n', '12,"3"']
SPECIAL_BLK = [b'', b'\n', b'\n\n', b';', b',', b':', b'#', b'"', b"'", b' ', b'\x00', b'\xff', b'\x80\xfe', b'a\nb', b'\r\n', b'"\n"', b'\n*RST\n', bytes(range(0, 40)),
               b'#10', b';;;', b'X\nX\n']


def str_lit(rng, payload):
    q = "'" if '"' in payload else ('"' if "'" in payload else rng.choice('\'"'))
    if q in payload:
        return None
    raw = payload.encode('utf-8')
    return q.encode() + raw + q.encode(), 'str:' + hx(raw)


def blk_lit(rng, payload):
    ln = str(len(payload))
    nd = rng.randint(len(ln), 9) if rng.random() < 0.4 else len(ln)
    return b'#' + str(nd).encode() + ln.rjust(nd, '0').encode() + payload, 'bytes:' + hx(payload)


def payload_unit(rng, echo, relative_to_syst):
    """a unit whose argument(s) carry payloads -> (text, entry)"""
    kind = rng.random()
    pstr = rng.choice(SPECIAL_STR) if rng.random() < 0.6 else G.str_payload(rng, '\x01', True, 10)
    pblk = rng.choice(SPECIAL_BLK) if rng.random() < 0.6 else bytes(rng.choice([10, 59, 44, 34, 39, 35, 0, 255, rng.randrange(256)]) for _ in range(rng.randint(0, 10)))
    sl = str_lit(rng, pstr) or str_lit(rng, 'x')
    bl = blk_lit(rng, pblk)
    pre = b'' if relative_to_syst else b':'
    if relative_to_syst:
        if kind < 0.5:
            return b'STR ' + sl[0], f'9({sl[1]})'
        return b'BLK ' + bl[0], f'8({bl[1]})'
    if kind < 0.2:
        return pre + b'STR ' + sl[0], f'5({sl[1]})'
    if kind < 0.4:
        return pre + b'BLK ' + bl[0], f'4({bl[1]})'
    if kind < 0.55:
        return pre + b'SYST:STR ' + sl[0], f'9({sl[1]})'
    if kind < 0.7:
        return pre + b'SYST:BLK ' + bl[0], f'8({bl[1]})'
    if kind < 0.8:
        return pre + b'TWO 7,' + sl[0], f'15(u8:7,{sl[1]})'
    if kind < 0.9:
        return pre + b'ECHO:QUAD? -1,' + bl[0] + b' , ' + sl[0] + b',9', f'49(i64:-1,{bl[1]},{sl[1]},u16:9)'
    return pre + b'SET:STR ' + sl[0], f'{echo_id(echo, "SET:STR")}({sl[1]})'


def echo_id(echo, cmd):
    for d in echo.decls:
        if d.cmd == cmd:
            return d.id
    raise KeyError(cmd)


def oracle(line, case):
    if is_crash(line):
        return 'crash'
    f = parse_fields(line)
    log = log_entries(f)
    errs = parse_list(f.get('errs', '[]'))
    if errs:
        return f'no error expected for a well-formed message with payloads, got {errs}'
    if log != case.meta['log']:
        return f"payloads must be delivered verbatim and every unit must run: expected {case.meta['log']}"
    return None


def corpus_cases(ifaces):
    out = []
    for op, log in [
        ('PROC echo 64 ' + hx(b'STR "a\nb"\n') + ' -', ['5(str:610a62)']),
        ('PROC echo 64 ' + hx(b"STR 'a\nb'\n") + ' 3,3,3,3', ['5(str:610a62)']),
        ('PROC echo 64 ' + hx(b'SYST:A;BLK #13a\nb\n') + ' -', ['6()', '8(bytes:610a62)']),
        ('RUN echo std ' + hx(b'SYST:A;BLK #13a\nb\n'), ['6()', '8(bytes:610a62)']),
        ('RUN echo std ' + hx(b'BLK #9000000003a\nb\n'), ['4(bytes:610a62)']),
    ]:
        out.append(Case(op, oracle, {'log': log, 'kind': 'corpus-D2/D3/D10'}))
    return out


def cases(tier, rng, ifaces):
    echo = ifaces['echo']
    out = []
    n = 1500 if tier == 'quick' else 20000
    for i in range(n):
        k = rng.randint(1, 4)
        texts, log = [], []
        in_syst = False
        for u in range(k):
            r = rng.random()
            if r < 0.7:
                t, e = payload_unit(rng, echo, in_syst and rng.random() < 0.5)
                texts.append(t); log.append(e)
                in_syst = t.startswith(b':SYST') or (in_syst and not t.startswith(b':'))
            elif r < 0.85:
                texts.append(b':SYST:A'); log.append('6()'); in_syst = True
            else:
                texts.append(b'*RST'); log.append('1()')
        msg = b';'.join(texts) + b'\n'
        meta = {'log': log, 'kind': 'RUN-payload', 'group': i}
        out.append(Case(f'RUN echo std {hx(msg)}', oracle, meta))
        sizes_ok = [s for s in echo.proc_sizes() if s >= len(msg)]
        if not sizes_ok:
            continue
        N = sizes_ok[0] if rng.random() < 0.4 else rng.choice(sizes_ok)
        scheds = [[1] * len(msg), []]
        s, tot = [], 0
        while tot < len(msg):
            s.append(rng.randint(1, 6)); tot += s[-1]
        scheds.append(s)
        # a chunk boundary right after every newline
        pos = [j + 1 for j, b in enumerate(msg) if b == 10]
        scheds.append([b - a for a, b in zip([0] + pos, pos)])
        for sc in scheds:
            out.append(Case(f'PROC echo {N} {hx(msg)} {",".join(map(str, sc)) or "-"}', oracle, dict(meta, kind='PROC-payload')))
    return out
