"""C03 — handlers receive exactly the argument values written, or are not called."""
from ..common import Case, hx, parse_fields, parse_list, is_crash, log_entries
from .. import gen as G

from .C01 import deliver

LEVEL = 'proof'
TRUSTED = ['Lean 4 kernel; axioms propext, Classical.choice, Quot.sound only',
           'core::num from_str_radix and str::parse::<f32|f64> are re-stated in Lean (exact round-to-nearest-even), not verified; validated by CONV ops against python big-integer / exact-rational arithmetic',
           'usize/isize are 64 bit (the host of the harness)',
           'correspondence harness + driver (differential testing; covers only generated cases)']
RULE = ('CONV: direct TryInto for every target type x data kind x boundary value (MIN-1, MIN, -1, -0, 0, +0, MAX, MAX+1, 2^k, 2^k+-1 in radix 10/16/8/2, '
        '18-40 digit values, leading zeros, 5., .5, 1e3), floats from random decimal spellings judged by exact rational rounding in python; '
        'RUN on the echo interface (ECHO:<TY>? <lit>, SET:<TY>, 0..10 parameters of mixed types, mismatched kinds, 9..12 arguments). '
        'non-trivial = distinct executed op')
EXPLANATION = 'conversion theorems on the model; tie by CONV/RUN ops; oracle = python exact arithmetic'

INT = G.INT_TYPES


def conv_expect_int(ty, kind, text):
    signed, bits = INT[ty]
    lo, hi = (-(1 << (bits - 1)), (1 << (bits - 1)) - 1) if signed else (0, (1 << bits) - 1)
    if kind not in ('dec', 'hex', 'bin', 'oct'):
        return 'err -104'
    radix = {'dec': 10, 'hex': 16, 'bin': 2, 'oct': 8}[kind]
    s = text
    neg = False
    if s[:1] == '+':
        s = s[1:]
    elif s[:1] == '-' and signed:
        neg = True
        s = s[1:]
    if not s:
        return 'err -120'
    v = 0
    for c in s:
        if c.isdigit() and c.isascii():
            d = ord(c) - 48
        elif 'a' <= c.lower() <= 'z':
            d = ord(c.lower()) - 87
        else:
            return 'err -120'
        if d >= radix:
            return 'err -120'
        v = v * radix + d
    if neg:
        v = -v
    if lo <= v <= hi:
        return f'ok {ty}:{v}'
    return 'err -120'


def conv_oracle(line, case):
    if line.startswith('mismatch'):
        return 'the conversion of `Value` and of `&Value` give different results: ' + line
    if is_crash(line):
        return 'crash'
    exp = case.meta.get('expect')
    if exp is not None and line != exp:
        return f'exact arithmetic gives {exp}'
    return None


def conv_cases(rng, tier):
    out = []
    # integers: boundary values in all radices
    for ty, (signed, bits) in INT.items():
        lo, hi = (-(1 << (bits - 1)), (1 << (bits - 1)) - 1) if signed else (0, (1 << bits) - 1)
        vals = {lo - 1, lo, lo + 1, -1, 0, 1, hi - 1, hi, hi + 1, 1 << (bits - 1), (1 << (bits - 1)) - 1, (1 << bits), (1 << bits) - 1,
                (1 << bits) + 1, 10 ** 18, 10 ** 19, 10 ** 20, 10 ** 39, -(10 ** 19), 255, 256, 65535, 65536, -128, -129, 127, 128}
        for v in sorted(vals):
            for kind, fmt in (('dec', 'd'), ('hex', 'x'), ('oct', 'o'), ('bin', 'b')):
                body = format(abs(v), fmt)
                variants = {body, '0' + body, '00' + body, '+' + body, '-' + body, body.upper()}
                if v < 0:
                    variants = {'-' + body, '-0' + body}
                for t in sorted(variants):
                    out.append(Case(f'CONV {ty} {kind} {hx(t)}', conv_oracle, {'expect': conv_expect_int(ty, kind, t), 'kind': 'CONV-int'}))
        for t in ['', '+', '-', '-0', '+0', '--1', '+-1', '1.', '.5', '5.', '1e3', '1E3', '0x10', '1_0', ' 1', '1 ', 'g', 'G', 'z', '٣']:
            for kind in ('dec', 'hex'):
                out.append(Case(f'CONV {ty} {kind} {hx(t)}', conv_oracle, {'expect': conv_expect_int(ty, kind, t), 'kind': 'CONV-int-odd'}))
        for kind in ('str', 'chars', 'arb'):
            out.append(Case(f'CONV {ty} {kind} {hx("12")}', conv_oracle, {'expect': 'err -104', 'kind': 'CONV-kind'}))
    # bool table
    for kind in ('chars', 'dec', 'str', 'hex', 'arb'):
        for t in ['ON', 'on', 'On', 'oN', 'TRUE', 'true', 'True', 'OFF', 'off', 'Off', 'FALSE', 'false', '1', '0', '01', '00', '1.0', '+1', '2', 'YES', '']:
            if kind == 'chars':
                e = 'ok bool:1' if t in ('ON', 'on', 'TRUE', 'true') else 'ok bool:0' if t in ('OFF', 'off', 'FALSE', 'false') else 'err -224'
            elif kind == 'dec':
                e = 'ok bool:1' if t == '1' else 'ok bool:0' if t == '0' else 'err -224'
            else:
                e = 'err -224'
            out.append(Case(f'CONV bool {kind} {hx(t)}', conv_oracle, {'expect': e, 'kind': 'CONV-bool'}))
    # str / bytes kinds
    for ty, okk in (('str', 'str'), ('bytes', 'arb')):
        for kind in ('str', 'chars', 'dec', 'hex', 'bin', 'oct', 'arb'):
            t = 'a;b'
            tv = ('str:' if ty == 'str' else 'bytes:') + hx(t)
            out.append(Case(f'CONV {ty} {kind} {hx(t)}', conv_oracle, {'expect': f'ok {tv}' if kind == okk else 'err -104', 'kind': 'CONV-kind'}))
    # floats
    n = 3000 if tier == 'quick' else 60000
    specials = ['0', '-0', '+0', '0.0', '.0', '0.', '1', '-1', '1e0', '1E+0', '1e-0', '0e999999', '1e400', '-1e400', '1e-400', '4.9e-324', '2.4703282292062327e-324',
                '2.4703282292062328e-324', '1.7976931348623157e308', '1.7976931348623158e308', '1.7976931348623159e308', '3.4028235e38', '3.4028236e38',
                '3.4028235677973366e38', '1.401298464324817e-45', '7.006492321624085e-46', '7.006492321624086e-46', '0.1', '0.2', '0.3', '123456789012345678901234567890',
                '9007199254740993', '9007199254740992.5', '16777217', '16777216.5', '8.5', '00001.5000', '1' + '0' * 400, '0.' + '0' * 400 + '1',
                '1e99999999999999999999', '1e-99999999999999999999', '0e99999999999999999999']
    for ty in ('f32', 'f64'):
        for t in specials:
            bits = G.float_bits(t, ty) if abs(len(t)) < 2000 else None
            out.append(Case(f'CONV {ty} dec {hx(t)}', conv_oracle, {'expect': 'ok ' + G.float_hex(bits, ty), 'kind': 'CONV-float-special'}))
        for t in ['', '+', '-', '.', 'e5', '1e', '1e+', '.e1', '1..2', '1e5.0', 'abc', '0x10', 'inf', '-inf', 'nan', 'NaN', 'Infinity', '-INFINITY', 'infinit', '1 ', ' 1', '1_0']:
            exp = None
            lw = t.lower().lstrip('+-') if t[:1] in '+-' else t.lower()
            if lw in ('inf', 'infinity', 'nan'):
                exp = None   # accepted by Rust; value not judged here (model correspondence only)
            else:
                exp = 'err -120'
            out.append(Case(f'CONV {ty} dec {hx(t)}', conv_oracle, {'expect': exp, 'kind': 'CONV-float-odd'}))
        for kind in ('str', 'chars', 'hex', 'bin', 'oct', 'arb'):
            out.append(Case(f'CONV {ty} {kind} {hx("1")}', conv_oracle, {'expect': 'err -104', 'kind': 'CONV-kind'}))
        for _ in range(n):
            t, e = G.float_literal(rng, ty)
            out.append(Case(f'CONV {ty} dec {hx(t)}', conv_oracle, {'expect': 'ok ' + e[1], 'kind': 'CONV-float'}))
    return out


def run_oracle(line, case):
    if is_crash(line):
        return 'crash'
    f = parse_fields(line)
    log = log_entries(f)
    errs = parse_list(f.get('errs', '[]'))
    if log != case.meta['log']:
        return f"expected handler calls {case.meta['log']}"
    if case.meta.get('any_one_error'):
        if len(errs) != 1:
            return 'expected exactly one error'
    elif errs != case.meta['errs']:
        return f"expected errors {case.meta['errs']}"
    return None


def run_cases(rng, tier, ifaces):
    out = []
    echo = ifaces['echo']
    with_args = [d for d in echo.decls if d.args]
    n = 3000 if tier == 'quick' else 40000
    for _ in range(n):
        d = rng.choice(with_args)
        r = rng.random()
        if r < 0.55:
            text, entry, _ = G.valid_call(rng, echo, d, newline=False)
            text = text + b'\n'
            out.append(Case(deliver(rng, 'echo', text) if not d.query else f'RUN echo std {hx(text)}', run_oracle, {'log': [entry], 'errs': G.decl_errs(d), 'kind': 'RUN-valid'}))
        elif r < 0.8:
            # one mismatching literal: first failing conversion, left to right
            k = rng.randrange(len(d.args))
            lits = []
            experr = None
            for i, ty in enumerate(d.args):
                if i == k or (i > k and rng.random() < 0.3):
                    t, e = G.mismatched_literal(rng, ty)
                    if experr is None:
                        experr = str(e[1])
                else:
                    t, e = G.literal(rng, ty, newline=False)
                lits.append(t)
            mn, q = G.render_header(rng, d.cmd)
            text = G.render_unit(rng, mn, q, lits) + b'\n'
            out.append(Case(deliver(rng, 'echo', text), run_oracle, {'log': [], 'errs': [experr], 'kind': 'RUN-mismatch'}))
        else:
            # wrong number of parameters
            want = len(d.args)
            have = rng.choice([x for x in (0, want - 1, want + 1, want + 2, 9, 10) if x != want and x >= 0])
            lits = [G.literal(rng, rng.choice(d.args), newline=False)[0] for _ in range(have)]
            mn, q = G.render_header(rng, d.cmd)
            text = G.render_unit(rng, mn, q, lits) + b'\n'
            out.append(Case(deliver(rng, 'echo', text), run_oracle, {'log': [], 'errs': ['-115'], 'any_one_error': have > 10, 'kind': 'RUN-arity'}))
    # a handler with exactly MAX_ARGS parameters given all of them correctly plus surplus ones:
    # the surplus must not be dropped silently
    many = [d for d in echo.decls if len(d.args) == 10]
    for d in many:
        for extra in (1, 2, 5):
            for _ in range(3):
                lits = [G.literal(rng, ty, newline=False)[0] for ty in d.args] + [G.literal(rng, rng.choice(['u8', 'str', 'bool']), newline=False)[0] for _ in range(extra)]
                mn, q = G.render_header(rng, d.cmd)
                text = G.render_unit(rng, mn, q, lits) + b'\n'
                out.append(Case(f'RUN echo std {hx(text)}', run_oracle, {'log': [], 'errs': [], 'any_one_error': True, 'kind': 'RUN-maxargs-valid'}))
    # more than MAX_ARGS literals: no call, exactly one error (whatever its number)
    for k in (11, 12, 15):
        for h in ('MANY', 'NINE', 'X'):
            text = (h + ' ' + ','.join(['1'] * k) + '\n').encode()
            out.append(Case(f'RUN echo std {hx(text)}', lambda line, case: None if (not is_crash(line) and log_entries(parse_fields(line)) == []
                            and len(parse_list(parse_fields(line).get('errs', '[]'))) == 1) else 'more than the maximum number of parameters: expected no call and exactly one error',
                            {'kind': 'RUN-maxargs'}))
    return out


SET_STR_ID = 44        # id of `SET:STR`
SET_BYTES_ID = 46      # id of `SET:BYTES` in the echo interface (checked in big_block_cases)


def big_block_cases(tier):
    """definite-length blocks whose length does not fit 8 or 16 bits: delivered byte for byte"""
    out = []
    for n in ([255, 256, 65535, 65536, 70000] if tier == 'quick' else [255, 256, 257, 65535, 65536, 65537, 70000, 100000, 200000]):
        payload = bytes((i * 7 + 3) % 251 for i in range(n))
        for digits in sorted({len(str(n)), 9}):
            text = b'SET:BYTES #' + str(digits).encode() + str(n).zfill(digits).encode() + payload + b'\n'
            out.append(Case(f'RUN echo std {hx(text)}', run_oracle, {'log': [f'{SET_BYTES_ID}(bytes:{hx(payload)})'], 'errs': [], 'kind': 'RUN-bigblock'}))
    return out


def twice_oracle(line, case):
    if is_crash(line):
        return 'crash'
    f = parse_fields(line)
    if log_entries(f) != [] or parse_list(f.get('errs', '[]')) != case.meta['errs'] or parse_list(f.get('q', '[]')) != case.meta['errs']:
        return f"every misfitting parameter list reports its own error (handler and queue see {case.meta['errs']}), no handler runs"
    return None


def after_reject_cases(ifaces):
    echo = ifaces['echo']
    ident = {d.cmd: d.id for d in echo.decls}
    out = []
    for bad, e in [(b'SET:U8 300', '-120'), (b'SET:U8 "x"', '-104'), (b'SET:BOOL 2', '-224'), (b'SET:U8', '-115'), (b'SET:U8 1,2', '-115')]:
        for nxt, entry in [(b'U16 5', f"{ident['SET:U16']}(u16:5)"), (b'I8 -3', f"{ident['SET:I8']}(i8:-3)"), (b':SET:U16 5', f"{ident['SET:U16']}(u16:5)")]:
            text = bad + b';' + nxt + b'\n'
            out.append(Case(f'RUN echo std {hx(text)}', run_oracle, {'log': [entry], 'errs': [e], 'kind': 'RUN-after-reject'}))
            out.append(Case(f'PROC echo 64 {hx(text)} 3,3,3,3,3,3,3,3,3,3,3', run_oracle, {'log': [entry], 'errs': [e], 'kind': 'RUN-after-reject'}))
    return out


def twice_cases():
    out = []
    for a, b, e in [(b'SET:U8 256', b'SET:U8 300', '-120'), (b'SET:U16 "1"', b'SET:STR 5', '-104'), (b'BOOL 2', b'BOOL 7', '-224'),
                    (b'TWO 1', b'BOOL', '-115'), (b'SET:I8 -129', b'SET:I8 -129', '-120')]:
        for text in (a + b';:' + b + b'\n', a + b'\n' + b + b'\n', a + b'\n' + a + b'\n' + b + b'\n'):
            n = text.count(b'\n') + text.count(b';')
            out.append(Case(f'RUN echo std {hx(text)}', twice_oracle, {'errs': [e] * n, 'kind': 'RUN-twice'}))
            out.append(Case(f'PROC echo 64 {hx(text)} -', twice_oracle, {'errs': [e] * n, 'kind': 'RUN-twice'}))
    return out


def lf_payload_cases(rng):
    """strings and blocks with several line feeds, byte for byte, through process (behind a complete message, in one read and byte-wise)"""
    out = []
    for pay in (b'a\nb', b'\n', b'\n\n', b'a\n\nb\nc', b'x\nSET:U8 7\ny', b'\n' * 5):
        for text, entry in ((b'SET:STR "' + pay + b'"\n', f'{SET_STR_ID}(str:{hx(pay)})'),
                            (b'SET:BYTES #' + str(len(str(len(pay)))).encode() + str(len(pay)).encode() + pay + b'\n', f'{SET_BYTES_ID}(bytes:{hx(pay)})')):
            for pre, plog in ((b'', []), (b'X\n', ['2()']), (b'X\nX\n', ['2()', '2()'])):
                stream = pre + text
                for sched in ('-', ','.join(['1'] * len(stream)), ','.join(str(rng.randint(1, 9)) for _ in range(len(stream)))):
                    out.append(Case(f'PROC echo 64 {hx(stream)} {sched}', run_oracle, {'log': plog + [entry], 'errs': [], 'kind': 'PROC-lfpayload'}))
    return out


def corpus_cases(ifaces):
    # D10: nine length digits
    return [Case(f'RUN echo std {hx(b"BLK #9000000001a" + bytes([10]))}', run_oracle, {'log': ['4(bytes:61)'], 'errs': [], 'kind': 'corpus-D10'}),
            Case(f'RUN echo std {hx(b"BLK #800000001a" + bytes([10]))}', run_oracle, {'log': ['4(bytes:61)'], 'errs': [], 'kind': 'corpus-D10'})]


def cases(tier, rng, ifaces):
    return conv_cases(rng, tier) + run_cases(rng, tier, ifaces) + big_block_cases(tier) + twice_cases() + lf_payload_cases(rng) + after_reject_cases(ifaces)
