"""C04 — responses are complete, well-formed and decode to the returned value."""
import struct
from fractions import Fraction
from ..common import Case, hx, unhx, parse_fields, parse_list, is_crash, log_entries
from .. import gen as G

LEVEL = 'proof'
TRUSTED = ['Lean 4 kernel; axioms propext, Classical.choice, Quot.sound only',
           'float Display (shortest digits) enters the theorems only through its contract FloatTextOk (plain decimal text that parses back bit-exactly); '
           'the contract is validated on every float printed in a run by an exact-rational parser in python and by the model',
           'integer Display re-stated (sign piece, digit piece)', 'heapless::Vec / std Vec Write impls re-stated as all-or-nothing pieces',
           'correspondence harness + driver (differential testing; covers only generated cases)']
RULE = ('RESP: write_response directly on values of every response type with the three writers (std, heapless, pass-through): integer extremes, '
        'f32/f64 from bit patterns (all exponents x edge mantissas, subnormals, powers of two and neighbours, +-0, NaNs, infinities, random bits), '
        'UTF-8 strings with quotes/newlines, blocks of length 0,1,9,10,99,100,1000, nested tuples/lists; RUN echo queries (pass-through writer: '
        'response, newline, exactly one flush; nothing for commands/failed queries/undefined headers). oracle = type-directed decoder in python. '
        'non-trivial = distinct executed op')
EXPLANATION = 'decode(encode v) = v, writer independence, no-output cases (theorems); tie by RESP/RUN ops; oracle = python decoder on the implementation bytes'


# ---- value trees: ('int', ty, v) ('f32', bits) ('f64', bits) ('bool', b) ('str'|'hstr'|'sstr', bytes) ('chars', bytes) ('arb', bytes)
#                   ('err', n) ('errc', n, bytes) ('unit',) ('t', [..]) ('hv', [..]) ('sl', [..])

def expr(v):
    k = v[0]
    if k == 'int':
        return f'{v[1]}:{v[2]}'
    if k == 'f32':
        return f'f32:0x{v[1]:08x}'
    if k == 'f64':
        return f'f64:0x{v[1]:016x}'
    if k == 'bool':
        return f'bool:{1 if v[1] else 0}'
    if k in ('str', 'hstr', 'sstr', 'chars', 'arb'):
        return f'{k}:{hx(v[1])}'
    if k == 'err':
        return f'err:{v[1]}'
    if k == 'errc':
        return f'errc:{v[1]}:{hx(v[2])}'
    if k == 'unit':
        return 'unit'
    if k == 't':
        return 't(' + ';'.join(expr(x) for x in v[1]) + ')'
    if k == 'hv':
        return 'hv[' + ';'.join(expr(x) for x in v[1]) + ']'
    if k == 'sl':
        return 'sl[' + ';'.join(expr(x) for x in v[1]) + ']'
    raise ValueError(k)


class DecodeError(Exception):
    pass


def take_number(data, pos):
    j = pos
    while j < len(data) and (chr(data[j]) in '+-.0123456789eE'):
        j += 1
    return data[pos:j].decode('ascii'), j


def dec(v, data, pos):
    """type-directed decoding of response data; returns new pos or raises DecodeError"""
    k = v[0]
    if k == 'int':
        txt, j = take_number(data, pos)
        if not txt or any(c in txt for c in '.eE+'):
            raise DecodeError(f'not an integer: {txt!r}')
        if int(txt) != v[2] or (txt.lstrip('-') != str(abs(v[2]))):
            raise DecodeError(f'integer {txt!r} is not {v[2]}')
        return j
    if k in ('f32', 'f64'):
        mb, eb = (23, 8) if k == 'f32' else (52, 11)
        bits = v[1]
        ex = (bits >> mb) & ((1 << eb) - 1)
        fr = bits & ((1 << mb) - 1)
        neg = bits >> (mb + eb)
        txt, j = take_number(data, pos)
        if ex == (1 << eb) - 1:
            want = '9.91E+37' if fr else ('-9.9E+37' if neg else '9.9E+37')
            if txt != want:
                raise DecodeError(f'sentinel {want} expected, got {txt!r}')
            return j
        # plain decimal, no exponent
        body = txt[1:] if txt.startswith('-') else txt
        if not body or any(c in body for c in 'eE+-') or body.count('.') > 1 or body[0] == '.' or body[-1] == '.':
            raise DecodeError(f'not a plain decimal: {txt!r}')
        if G.float_bits(txt, k) != bits:
            raise DecodeError(f'{txt!r} does not decode to the returned value {bits:#x}')
        return j
    if k == 'bool':
        if data[pos:pos + 1] != (b'1' if v[1] else b'0'):
            raise DecodeError('bool')
        return pos + 1
    if k in ('str', 'hstr', 'sstr'):
        if data[pos:pos + 1] != b'"':
            raise DecodeError('string must start with a double quote')
        j = pos + 1
        out = bytearray()
        while True:
            if j >= len(data):
                raise DecodeError('unterminated string')
            if data[j] == 34:
                if data[j + 1:j + 2] == b'"':
                    out.append(34); j += 2; continue
                j += 1
                break
            out.append(data[j]); j += 1
        if bytes(out) != v[1]:
            raise DecodeError(f'string decodes to {bytes(out)!r}, returned value is {v[1]!r}')
        return j
    if k == 'chars':
        if data[pos:pos + len(v[1])] != v[1]:
            raise DecodeError('character data')
        return pos + len(v[1])
    if k == 'arb':
        if data[pos:pos + 1] != b'#':
            raise DecodeError('block must start with #')
        nd = data[pos + 1] - 48
        if not (1 <= nd <= 9):
            raise DecodeError('bad digit count')
        ln = int(data[pos + 2:pos + 2 + nd])
        payload = data[pos + 2 + nd:pos + 2 + nd + ln]
        if payload != v[1] or len(payload) != ln:
            raise DecodeError('block payload differs')
        return pos + 2 + nd + ln
    if k in ('err', 'errc'):
        txt, j = take_number(data, pos)
        if int(txt) != v[1] or data[j:j + 1] != b',':
            raise DecodeError('error number')
        desc = v[2] if k == 'errc' else None
        if desc is None:
            # description is checked by the ERRTAB correspondence; here only the shape
            if data[j + 1:j + 2] != b'"' or not data.endswith(b'"') and b'",' not in data[j:]:
                raise DecodeError('error description must be a quoted string')
            # find closing quote (descriptions of standard errors contain no quote)
            e = data.index(b'"', j + 2)
            return e + 1
        return dec(('str', desc), data, j + 1)
    if k == 'unit':
        return pos
    if k in ('t', 'hv', 'sl'):
        for i, x in enumerate(v[1]):
            if i:
                if data[pos:pos + 1] != b',':
                    raise DecodeError('comma expected between elements')
                pos += 1
            pos = dec(x, data, pos)
        return pos
    raise ValueError(k)


def has_too_long_block(v):
    return False


def resp_oracle(line, case):
    if is_crash(line):
        return 'crash'
    f = parse_fields(line)
    if case.meta.get('roomy'):
        if f.get('res') != 'ok':
            return 'a writer with room must accept the response'
        data = unhx(f['out'])
        try:
            end = dec(case.meta['value'], data, 0)
            if end != len(data):
                return f'trailing bytes after the decoded value: {data[end:]!r}'
        except (DecodeError, ValueError, IndexError) as e:
            return f'decoding the response does not give back the value: {e}'
    return None


def floatok_oracle(line, case):
    if line not in ('1', 'na'):
        return f'float text does not satisfy the contract (plain decimal that parses back bit-exactly): {line}'
    return None


def relational(cases, impl):
    """same bytes for every writer that has room"""
    fails = []
    groups = {}
    for i, c in enumerate(cases):
        g = c.meta.get('group')
        if g is not None and c.meta.get('roomy'):
            groups.setdefault(g, []).append(i)
    for g, idx in groups.items():
        outs = {parse_fields(impl[i]).get('out') for i in idx}
        if len(outs) > 1:
            fails.append((idx[0], f'writers with room produced different bytes: {sorted(outs)}'))
    return fails


def f_patterns(rng, ty, n):
    mb, eb = (23, 8) if ty == 'f32' else (52, 11)
    out = []
    emax = (1 << eb) - 1
    for ex in list(range(0, emax + 1)) if ty == 'f32' else list(range(0, emax + 1, 7)) + [1, 2, emax - 1, emax, 1022, 1023, 1024, 1075, 1076]:
        for fr in (0, 1, (1 << mb) - 1, 1 << (mb - 1), rng.getrandbits(mb)):
            for sg in (0, 1):
                out.append((sg << (mb + eb)) | (ex << mb) | fr)
    for _ in range(n):
        out.append(rng.getrandbits(mb + eb + 1))
    # decimal-looking values
    for t in ['0.1', '0.2', '0.3', '1.5', '100', '1e21', '1e22', '1e23', '1e-5', '1e-6', '1e-7', '123456.789', '9.999999e9', '5e-324', '1.7976931348623157e308',
              '3.4028235e38', '1e38', '9.5', '99.5', '0.95', '999999.9', '1e15', '1e16', '1e17', '123456789012345680', '4.35', '0.000001', '2.5e-8']:
        out.append(G.float_bits(t, ty))
    return out


def rand_leaf(rng):
    r = rng.random()
    if r < 0.25:
        ty = rng.choice(list(G.INT_TYPES))
        signed, bits = G.INT_TYPES[ty]
        lo, hi = (-(1 << (bits - 1)), (1 << (bits - 1)) - 1) if signed else (0, (1 << bits) - 1)
        return ('int', ty, rng.choice([lo, hi, 0, -1 if signed else 1, rng.randint(lo, hi)]))
    if r < 0.4:
        ty = rng.choice(['f32', 'f64'])
        return (ty, rng.choice(f_patterns(rng, ty, 1)))
    if r < 0.5:
        return ('bool', rng.random() < 0.5)
    if r < 0.7:
        kind = rng.choice(['str', 'hstr', 'sstr'])
        # lengths: mostly short, sometimes up to the capacity of the heapless::String<64> of the harness / beyond 64 for the others
        s = G.str_payload(rng, '\x01', True, rng.choice([10, 10, 30, 60 if kind == 'hstr' else 150])).encode()[:64 if kind == 'hstr' else 1000].decode('utf-8', 'ignore').encode()     # cut at a character boundary
        return (kind, s)
    if r < 0.8:
        return ('chars', rng.choice([b'VOLT', b'A1_b', b'x', (b'MNEMONIC_9' * 4)[:rng.randint(1, 40)]]))
    if r < 0.93:
        n = rng.choice([0, 1, 2, 9, 10, 11, 40, 99, 100, 101, 255, 256, 999, 1000, 1001])      # the length field changes its width at 10, 100, 1000
        return ('arb', bytes(rng.randrange(256) for _ in range(n)))
    if r < 0.97:
        return ('err', rng.choice([-113, -101, -350, -200, -222, -400, -100]))
    return ('errc', rng.randint(-32768, 32767), G.str_payload(rng, '\x01', True, 8).encode())


def rand_value(rng, depth=0):
    r = rng.random()
    if depth >= 2 or r < 0.5:
        return rand_leaf(rng)
    if r < 0.8:
        return ('t', [rand_value(rng, depth + 1) for _ in range(rng.randint(2, 4))])
    k = rng.choice(['hv', 'sl'])
    # homogeneous leaves keep the list decodable
    proto = rand_leaf(rng)
    n = rng.choice([0, 1, 2, 3, 4, 5, 15, 16])      # heapless::Vec<_, 16> in the harness
    items = []
    for _ in range(n):
        x = rand_leaf(rng)
        tries = 0
        while x[0] != proto[0] and tries < 50:
            x = rand_leaf(rng); tries += 1
        if x[0] == proto[0]:
            items.append(x)
    return (k, items)


def resp_cases(rng, tier):
    out = []
    vals = []
    for ty, (signed, bits) in G.INT_TYPES.items():
        lo, hi = (-(1 << (bits - 1)), (1 << (bits - 1)) - 1) if signed else (0, (1 << bits) - 1)
        small = set(range(0, 21)) | {10 ** k + d for k in range(1, 20) for d in (-1, 0, 1)}
        for v in sorted(small | ({-x for x in small} if signed else set())):
            if lo <= v <= hi:
                vals.append(('int', ty, v))
    for ty, (signed, bits) in G.INT_TYPES.items():
        lo, hi = (-(1 << (bits - 1)), (1 << (bits - 1)) - 1) if signed else (0, (1 << bits) - 1)
        for v in {lo, lo + 1, -1 if signed else 0, 0, 1, 9, 10, 99, 100, hi - 1, hi}:
            vals.append(('int', ty, v))
    nf = 300 if tier == 'quick' else 100000
    for ty in ('f32', 'f64'):
        for b in f_patterns(rng, ty, nf):
            vals.append((ty, b))
    for s in [b'', b'a', b'"', b'""', b'a"b', b'"a"', b'a\nb', b'\xc3\xa9"\xe2\x82\xac', b',;:#\'', b'x' * 60]:
        for k in ('str', 'hstr', 'sstr'):
            vals.append((k, s))
    for n in (0, 1, 9, 10, 99, 100, 1000):
        vals.append(('arb', bytes((i * 7 + 3) % 256 for i in range(n))))
    vals += [('bool', True), ('bool', False), ('unit',), ('chars', b'VOLT'), ('chars', b'A'), ('err', -113), ('err', -350), ('errc', 42, b'say "hi"'),
             ('t', [('int', 'u8', 1), ('unit',)]), ('hv', []), ('sl', []), ('t', [('int', 'i16', -5), ('t', [('str', b'a"b'), ('bool', True)]), ('f64', 0x4024000000000000)])]
    for _ in range(400 if tier == 'quick' else 6000):
        vals.append(rand_value(rng))
    # the float contract FloatTextOk, evaluated by the implementation (its own formatter and parser) and by the model
    for v in vals:
        if v[0] in ('f32', 'f64'):
            w = 8 if v[0] == 'f32' else 16
            out.append(Case(f'FLOATOK {v[0]} 0x{v[1]:0{w}x}', floatok_oracle, {'kind': 'FLOATOK'}))
    for gi, v in enumerate(vals):
        e = expr(v)
        for wr in ('std', 'pt', 'hl256'):
            roomy = True
            if wr == 'hl256':
                # estimate: only claim room when surely short
                roomy = len(e) < 80 and 'f64' not in e
                if not roomy:
                    continue
            out.append(Case(f'RESP {wr} {e}', resp_oracle, {'value': v, 'roomy': roomy, 'group': gi, 'kind': 'RESP-' + v[0]}))
        if gi % 3 == 0:
            cap = rng.choice([0, 1, 2, 3, 4, 5, 6, 7, 8, 12, 16, 24, 32])
            out.append(Case(f'RESP hl{cap} {e}', resp_oracle, {'value': v, 'roomy': False, 'kind': 'RESP-small'}))
    return out


def run_query_oracle(line, case):
    if is_crash(line):
        return 'crash'
    f = parse_fields(line)
    evs = parse_list(f.get('ev', '[]'))
    exp = case.meta['shape']
    if exp == 'none':
        if evs or f.get('out') != '-':
            return 'no output expected (command, failed query or undefined header)'
        return None
    # one W (ending in newline) + one F per answered query
    if len(evs) != 2 * exp:
        return f'expected {exp} response(s), each written then flushed once: events {evs}'
    for k in range(exp):
        if not evs[2 * k].startswith('W:') or evs[2 * k + 1] != 'F':
            return f'event order must be write, flush: {evs}'
        if not evs[2 * k].endswith('0a'):
            return 'response must end with a newline'
    vals = case.meta.get('values')
    if vals:
        for k, v in enumerate(vals):
            data = unhx(evs[2 * k][2:])[:-1]
            try:
                end = dec(v, data, 0)
                if end != len(data):
                    return 'trailing bytes in response'
            except (DecodeError, ValueError, IndexError) as e:
                return f'response {k} does not decode to the returned value: {e}'
    return None


def tval_to_value(tv):
    ty, v = tv.split(':', 1)
    if ty in G.INT_TYPES:
        return ('int', ty, int(v))
    if ty in ('f32', 'f64'):
        return (ty, int(v, 16))
    if ty == 'bool':
        return ('bool', v == '1')
    if ty == 'str':
        return ('str', unhx(v))
    if ty == 'bytes':
        return ('arb', unhx(v))
    raise ValueError(tv)


def run_cases(rng, tier, ifaces):
    out = []
    echo = ifaces['echo']
    echoes = [d for d in echo.decls if d.beh == 'echo']
    for _ in range(800 if tier == 'quick' else 10000):
        d = rng.choice(echoes)
        lits = [G.literal(rng, ty, newline=False) for ty in d.args]
        mn, q = G.render_header(rng, d.cmd)
        text = G.render_unit(rng, mn, q, [l[0] for l in lits]) + b'\n'
        vals = [tval_to_value(l[1][1]) for l in lits]
        v = vals[0] if len(vals) == 1 else ('t', vals)
        out.append(Case(f'RUN echo pt {hx(text)}', run_query_oracle, {'shape': 1, 'values': [v], 'kind': 'RUN-echo'}))
    for text in [b'X\n', b'*RST\n', b'FAIL\n', b'FAIL:Q?\n', b'NOPE?\n', b'ECHO:U8? 300\n', b'ECHO:U8?\n', b'ECHO:U8? 1,2\n', b'SET:U8 5\n', b'*IDN\n', b'X?\n']:
        out.append(Case(f'RUN echo pt {hx(text)}', run_query_oracle, {'shape': 'none', 'kind': 'RUN-nooutput'}))
    out.append(Case(f'RUN echo pt {hx(b"ECHO:U8? 1;:X;:ECHO:BOOL? ON;:FAIL;:ECHO:STR? " + bytes([39]) + b"q" + bytes([39, 10]))}', run_query_oracle,
                    {'shape': 3, 'values': [('int', 'u8', 1), ('bool', True), ('str', b'q')], 'kind': 'RUN-order'}))
    return out


def proc_query_oracle(line, case):
    """the same contract on what `process` hands to the adapter: per answered query one write + one flush, in order"""
    if is_crash(line):
        return 'crash'
    f = parse_fields(line)
    if parse_list(f.get('errs', '[]')):
        return f"no error expected: {f.get('errs')}"
    evs = [e for e in parse_list(f.get('tr', '[]')) if not e.startswith('R')]
    return run_query_oracle('out=x ev=[' + ','.join(evs) + ']', case)


def proc_cases(rng, tier, ifaces):
    """several answered queries per read: every response fits the N-byte buffer, all of them together do not have to"""
    out = []
    echo = ifaces['echo']
    echoes = [d for d in echo.decls if d.beh == 'echo' and len(d.args) == 1 and (d.args[0] in G.INT_TYPES or d.args[0] == 'bool')]
    for _ in range(60 if tier == 'quick' else 1500):
        n = rng.choice([24, 32, 47, 64])
        msgs, vals = [], []
        for _k in range(rng.randint(2, 9)):
            for _try in range(20):
                d = rng.choice(echoes)
                lits = [G.literal(rng, ty, newline=False) for ty in d.args]
                mn, q = G.render_header(rng, d.cmd)
                text = G.render_unit(rng, mn, q, [l[0] for l in lits]) + b'\n'
                if len(text) <= n:
                    break
            else:
                continue
            msgs.append(text)
            vals.append(tval_to_value(lits[0][1][1]))
        s = b''.join(msgs)
        for sched in ('-', ','.join(str(rng.randint(1, n)) for _ in range(len(s)))):
            out.append(Case(f'PROC echo {n} {hx(s)} {sched}', proc_query_oracle, {'shape': len(vals), 'values': vals, 'kind': 'PROC-queries'}))
        if n == 64 and vals:
            # the same queries, then a message whose string holds a line feed (it produces no output), then one more query:
            # exactly one response per query, in order (nothing answered twice)
            tail = rng.choice([b'STR "a\nb"\n', b'BLK #13x\ny\n', b"SYST:STR 'p\n\nq';:X\n"]) + b'ECHO:U8? 9\n'
            s2 = msgs[0] + tail
            if len(msgs[0]) + len(tail) <= 64:
                for sched in ('-', ','.join(['1'] * len(s2))):
                    out.append(Case(f'PROC echo 64 {hx(s2)} {sched}', proc_query_oracle,
                                    {'shape': 2, 'values': [vals[0], ('int', 'u8', 9)], 'kind': 'PROC-queries-lf'}))
    return out


def fit_oracle(line, case):
    """a bounded writer with room for the terminated response receives all of it (the same bytes as every other writer)"""
    if is_crash(line):
        return 'crash'
    f = parse_fields(line)
    if f.get('out') != hx(case.meta['resp']) or parse_list(f.get('errs', '[]')):
        return f"expected the complete response {case.meta['resp']!r} and no error"
    return None


def fit_cases():
    """queries with known responses into heapless writers of every small capacity, in particular the exact fit"""
    out = []
    known = [(b'*IDN?\n', b'"MICROSCPI,TEST,1,1.0"\n'), (b'ARB?\n', b'#15a\nb;c\n'), (b'CHAR?\n', b'VOLT\n'), (b'ECHO:U8? 7\n', b'7\n'),
             (b'ECHO:I16? -1234\n', b'-1234\n'), (b"ECHO:STR? 'a\"b'\n", b'"a""b"\n'), (b'ECHO:BYTES? #13xyz\n', b'#13xyz\n'),
             (b'ECHO:PAIR? 12,"ab"\n', b'12,"ab"\n'), (b'ECHO:U8? 1;:ECHO:U8? 22\n', b'1\n22\n')]
    for msg, resp in known:
        for cap in list(range(0, 17)) + [24, 32]:
            if len(resp) <= cap:
                out.append(Case(f'RUN echo hl{cap} {hx(msg)}', fit_oracle, {'resp': resp, 'kind': 'RUN-fit'}))
    return out


def corpus_cases(ifaces):
    return [Case(f'RUN echo pt {hx(b"ECHO:STR? " + bytes([39]) + b"a" + bytes([34]) + b"b" + bytes([39, 10]))}', run_query_oracle,
                 {'shape': 1, 'values': [('str', b'a"b')], 'kind': 'corpus-D6'}),
            Case('RESP std str:' + hx(b'a"b'), resp_oracle, {'value': ('str', b'a"b'), 'roomy': True, 'kind': 'corpus-D6'})]


def cases(tier, rng, ifaces):
    return resp_cases(rng, tier) + run_cases(rng, tier, ifaces) + proc_cases(rng, tier, ifaces) + fit_cases()
