"""C10 — process answers before it reads on, and ends only on a transport error."""
from ..common import Case, hx, parse_fields, parse_list, is_crash
from .. import gen as G

LEVEL = 'proof'
TRUSTED = ['Lean 4 kernel; axioms propext, Classical.choice, Quot.sound only',
           'Poll::Pending patterns are outside the model (exercised with pend=k)',
           'the response buffer is modelled as created fresh per terminator (the Rust code clears it after every write)',
           'correspondence harness + driver (differential testing; covers only generated cases)']
RULE = ('streams of messages x chunkings x a transport error injected at EVERY index of the adapter call sequence (read, write, flush), plus the '
        'fault-free run. Oracle on the implementation: trace grammar (reads, and write immediately followed by flush, write non-empty), every '
        'answered query written and flushed before the next read, returned error = injected error, trace of the faulty run = prefix of the '
        'fault-free trace of length = fault index, nothing after it. non-trivial = distinct executed op')
EXPLANATION = 'trace invariants and outcome of process (theorems); tie by PROC ops with fault injection at every call index; oracle on the implementation'


def grammar(tr, end_fault):
    """reads and (W,F) pairs; a trailing lone W only if the run ended with a fault"""
    i = 0
    while i < len(tr):
        t = tr[i]
        if t.startswith('R'):
            i += 1
        elif t.startswith('W:'):
            if t == 'W:-' or t == 'W:':
                return 'empty write'
            if i + 1 < len(tr):
                if tr[i + 1] != 'F':
                    return f'write at {i} is not followed by flush'
                i += 2
            else:
                if not end_fault:
                    return 'trace ends with an unflushed write although no fault ended the run'
                i += 1
        elif t == 'F':
            return f'flush at {i} without a preceding write'
        else:
            return f'unknown event {t}'
    return None


def oracle(line, case):
    if is_crash(line):
        return 'crash'
    f = parse_fields(line)
    tr = parse_list(f.get('tr', '[]'))
    end = f.get('end', '')
    k = case.meta.get('fault')
    if end not in ('eos',) and not end.startswith('fault:'):
        return f'process may only end with the transport error, got end={end}'
    g = grammar(tr, end.startswith('fault:'))
    if g:
        return g
    if k is None:
        if end != 'eos':
            return 'without an injected fault the run must end at end of stream'
    else:
        idx, code = k
        if end.startswith('fault:'):
            if end != f'fault:{code}':
                return f'the transport error must be returned unchanged: injected {code}, got {end}'
            if len(tr) != idx:
                return f'after the failing call number {idx} no further transport call may succeed; trace has {len(tr)} events'
        elif len(tr) >= idx + 1:
            return f'call {idx} was reached but its error was swallowed'
    return None


def relational(cases, impl):
    fails = []
    groups = {}
    for i, c in enumerate(cases):
        groups.setdefault(c.meta['group'], []).append(i)
    for g, idx in groups.items():
        base = [i for i in idx if cases[i].meta.get('fault') is None and cases[i].meta.get('role') != 'run']
        runs = [i for i in idx if cases[i].meta.get('role') == 'run']
        if base and runs and not is_crash(impl[base[0]]) and not is_crash(impl[runs[0]]):
            fp = parse_fields(impl[base[0]]); fr = parse_fields(impl[runs[0]])
            wbytes = ''.join(t[2:] for t in parse_list(fp.get('tr', '[]')) if t.startswith('W:')) or '-'
            overflow = any(e in fp.get('errs', '') for e in ('-223', '-310'))
            complete = all(x == '0' for x in parse_list(fr.get('rest', '[]')))
            if complete and not overflow and wbytes != fr.get('out'):
                fails.append((base[0], f'process wrote {wbytes}, the query responses of this stream are {fr.get("out")} (it must write nothing else)'))
        if not base or is_crash(impl[base[0]]):
            continue
        ref = parse_list(parse_fields(impl[base[0]]).get('tr', '[]'))
        for i in idx:
            k = cases[i].meta.get('fault')
            if k is None or is_crash(impl[i]) or cases[i].meta.get('role') == 'run':
                continue
            tr = parse_list(parse_fields(impl[i]).get('tr', '[]'))
            if tr != ref[:k[0]]:
                fails.append((i, f'faulty run must do exactly what the fault-free run did before call {k[0]}: {ref[:k[0]]}, got {tr}'))
                break
    return fails


SWEEP = [(b'*IDN?\n', b'"MICROSCPI,TEST,1,1.0"\n'), (b'ARB?\n', b'#15a\nb;c\n'), (b'CHAR?\n', b'VOLT\n'),
         (b'ECHO:U8? 7\n', b'7\n'), (b'ECHO:BOOL? ON\n', b'1\n'), (b'ECHO:F64? 1e40\n', b'1' + b'0' * 40 + b'\n'),
         (b'ECHO:F64? -2.5e-33\n', b'-0.' + b'0' * 32 + b'25\n'), (b'ECHO:F32? 1e38\n', b'1' + b'0' * 38 + b'\n'), (b'LONG?\n', b'"' + b'x' * 40 + b'"\n')]


def sweep_oracle(line, case):
    """a query whose message and whose terminated response both fit the N-byte buffers is answered completely
    (response, newline, flush) before the next read — for every N, in particular when the response fills the buffer exactly"""
    r = oracle(line, case)
    if r:
        return r
    f = parse_fields(line)
    tr = parse_list(f.get('tr', '[]'))
    want = case.meta['resp']
    ws = [i for i, t in enumerate(tr) if t.startswith('W:')]
    if len(ws) != 1 or tr[ws[0]] != 'W:' + hx(want) or tr[ws[0] + 1:ws[0] + 2] != ['F']:
        return f'expected the response {want!r} written and flushed once: {tr}'
    if parse_list(f.get('errs', '[]')):
        return f"no error expected: {f.get('errs')}"
    return None


def sweep_cases(tier):
    out = []
    gid = 10 ** 6
    for msg, resp in SWEEP:
        for n in list(range(1, 25)) + [32, 47, 64, 100]:
            if len(msg) > n or len(resp) > n:
                continue
            for sched in ('-', ','.join(['1'] * len(msg))):
                gid += 1
                out.append(Case(f'PROC echo {n} {hx(msg)} {sched}', sweep_oracle,
                                {'group': gid, 'kind': 'PROC-sweep', 'msg': msg, 'resp': resp}))
    return out


def cases(tier, rng, ifaces):
    out = sweep_cases(tier)
    echo = ifaces['echo']
    streams = [b'ECHO:BOOL? ON;X\n', b'X;ECHO:U8? 7\nX\n', b'ECHO:U8? 200;X\nECHO:U8? 9\n', b'*IDN?;:STR "ab\ncd"\n', b'CHAR?;:BLK #15ab\ncd;*IDN?\n', b'ECHO:U8? 7;:STR "\n\n";:ECHO:U8? 8\n', b'*IDN?\n', b'X\n*IDN?\nX\n', b'ECHO:U8? 1;:ECHO:U8? 2\nFOO\nECHO:BOOL? ON\n', b'STR "a\nb";:CHAR?\n', b'\n\n', b'ARB?\nLONG?\n',
               b'SYST:ERR?\nNOPE\nSYST:ERR?\nSYST:ERR:COUN?\n', b'X']
    from .C06 import gen_message
    for _ in range(20 if tier == 'quick' else 300):
        streams.append(b''.join(gen_message(rng, echo, rng.random() < 0.3)[0] for _ in range(rng.randint(1, 3))))
    gid = 0
    for s in streams:
        for n in ([8, 16, 64] if tier == 'quick' else [3, 8, 16, 64, 256]):
            for sched in ([], [1] * len(s), [rng.randint(0, 7) for _ in range(len(s))]):
                gid += 1
                ss = ','.join(map(str, sched)) or '-'
                base = f'PROC echo {n} {hx(s)} {ss}'
                out.append(Case(base, oracle, {'group': gid, 'kind': 'PROC-nofault'}))
                if n >= 16 and len(s) <= n:   # every message certainly fits the command buffer
                    out.append(Case(f'RUN echo std {hx(s)}', None, {'group': gid, 'kind': 'RUN-whole', 'role': 'run'}))
                # number of calls of the fault-free run is unknown here: inject up to a generous bound
                bound = min(len(s) * 2 + 12, 60 if tier == 'quick' else 200)
                for k in range(bound):
                    code = rng.choice([7, -2, 0, 99])
                    pend = ' pend=1' if rng.random() < 0.1 else ''
                    out.append(Case(f'{base} fault={k}:{code}{pend}', oracle, {'group': gid, 'fault': (k, code), 'kind': 'PROC-fault'}))
    return out
