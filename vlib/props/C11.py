"""C11 — lexical variations allowed by IEEE 488.2 do not change the meaning."""
from ..common import Case, hx, parse_fields, parse_list, is_crash, log_entries
from .. import gen as G
from .. import spell

LEVEL = 'proof'
TRUSTED = ['Lean 4 kernel; axioms propext, Classical.choice, Quot.sound only',
           'correspondence harness + driver (differential testing; covers only generated cases)']
RULE = ('for each generated well-formed message (1..4 units with arguments of every kind, over echo / t1 / random trees): variants by case flips of every '
        'mnemonic, short<->long exchange per node, every individual white-space byte value (0-9, 11-32) at each permitted position (before a unit, '
        'between header and parameters, around commas, before ";" and before the terminator), longer white-space runs, CR LF for LF, and '
        'combinations. Relational oracle on the implementation: every variant gives the same handler log, arguments, output and errors as the base '
        'rendering (and the expected handler log). non-trivial = distinct executed variant')
EXPLANATION = 'parse is independent of the lexical rendering (theorems); tie by RUN ops; oracle relational on the implementation'

WS = [b for b in range(0, 33) if b != 10]


class U:
    """one unit: decl + literal texts; can be rendered under lexical choices"""
    def __init__(self, rng, iface, decl):
        self.decl = decl
        self.parts, self.query = spell.parse_decl(decl.cmd)
        self.lits = [G.literal(rng, ty, newline=False) for ty in decl.args]
        self.entry = f"{decl.id}({','.join(l[1][1] for l in self.lits)})"
        self.absolute = not decl.cmd.startswith('*')
        # which optional parts are left out: the same choice in the base rendering and in every variant
        self.omit = [opt and rng.random() < 0.5 for (opt, _p) in self.parts]
        if all(self.omit):
            self.omit[-1] = False

    def render(self, rng, mode, wsb=None):
        """mode: 'base' (long forms, upper case, minimal white space) or 'var'"""
        mn = []
        for k, (opt, p) in enumerate(self.parts):
            if self.omit[k]:
                continue
            if mode == 'base':
                s = p.upper()
            else:
                form = rng.choice(['short', 'long'])
                s = (spell.short_form(p) if form == 'short' else p) or p
                s = G.rand_case(rng, s)
            mn.append(s)
        def w(lo, hi):
            if mode == 'base':
                return b' ' * lo
            k = rng.randint(lo, hi)
            return bytes((wsb if (wsb is not None and rng.random() < 0.7) else rng.choice(WS)) for _ in range(k))
        h = ((':' if self.absolute else '') + ':'.join(mn) + ('?' if self.query else '')).encode()
        t = w(0, 2) + h
        if self.lits:
            t += w(1, 3)
            t += (w(0, 2) + b',' + w(0, 2)).join(l[0] for l in self.lits)
        t += w(0, 2)
        return t


class StdU(U):
    """a built-in query (SYSTem:VERSion?, SYSTem:ERRor[:NEXT]?, SYSTem:ERRor:COUNt?): no log entry, its answer is compared"""
    def __init__(self, rng, iface, cmd):
        self.decl = None
        self.parts, self.query = spell.parse_decl(cmd)
        self.lits = []
        self.entry = None
        self.absolute = True
        self.omit = [opt and rng.random() < 0.5 for (opt, _p) in self.parts]
        if all(self.omit):
            self.omit[-1] = False


def builtin_cmds(iface):
    """built-in commands of the interface that no user declaration overrides"""
    out = []
    for c in iface.std:
        path = tuple(spell.short_form(p).upper() for (_o, p) in spell.parse_decl(c)[0])
        r = iface.resolve(path, True)
        if r[0] == 'ok' and r[1] >= len(iface.decls):
            out.append(c)
    return out


def oracle(line, case):
    if is_crash(line):
        return 'crash'
    f = parse_fields(line)
    if log_entries(f) != case.meta['log']:
        return f"expected handler calls {case.meta['log']}"
    if parse_list(f.get('errs', '[]')) != case.meta['errs']:
        return f"expected errors {case.meta['errs']}"
    return None


def relational(cases, impl):
    fails = []
    groups = {}
    for i, c in enumerate(cases):
        groups.setdefault(c.meta['group'], []).append(i)
    for g, idx in groups.items():
        def key(i):
            f = parse_fields(impl[i])
            out = f.get('out')
            if out is None and 'tr' in f:      # PROC: the bytes handed to the adapter
                out = ''.join(t[2:] for t in parse_list(f.get('tr', '[]')) if t.startswith('W:')) or '-'
            return (f.get('log'), out, f.get('errs'), f.get('q'))
        ref = key(idx[0])
        for i in idx[1:]:
            if key(i) != ref:
                fails.append((i, f'lexical variant changes the meaning: base rendering gives {ref}, variant gives {key(i)}'))
                break
    return fails


def cases(tier, rng, ifaces):
    names = ['echo', 'echo', 'echo', 't1', 'a1', 'a1', 'g1'] + sorted(n for n in ifaces if n.startswith('r'))
    return variant_cases(tier, rng, ifaces, names, 250 if tier == 'quick' else 3000)


def fresh_cases(tier, rng, ifaces):
    """thorough tier: the same stream over the run's fresh declaration sets (group numbers apart from the main stream's)"""
    return variant_cases(tier, rng, ifaces, sorted(ifaces), 600, g0=10 ** 6)


def variant_cases(tier, rng, ifaces, names, n, g0=0):
    out = []
    for g in range(g0, g0 + n):
        iface = ifaces[rng.choice(names)]
        decls = [d for d in iface.decls if not (d.beh == 'echo' and 'f64' in d.args)]
        units = [U(rng, iface, rng.choice(decls)) for _ in range(rng.randint(1, 4))]
        std = builtin_cmds(iface)
        if std and rng.random() < 0.3:
            units.insert(rng.randint(0, len(units)), StdU(rng, iface, rng.choice(std)))
        log = [u.entry for u in units if u.entry is not None]
        errs = [e for u in units if u.decl is not None for e in G.decl_errs(u.decl)]
        u2 = None
        plain = [d for d in iface.decls if not d.args and not G.decl_errs(d) and not d.cmd.startswith('*')]
        if plain and rng.random() < 0.3:
            # the message ends with the legal trailing `;`, and a second message follows whose first header has no leading colon
            u2 = U(rng, iface, rng.choice(plain))
            u2.absolute = False
            log = log + [u2.entry]
        meta = {'log': log, 'errs': errs, 'group': g, 'kind': 'variant'}
        base = b';'.join(u.render(rng, 'base') for u in units) + (b'\n' if u2 is None else b';\n' + u2.render(rng, 'base') + b'\n')
        out.append(Case(f'RUN {iface.name} std {hx(base)}', oracle, dict(meta, kind='base')))
        nv = 8 if tier == 'quick' else 14
        for v in range(nv):
            wsb = WS[(g * nv + v) % len(WS)]        # every individual white-space byte value gets its turn
            text = b';'.join(u.render(rng, 'var', wsb) for u in units)
            term = rng.choice([b'\n', b'\r\n', bytes([wsb]) + b'\n', b' \r\n'])
            if u2 is not None:
                term = rng.choice([b';', b' ;', b'; ', bytes([wsb]) + b';']) + term + u2.render(rng, 'var', wsb) + rng.choice([b'\n', b'\r\n'])
            out.append(Case(f'RUN {iface.name} std {hx(text + term)}', oracle, meta))
            if v % 4 == 0 and len(text) + len(term) <= 250:
                # the same variant streamed through process, read boundaries everywhere (also inside runs of white space)
                full = text + term
                sizes, tot = [], 0
                while tot < len(full):
                    sizes.append(rng.choice([1, 1, 2, 3, 4, 7])); tot += sizes[-1]
                out.append(Case(f'PROC {iface.name} 256 {hx(full)} {",".join(map(str, sizes))}', oracle, dict(meta, kind='variant-PROC')))
    return out
