"""C02 — header path context follows the SCPI compound-message rules."""
from ..common import Case, hx, parse_fields, parse_list, is_crash, log_entries
from .. import gen as G
from .. import spell

LEVEL = 'proof'
TRUSTED = ['Lean 4 kernel; axioms propext, Classical.choice, Quot.sound only',
           'suspension of futures between units is outside the model (sequential async lowering trusted; exercised with pend=k)',
           'correspondence harness + driver (differential testing; covers only generated cases)']
RULE = ('compound messages of 1..6 units mixing relative, absolute (one and several mnemonics), common units, trailing ";", empty messages, '
        'sequences of messages in one buffer / several run calls / through process, over interfaces where one mnemonic exists at several '
        'levels; expectation = SCPI path rule simulated in python on the spelled paths. non-trivial = distinct executed op with >= 2 units')
EXPLANATION = 'path rule theorems on the model; tie by RUN/PROC ops; oracle = independent python simulation of the SCPI path rule'


def simulate(iface, msgs, stats=None):
    """msgs: list of messages, each a list of units (absolute, mnemonics(list of str), query, entry_args or None)
    -> (log entries, errs) by the SCPI rule."""
    log, errs = [], []
    for units in msgs:
        path = ()
        for unit in units:
            if unit is None:
                # an empty unit in the middle of a message (`A;;B`): a header is expected there — one error, rest discarded
                errs.append('-113')
                break
            (absolute, mn, query, argtxt) = unit
            up = tuple(m.upper() for m in mn)
            if len(up) == 1 and up[0].startswith('*'):
                full = up
                common = True
            else:
                full = up if absolute else path + up
                common = False
            r = iface.resolve(full, query)
            if r[0] == 'nonode':
                errs.append('-113')
                break                    # rest of the message is discarded
            if not common:
                path = full[:-1]
            if r[0] == 'noslot':
                errs.append('-113')
                continue
            idx = r[1]
            if idx >= len(iface.decls):
                log.append(None)         # standard command: no log entry
                if stats is not None and query:
                    stats['answers'] = stats.get('answers', 0) + 1
                continue
            d = iface.decls[idx]
            if d.args and not argtxt:
                errs.append('-115')      # the generator writes no parameters: declared parameters are then missing
                continue
            log.append(f'{d.id}({argtxt})')
            errs += G.decl_errs(d)
            if stats is not None and query and not G.decl_errs(d):
                stats['answers'] = stats.get('answers', 0) + 1
    return [l for l in log if l is not None], errs


def gen_message(rng, iface, n_units, p_bad=0.1):
    """-> (text bytes, units for simulate)"""
    noarg = [d for d in iface.decls if not d.args]
    if not noarg:
        noarg = iface.decls
    units, texts = [], []
    path = ()
    for k in range(n_units):
        if rng.random() < 0.05 and k + 1 < n_units:
            units.append(None); texts.append(G.ws(rng, 0, 1))      # empty unit; never the last one (that is the legal trailing `;`)
            continue
        r = rng.random()
        cands = []
        if r < 0.45 and path is not None:
            # relative continuation below the current path
            for d in noarg:
                for (sp, q) in d.spellings:
                    if len(sp) > len(path) and sp[:len(path)] == path and not sp[0].startswith('*'):
                        cands.append((d, sp, q))
        if cands:
            d, sp, q = rng.choice(cands)
            mn = [G.rand_case(rng, m) for m in sp[len(path):]]
            absolute = False
        elif r < 0.9:
            d = rng.choice(noarg)
            sp, q = rng.choice(sorted(d.spellings))
            if not sp:
                continue
            mn = [G.rand_case(rng, m) for m in sp]
            absolute = (not sp[0].startswith('*')) and (k == 0 and rng.random() < 0.3 or k > 0)
            if k == 0 and not absolute:
                pass
        else:
            # something that may not exist relative to the path
            d = rng.choice(noarg)
            sp, q = rng.choice(sorted(d.spellings))
            if not sp:
                continue
            mn = [G.rand_case(rng, m) for m in sp[-1:]]
            absolute = rng.random() < 0.3 and not mn[0].startswith('*')
        if not mn:
            continue
        units.append((absolute, mn, q, ''))
        texts.append(G.render_unit(rng, mn, q, [], absolute))
        up = tuple(m.upper() for m in mn)
        if not up[0].startswith('*'):
            full = up if absolute else path + up
            if full in iface.nodes:
                path = full[:-1]
            else:
                break
    while units and units[-1] is None:
        units.pop(); texts.pop()
    sep = lambda: G.ws(rng, 0, 1) + b';' + G.ws(rng, 0, 1)
    text = b''
    for i, t in enumerate(texts):
        text += (sep() if i else b'') + t
    if rng.random() < 0.15 and texts:
        text += b';'
    text += rng.choice([b'\n', b'\r\n', b' \n'])
    return text, units


def oracle(line, case):
    if is_crash(line):
        return 'crash'
    f = parse_fields(line)
    log = log_entries(f)
    errs = parse_list(f.get('errs', '[]'))
    if log != case.meta['log']:
        return f"SCPI path rule selects handlers {case.meta['log']}"
    if errs != case.meta['errs']:
        return f"SCPI path rule gives errors {case.meta['errs']}"
    if 'answers' in case.meta and f.get('ev', '-') != '-':
        # each unit finishes, response included, before the next starts: the writer sees, per answered query, its bytes and
        # then a flush (consecutive writes are reported as one event, so two responses without a flush between them show)
        evs = parse_list(f.get('ev', '[]'))
        if len(evs) != 2 * case.meta['answers'] or any(not e.startswith('W:') for e in evs[0::2]) or any(e != 'F' for e in evs[1::2]):
            return f"{case.meta['answers']} answered queries: expected write, flush for each, in order; events {evs}"
    return None


def corpus_cases(ifaces):
    e = ifaces['echo']
    out = []
    for txt, exp in [(b'SYST:A;:X;BAR\n', ['6()', '2()', '3()']), (b'SYST:A;\nBAR\n', ['6()', '3()']),
                     (b'SYST:A;BAR\n', ['6()', '7()']), (b'SYST:A;*RST;BAR\n', ['6()', '1()', '7()'])]:
        out.append(Case(f'RUN echo std {hx(txt)}', oracle, {'log': exp, 'errs': [], 'kind': 'corpus-D7/D11'}))
    return out


def cases(tier, rng, ifaces):
    names = ['echo', 't1', 'a1', 'g1'] + sorted(n for n in ifaces if n.startswith('r'))
    return compound_cases(rng, ifaces, names, 2500 if tier == 'quick' else 30000) + payload_cases(rng, tier) + overflow_cases(rng, tier)


def fresh_cases(tier, rng, ifaces):
    """thorough tier: the same stream over the run's fresh declaration sets"""
    return compound_cases(rng, ifaces, sorted(ifaces), 4000)


def compound_cases(rng, ifaces, names, n):
    out = []
    for i in range(n):
        iface = ifaces[rng.choice(names)]
        nm = rng.choice([1, 1, 2, 3])
        msgs, texts = [], []
        for _ in range(nm):
            if rng.random() < 0.08:
                texts.append(rng.choice([b'\n', b' \n', b'\r\n'])); msgs.append([])
                continue
            t, u = gen_message(rng, iface, rng.randint(1, 6))
            texts.append(t); msgs.append(u)
        stats = {}
        log, errs = simulate(iface, msgs, stats)
        meta = {'log': log, 'errs': errs, 'kind': 'RUN-compound', 'units': sum(len(m) for m in msgs)}
        mode = i % 3
        if i % 7 == 3 and not errs and all(u is not None for m in msgs for u in m):
            # fault-free: the same bytes handed to `run_from` unit by unit (cut behind every `;` and line feed), the header path
            # carried from piece to piece — what `process` does when a message arrives in several parts
            whole = b''.join(texts)
            pieces, cur = [], b''
            for b in whole:
                cur += bytes([b])
                if b in (59, 10):
                    pieces.append(cur); cur = b''
            if cur:
                pieces.append(cur)
            op = f'RUNF {iface.name} std ' + '|'.join(hx(p) for p in pieces)
            meta['kind'] = 'RUNF-compound'
        elif mode == 0:
            wr = 'pt' if i % 2 else 'std'
            if wr == 'pt':
                meta['answers'] = stats.get('answers', 0)
            op = f'RUN {iface.name} {wr} {hx(b"".join(texts))}'
        elif mode == 1:
            op = f'RUN {iface.name} std ' + '|'.join(hx(t) for t in texts) + (' pend=2' if rng.random() < 0.3 else '')
        else:
            stream = b''.join(texts)
            sizes, tot = [], 0
            while tot < len(stream):
                sizes.append(rng.randint(1, 7)); tot += sizes[-1]
            op = f'PROC {iface.name} 256 {hx(stream)} {",".join(map(str, sizes))}' + (' pend=1' if rng.random() < 0.3 else '')
            meta['kind'] = 'PROC-compound'
        out.append(Case(op, oracle, meta))
    return out


def overflow_oracle(line, case):
    if is_crash(line):
        return 'crash'
    log = log_entries(parse_fields(line))
    if not log or log[0] != '6()' or log[-1] != '3()':
        return f'a message discarded because it overflowed the buffer must leave no path behind: expected SYST:A (6) first and the root BAR (3) last, got {log}'
    return None


def overflow_cases(rng, tier):
    """process: a unit moves the path, then a string with a newline stays open until the buffer is full (the message is discarded);
    the next message starts at the root"""
    out = []
    for n in (16, 17, 20, 24, 32):
        for k in range(0, 2 * n):
            # (a) the open string is closed late: junk, then BAR
            stream = b'SYST:A;STR "ab\n' + b'c' * k + b'"\nBAR\n'
            # (b) no closing quote; for k = n - 9 the line feed behind the filler is the byte that fills the buffer: the
            #     unfinished message `STR "ab<LF>ccc…<LF>` is discarded and BAR is the next message, from the root
            stream_b = b'SYST:A;STR "ab\n' + b'c' * k + b'\nBAR\n'
            for sched in ('-', ','.join(['1'] * len(stream)), ','.join(str(rng.randint(1, n)) for _ in range(len(stream)))):
                out.append(Case(f'PROC echo {n} {hx(stream)} {sched}', overflow_oracle, {'kind': 'PROC-overflow-path', 'units': 3}))
                out.append(Case(f'PROC echo {n} {hx(stream_b)} {sched}', overflow_oracle if k == n - 9 else None,
                                {'kind': 'PROC-overflow-exact' if k == n - 9 else 'PROC-overflow-open', 'units': 3}))
    return out


def payload_cases(rng, tier):
    """echo: SYST:A ; STR/BLK with a newline in the payload (relative, below SYST) ; BAR (relative) — through process, read boundary anywhere"""
    out = []
    msgs = [(b'SYST:A;STR "a\nb";BAR\n', ['6()', '9(str:610a62)', '7()']),
            (b'SYST:A;BLK #13a\nb;BAR\nBAR\n', ['6()', '8(bytes:610a62)', '7()', '3()']),
            (b"SYST:STR 'x\n\ny';A;BAR\n", ['9(str:780a0a79)', '6()', '7()']),
            (b'SYST:A;*RST;BLK #11\n;A\n', ['6()', '1()', '8(bytes:0a)', '6()'])]
    # the same messages behind complete messages that arrive in the same read
    msgs = msgs + [(b'BAR\nSYST:A\n' + t, ['3()', '6()'] + l) for (t, l) in msgs] + [(b'BAR\n' + t, ['3()'] + l) for (t, l) in msgs[:2]]
    for text, log in msgs:
        scheds = [[1] * len(text), []] + [[k, len(text)] for k in range(1, len(text))]
        for sc in scheds:
            out.append(Case(f'PROC echo 64 {hx(text)} {",".join(map(str, sc)) or "-"}', oracle, {'log': log, 'errs': [], 'kind': 'PROC-payload-path', 'units': 3}))
        out.append(Case(f'RUN echo std {hx(text)}', oracle, {'log': log, 'errs': [], 'kind': 'RUN-payload-path', 'units': 3}))
    return out


def nontrivial(line, case):
    return not line.startswith('bad-op') and case.meta.get('units', 2) >= 2
