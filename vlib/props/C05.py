"""C05 — no input can crash or hang the interpreter."""
import itertools
from ..common import Case, hx, parse_fields, parse_list, is_crash
from .. import gen as G

LEVEL = 'proof'
TRUSTED = ['Lean 4 kernel; axioms propext, Classical.choice, Quot.sound only',
           'panics inside core/heapless, stack exhaustion and UB are outside the model (safe Rust, no recursion in the library)',
           'user handlers do not panic (the property assumes it)',
           'correspondence harness + driver: each op runs under catch_unwind with an adapter-call budget and a wall-clock watchdog']
RULE = ('exhaustive strings over a class-representative alphabet up to the length bound, through PARSE, RUN (writers std, hl0..hl16, pt) '
        'and PROC (N=1..24 and larger, several chunkings); truncations/mutations/splices of valid messages; oversized responses; '
        '9..12 parameters. non-trivial = distinct op that was executed (not bad-op)')
EXPLANATION = 'model never reaches a crash outcome (theorems); the implementation is run on the same ops under catch_unwind'

ALPHA = [b'X', b'Q', b'1', b'9', b'+', b'.', b'E', b'#', b'H', b"'", b'"', b'*', b':', b';', b',', b'?', b' ', b'\r', b'\n', b'\x00', b'\xff', b'_']
HEADS = [b'X', b'BLK ', b'STR ', b'SYST:A;', b'ECHO:U8? ', b'*IDN?', b'SET:F64 ', b'TWO 1,', b':', b'']


def no_crash(line, case):
    if is_crash(line):
        return f'the implementation crashed or hung ({line})'
    f = parse_fields(line)
    if 'rest' in f:
        # run returned a slice inside its argument: its length cannot exceed the input's
        rests = [int(x) for x in parse_list(f['rest'])]
        for r, n in zip(rests, case.meta.get('lens', [])):
            if r > n:
                return f'run returned {r} bytes from an input of {n}'
    if f.get('end') == 'budget':
        return 'process kept calling the transport without consuming input (budget exhausted)'
    return None


def run_case(name, writer, data, kind):
    return Case(f'RUN {name} {writer} {hx(data)}', no_crash, {'lens': [len(data)], 'kind': kind})


def proc_case(name, n, data, sched, kind):
    s = ','.join(map(str, sched)) if sched else '-'
    return Case(f'PROC {name} {n} {hx(data)} {s}', no_crash, {'kind': kind})


def cases(tier, rng, ifaces):
    out = []
    echo = ifaces['echo']
    maxlen = 3 if tier == 'quick' else 4
    # exhaustive over the alphabet, after a choice of heads
    for n in range(0, maxlen + 1):
        for combo in itertools.product(ALPHA, repeat=n):
            body = b''.join(combo)
            head = HEADS[len(out) % len(HEADS)]
            data = head + body
            out.append(Case(f'PARSE echo - {hx(data)}', no_crash, {'kind': 'PARSE-exh'}))
            if n == maxlen and (len(out) % 3):
                continue
            out.append(run_case('echo', 'std', data + b'\n', 'RUN-exh'))
    # exhaustive short strings through process with tiny buffers
    plen = 4 if tier == 'quick' else 5
    small = [b'X', b'1', b'"', b'#', b';', b' ', b'\n', b'?']
    for n in range(1, plen + 1):
        for combo in itertools.product(small, repeat=n):
            data = b''.join(combo) + b'\n'
            N = [1, 2, 3, 4, 5, 7][len(out) % 6]
            out.append(proc_case('echo', N, data, [], 'PROC-exh'))
    # valid messages, truncated / mutated / spliced, all writers and buffer sizes
    n_rand = 1500 if tier == 'quick' else 15000
    valid = []
    for _ in range(200):
        d = rng.choice(echo.decls)
        text, _entry, _p = G.valid_call(rng, echo, d)
        valid.append(text)
    for i in range(n_rand):
        a = rng.choice(valid)
        r = rng.random()
        if r < 0.25:
            data = a[:rng.randint(0, len(a))]
        elif r < 0.5 and len(a) > 0:
            k = rng.randrange(len(a))
            data = a[:k] + bytes([rng.choice([0, 10, 34, 35, 39, 44, 58, 59, 63, 255, rng.randrange(256)])]) + a[k + 1:]
        elif r < 0.75:
            b = rng.choice(valid)
            data = a[:rng.randint(0, len(a))] + rng.choice([b';', b';:', b'\n', b',', b' ']) + b[rng.randint(0, len(b)):]
        else:
            data = a + b';' + rng.choice(valid)
        data += rng.choice([b'\n', b'\r\n', b'', b';\n'])
        m = i % 4
        if m == 0:
            out.append(run_case('echo', rng.choice(['std', 'pt'] + [f'hl{c}' for c in echo.hl_caps()]), data, 'RUN-mut'))
        elif m == 1:
            out.append(Case(f'PARSE echo {rng.choice(["-", "SYST", "ECHO", "FAIL"])} {hx(data)}', no_crash, {'kind': 'PARSE-mut'}))
        else:
            N = rng.choice(echo.proc_sizes())
            sched = [rng.randint(0, 9) for _ in range(rng.randint(0, 12))]
            out.append(proc_case('echo', N, data + rng.choice(valid) + b'\n', sched, 'PROC-mut'))
    # oversized responses: every query, every small capacity, run and process
    queries = [b'*IDN?', b'LONG?', b'ARB?', b'CHAR?', b'SYST:ERR?', b'SYST:VERS?', b'ECHO:I64? -9223372036854775808',
               b'ECHO:F64? -1.5e300', b'ECHO:F32? 1e-40', b'ECHO:STR? "a""b"', b"ECHO:STR? 'a\"b\"c'", b'ECHO:BYTES? #15hello',
               b'ECHO:QUAD? -1,#13abc,"s",7', b'ECHO:BOOL? ON', b'SENS:VOLT:RANG?', b'FOO']
    for q in queries:
        for cap in echo.hl_caps():
            out.append(run_case('echo', f'hl{cap}', q + b'\n', 'RUN-smallwriter'))
        for N in echo.proc_sizes():
            out.append(proc_case('echo', N, q + b'\n' + q + b'\n', [], 'PROC-smallbuf'))
    # parameter counts around MAX_ARGS
    for k in range(0, 14):
        args = b','.join(b'1' for _ in range(k))
        for h in (b'MANY ', b'NINE ', b'X ', b'ECHO:U8? '):
            out.append(run_case('echo', 'std', h + args + b'\n', 'RUN-argcount'))
            out.append(proc_case('echo', 64, h + args + b'\n', [5] * 10, 'PROC-argcount'))
    # response values of every shape, written directly (a handler may return any of them): empty lists, nested tuples, small writers
    shapes = ['hv[]', 'sl[]', 't(hv[];sl[])', 't(u8:1;hv[])', 'hv[u8:1]', 'sl[str:-]', 'sl[arb:-;arb:-]', 't(unit;unit)', 'hv[unit]', 'str:-', 'chars:-', 'arb:-',
              'hv[t(u8:1;sl[]);t(u8:2;sl[u8:3])]', 'sl[hv[];hv[]]', 'errc:0:-', 't(f32:0x7fc00000;f64:0xfff0000000000000;hv[])']
    for e in shapes:
        for wr in ['std', 'pt'] + [f'hl{c}' for c in (0, 1, 2, 3, 8, 256)]:
            out.append(Case(f'RESP {wr} {e}', no_crash, {'kind': 'RESP-shape'}))
    # very long mnemonics and character data (headers, parameters), every length around powers of two
    for ln in (11, 12, 13, 15, 16, 17, 31, 32, 33, 63, 64, 65, 127, 128, 129, 255, 256, 257, 1000):
        name = (b'ABCDEFGHIJKLMNOPQRSTUVWXYZ' * 40)[:ln]
        lower = name.lower()
        for text in (name + b'\n', b'*' + name + b'\n', b'SYST:' + lower + b'\n', name + b':' + name + b'?\n', b'X ' + lower + b'\n',
                     b'SET:STR ' + name + b'\n', b':' + lower + b';*' + lower + b'\n'):
            out.append(run_case('echo', 'std', text, 'RUN-longmnemonic'))
            out.append(proc_case('echo', 256, text, [7] * 10, 'PROC-longmnemonic'))
            out.append(Case(f'PARSE echo - {hx(text)}', no_crash, {'kind': 'PARSE-longmnemonic'}))
    # every parameter type x every kind of program data x lengths around small powers of two (scratch buffers in conversions)
    lens = [1, 2, 3, 4, 5, 6, 7, 8, 9, 12, 13, 15, 16, 17, 24, 25, 31, 32, 33, 64, 65] if tier == 'quick' else list(range(1, 70)) + [127, 128, 129, 300]
    for ty in 'u8 i8 u16 i16 u32 i32 u64 i64 usize isize f32 f64 bool str bytes'.split():
        for ln in lens:
            lits = [b'A' * ln, b'on'[:1] + b'n' * (ln - 1), b'1' * ln, b'-' + b'9' * ln, b'1.' + b'5' * ln, b'1e' + b'1' * ln, b'#H' + b'F' * ln,
                    b'#B' + b'1' * ln, b'#Q' + b'7' * ln, b'"' + b'a' * ln + b'"', b"'" + b'\xc3\xa9' * ln + b"'",
                    b'#' + str(len(str(ln))).encode() + str(ln).encode() + b'x' * ln]
            for lit in lits:
                out.append(run_case('echo', 'std', b'SET:' + ty.upper().encode() + b' ' + lit + b'\n', 'RUN-paramkinds'))
    # messages longer than the buffer
    for N in (1, 2, 5, 8, 16):
        for ln in (N - 1, N, N + 1, 2 * N, 3 * N + 1):
            data = (b'X' * max(0, ln - 1)) + b'\n' + b'*IDN?\n'
            out.append(proc_case('echo', N, data, [], 'PROC-long'))
            out.append(proc_case('echo', N, data, [1] * 8, 'PROC-long'))
    return out
