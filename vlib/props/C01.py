"""C01 — a header selects a handler iff it spells the declared short/long forms."""
import itertools, re
from ..common import Case, hx, parse_fields, parse_list, is_crash, log_entries
from .. import gen as G
from .. import spell

LEVEL = 'proof'
TRUSTED = ['Lean 4 kernel; axioms propext, Classical.choice, Quot.sound only',
           'the quote! glue of microscpi-macros/src/lib.rs (id <-> handler mapping, emission of the statics) is validated on the generated interfaces (26) of each run (TREE op), not modelled token by token',
           'HashMap in the macro: only its map semantics', 'ASCII declarations (char::is_lowercase / to_uppercase re-stated for ASCII)',
           'correspondence harness + driver (differential testing; covers only generated cases)']
RULE = ('TREE of every generated interface (real macro expansion vs model); MACRO on seeded random declaration sets (real command.rs/tree.rs '
        'by path include vs model); RUN on every spelling (short/long/omitted x random case) of every declaration of every interface, '
        'and near-misses (letter dropped/added, between short and long, level swapped/dropped/added, ? flipped, sibling mnemonic); '
        'standard commands per attribute flags. non-trivial = distinct executed op')
EXPLANATION = 'macro trie == spelled paths (theorems) ; tie to the code by TREE/MACRO/RUN ops; oracle = independent python re-statement of the spelling rule'


def expected_header_oracle(line, case):
    if is_crash(line):
        return 'crash'
    f = parse_fields(line)
    log = log_entries(f)
    errs = parse_list(f.get('errs', '[]'))
    exp = case.meta['expect']
    if exp[0] == 'call':
        if log != [exp[1]] or errs != exp[2]:
            return f'expected exactly the call {exp[1]} and errors {exp[2]}'
    elif exp[0] == 'one-error':
        if log or len(errs) != 1:
            return 'expected no handler call and exactly one error'
    else:
        if log or errs != ['-113']:
            return 'expected no handler call and exactly one error -113'
    return None


def std_handler_oracle(line, case):
    """standard commands do not log; they answer"""
    if is_crash(line):
        return 'crash'
    f = parse_fields(line)
    errs = parse_list(f.get('errs', '[]'))
    if case.meta['exists']:
        if errs or f.get('out') == '-':
            return 'standard command requested in the attribute must exist and answer'
    else:
        if errs != ['-113']:
            return 'standard command not requested must be undefined (-113)'
    return None


def macro_oracle(line, case):
    if line.startswith('unavailable'):
        return None    # the harness was built without the macro crate's sources (see harness/build.sh): no answer to judge
    if is_crash(line) or line.startswith('bad-op'):
        return None if line.startswith('bad-op') else 'crash in the macro code'
    decls = case.meta['decls']
    coll = spell.set_collides(decls)
    ok = ' ins=ok ' in line
    if coll and ok:
        return 'declarations share a spelling of the same kind but the trie was built (shadowing)'
    if not coll and not ok:
        return 'collision-free declaration set was refused'
    # spelled paths as sets
    body = line[len('paths=['):line.index('] ins=')]
    per = body.split('|')
    for d, p in zip(decls, per):
        got = {tuple(x.split('/')) if x != '-' else () for x in p.split(',')} if p != '' else {('',)}
        want = {path for (path, _q) in spell.spellings(d)}
        if got != want:
            return f'paths of {d!r} differ from the spelling rule: {sorted(got)} vs {sorted(want)}'
    return None


def args_for(rng, decl):
    lits = [G.literal(rng, ty, newline=False) for ty in decl.args]
    return lits


def deliver(rng, name, text, proc_ok=True):
    """the op that hands `text` to the interface: mostly `run` with a std writer, sometimes the pass-through writer or
    `process` with read boundaries every 1..7 bytes (the selection of a handler must not depend on the way in)"""
    r = rng.random()
    if r < 0.7 or len(text) > 250:
        return f'RUN {name} std {hx(text)}'
    if r < 0.85 or not proc_ok:      # proc_ok = False: the response may exceed the 256-byte response buffer of process
        return f'RUN {name} pt {hx(text)}'
    sizes, tot = [], 0
    while tot < len(text):
        sizes.append(rng.randint(1, 7)); tot += sizes[-1]
    return f'PROC {name} 256 {hx(text)} {",".join(map(str, sizes))}'


def header_cases(rng, iface, tier):
    out = []
    name = iface.name
    user_cmds = [d.cmd for d in iface.decls]
    for d in iface.decls:
        parts, query = spell.parse_decl(d.cmd)
        # every combination of forms / omissions
        choices = []
        for opt, p in parts:
            c = [('long', False), ('short', False)] if spell.short_form(p) != p else [('long', False)]
            if opt:
                c.append((None, True))
            choices.append(c)
        combos = list(itertools.product(*choices))
        if tier == 'quick' and len(combos) > 12:
            combos = rng.sample(combos, 12)
        for combo in combos:
            mn = []
            for (opt, p), (form, omit) in zip(parts, combo):
                if omit:
                    continue
                mn.append(G.spell_part(rng, p, form))
            if not mn:
                continue
            lits = args_for(rng, d)
            text = G.render_unit(rng, mn, query, [l[0] for l in lits]) + b'\n'
            entry = f"{d.id}({','.join(l[1][1] for l in lits)})"
            res = iface.resolve([m.upper() for m in mn], query)
            exp = ('call', entry, G.decl_errs(d)) if res == ('ok', d.id) else None
            if exp is None:
                continue   # e.g. all-optional omitted spelling that resolves elsewhere
            out.append(Case(deliver(rng, name, text, not (d.beh == 'echo' and 'f64' in d.args)), expected_header_oracle, {'expect': exp, 'kind': 'RUN-spelling'}))
            # misplaced level separators on a valid spelling: surplus trailing, doubled or leading-doubled colon
            hdr = ':'.join(mn)
            if hdr.startswith('*'):
                for fm in (':' + hdr, ': ' + hdr):
                    out.append(Case(deliver(rng, name, (fm + ('?' if query else '')).encode() + bytes([10])), expected_header_oracle,
                                    {'expect': ('undef',), 'kind': 'RUN-colon'}))
            if not hdr.startswith('*'):
                forms = [hdr + ':', hdr + ':?', '::' + hdr + ('?' if query else ''), ':' + hdr + ':' + ('?' if query else '')]
                if len(mn) > 1:
                    j = rng.randrange(1, len(mn))
                    forms.append(':'.join(mn[:j]) + '::' + ':'.join(mn[j:]) + ('?' if query else ''))
                for fm in (rng.sample(forms, 2) if tier == 'quick' else forms):
                    for tail in (b'', b' ' + b','.join(l[0] for l in lits) if lits else b''):
                        out.append(Case(deliver(rng, name, fm.encode() + tail + bytes([10])), expected_header_oracle,
                                        {'expect': ('undef',), 'kind': 'RUN-colon'}))
                out.append(Case(f'RUN {name} std {hx((hdr + "?:").encode() + bytes([10]))}', expected_header_oracle,
                                {'expect': ('one-error',), 'kind': 'RUN-colon'}))
            # near misses derived from this spelling
            for _ in range(2 if tier == 'quick' else 5):
                mm = list(mn)
                q2 = query
                r = rng.random()
                k = rng.randrange(len(mm))
                if r < 0.2 and len(mm[k]) > 1:
                    mm[k] = mm[k][:-1]
                elif r < 0.35:
                    mm[k] = mm[k] + rng.choice('EXZ1')
                elif r < 0.5:
                    full = parts[-1][1]
                    sh = spell.short_form(full)
                    if len(full) > len(sh) + 1 and full.upper().startswith(sh.upper()):
                        mm[-1] = full[:rng.randint(len(sh) + 1, len(full) - 1)]
                elif r < 0.6 and len(mm) > 1:
                    i, j = rng.sample(range(len(mm)), 2)
                    mm[i], mm[j] = mm[j], mm[i]
                elif r < 0.7 and len(mm) > 1:
                    del mm[k]
                elif r < 0.8:
                    mm.insert(k, rng.choice(mm))
                elif r < 0.9:
                    q2 = not query
                else:
                    other = rng.choice(iface.decls)
                    op = spell.parse_decl(other.cmd)[0]
                    mm[k] = G.spell_part(rng, rng.choice(op)[1])
                if any(not re.match(r'^\*?[A-Za-z][A-Za-z0-9_]*$', m) for m in mm):
                    continue   # not a program mnemonic any more (e.g. a lone `*`): a syntax error, not a header
                star = [m for m in mm if m.startswith('*')]
                if star and (len(mm) > 1):
                    continue   # '*' below the first level is not a header the lexer produces
                res = iface.resolve([m.upper() for m in mm], q2)
                if res[0] == 'ok':
                    tgt = res[1]
                    if tgt >= len(iface.decls):
                        continue
                    td = iface.decls[tgt]
                    l2 = args_for(rng, td)
                    t2 = G.render_unit(rng, mm, q2, [l[0] for l in l2]) + b'\n'
                    e2 = ('call', f"{td.id}({','.join(l[1][1] for l in l2)})", G.decl_errs(td))
                else:
                    t2 = G.render_unit(rng, mm, q2, []) + b'\n'
                    e2 = ('undef',)
                out.append(Case(deliver(rng, name, t2, not (res[0] == 'ok' and td.beh == 'echo' and 'f64' in td.args)), expected_header_oracle, {'expect': e2, 'kind': 'RUN-nearmiss'}))
    # standard commands exist exactly when requested
    for hdr, flag in (('SYST:VERS?', 'S'), ('SYSTem:VERSion?', 'S'), ('SYST:ERR?', 'E'), ('syst:err:next?', 'E'),
                      ('SYSTEM:ERROR:COUNT?', 'E'), ('SYST:ERR:COUN?', 'E')):
        # skip if a user declaration spells it
        mn = hdr[:-1].split(':')
        if any(((tuple(m.upper() for m in mn), True) in spell.spellings(c)) for c in user_cmds):
            continue
        out.append(Case(f'RUN {name} std {hx(hdr + chr(10))}', std_handler_oracle,
                        {'exists': flag in iface.flags, 'kind': 'RUN-standard'}))
    return out


POOL = ["SYSTem", "MEASure", "VOLTage", "CURRent", "OUTPut", "STATe", "DC", "aBc", "D_1e", "X1", "CH2a", "TeST", "A", "B",
        "SYST", "MEAS", "VOLT", "Syst", "AB", "ABc", "ABC", "abC", "A1", "a1B", "Q_", "foo", "FOo", "FO", "*IDN", "*RST", "*Tst"]


def random_declset(rng, collide_bias):
    n = rng.randint(1, 7)
    decls = []
    for _ in range(n):
        depth = rng.choice([1, 1, 2, 2, 3, 4])
        parts = []
        for _l in range(depth):
            m = rng.choice(POOL)
            if rng.random() < 0.3:
                m = '[' + m + ']'
            parts.append(m)
        cmd = ':'.join(parts) + ('?' if rng.random() < 0.4 else '')
        if rng.random() < 0.1:
            cmd = ' ' + cmd.replace(':', ' : ')
        if rng.random() < 0.05:
            cmd = ':' + cmd
        decls.append(cmd)
    if decls and rng.random() < collide_bias:
        # force a (possible) collision: re-spell an existing declaration
        d = rng.choice(decls)
        parts, q = spell.parse_decl(d)
        sp = []
        for opt, p in parts:
            r = rng.random()
            if opt and r < 0.3:
                continue
            if r < 0.6:
                sp.append(spell.short_form(p) or p)
            elif r < 0.8:
                sp.append(p.upper())
            else:
                sp.append(('[' + p + ']') if rng.random() < 0.5 else p)
        if sp:
            decls.insert(rng.randint(0, len(decls)), ':'.join(sp) + ('?' if (q if rng.random() < 0.8 else not q) else ''))
    return decls


def macro_cases(rng, n, collide_bias=0.5):
    out = []
    for _ in range(n):
        decls = random_declset(rng, collide_bias)
        out.append(Case('MACRO ' + ';'.join(hx(d) for d in decls), macro_oracle, {'decls': decls, 'kind': 'MACRO'}))
    return out


def corpus_cases(ifaces):
    return []


def fresh_cases(tier, rng, ifaces):
    """thorough tier: trees and every spelling / near-miss of the run's fresh declaration sets"""
    out = []
    for name in ifaces:
        out.append(Case(f'TREE {name}', None, {'kind': 'TREE-fresh'}))
    for name, iface in ifaces.items():
        out += header_cases(rng, iface, tier)
    return out


def context_cases(tier, rng, ifaces):
    """the handler a header selects, in context: (a) compound messages (the path rule of C02 decides which declaration a
    relative header spells); (b) a valid spelling sent as a message of its own behind a message whose later unit was faulty"""
    from .C02 import compound_cases
    out = compound_cases(rng, ifaces, sorted(ifaces), 400 if tier == 'quick' else 6000)
    for c in out:
        c.meta['kind'] = 'RUN-context'
    for name, iface in ifaces.items():
        deep = [d for d in iface.decls if not d.args and not G.decl_errs(d) and not d.cmd.startswith('*') and len(spell.parse_decl(d.cmd)[0]) >= 2]
        plain = [d for d in iface.decls if not d.args and not G.decl_errs(d)]
        if not deep or not plain:
            continue
        for _ in range(6 if tier == 'quick' else 40):
            d1, d2 = rng.choice(deep), rng.choice(plain)
            sp1, q1 = rng.choice(sorted(x for x in d1.spellings if len(x[0]) >= 2))
            sp2, q2 = rng.choice(sorted(d2.spellings))
            if not sp2 or iface.resolve(tuple(sp1[:-1]) + ('ZZ9Q',), False)[0] != 'nonode' or iface.resolve(tuple(sp1), q1) != ('ok', d1.id) \
                    or iface.resolve(tuple(sp2), q2) != ('ok', d2.id):
                continue
            bad = rng.choice([b';ZZ9Q', b';ZZ9Q 1 2', b';:ZZ9Q', b';X Y Z'])
            text = ':'.join(sp1).encode() + (b'?' if q1 else b'') + bad + b'\n' + ':'.join(sp2).encode() + (b'?' if q2 else b'') + b'\n'
            out.append(Case(deliver(rng, name, text), context_oracle,
                            {'first': f'{d1.id}()', 'last': f'{d2.id}()', 'kind': 'RUN-after-faulty'}))
    return out


def context_oracle(line, case):
    """first message: the deep header's handler runs, its second unit is faulty (one error, whatever its number); second message:
    exactly the spelled declaration's handler, as if the first had never been sent"""
    if is_crash(line):
        return 'crash'
    f = parse_fields(line)
    log = log_entries(f)
    errs = parse_list(f.get('errs', '[]'))
    if log != [case.meta['first'], case.meta['last']]:
        return f"expected the calls {[case.meta['first'], case.meta['last']]} (the second message is resolved from the root)"
    if len(errs) != 1:
        return f'expected exactly one error (the faulty unit of the first message), got {errs}'
    return None


def cases(tier, rng, ifaces):
    out = context_cases(tier, rng, ifaces)
    for name in ifaces:
        out.append(Case(f'TREE {name}', None, {'kind': 'TREE'}))
    for name, iface in ifaces.items():
        out += header_cases(rng, iface, tier)
    out += macro_cases(rng, 3000 if tier == 'quick' else 40000)
    return out
