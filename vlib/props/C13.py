"""C13 — parsing, dispatch and response formatting never allocate on the heap (level: other, partial)."""
import os, subprocess
from ..common import Case, hx, is_crash, HARNESS, ENV
from .. import gen as G

LEVEL = 'other'
TRUSTED = ['Lean 4 kernel for the capacity theorems (args <= 10, response buffer <= N, queue <= capacity, offsets <= N): they are the REASON no allocation is needed',
           'absence of allocator calls is OBSERVED with a counting GlobalAlloc around run/process on generated inputs; it is not proved',
           'the no_std / no-allocator build is OBSERVED by linking a no_std crate without global allocator against microscpi with default features',
           'the harness runs in quiet mode (handlers, adapter and error recording of the harness do not allocate while counting)']
RULE = ('ALLOC ops: run with heapless writers of every supported capacity and process with every supported buffer size on valid, faulty, truncated, '
        'mutated and oversized-response inputs (the streams of C05/C06/C08); the counting allocator must report 0 allocations between entry and '
        'exit of the library call. Plus one link of the no_std/no-allocator crate. non-trivial = distinct executed ALLOC op')
EXPLANATION = ('Partial by nature. Proved in Lean: every container of the interpreter stays within its fixed capacity for every input (Scpi.C13.*), so no '
               'growth is ever needed. Observed, not proved: the compiled code performs 0 heap allocations on the generated inputs (counting GlobalAlloc) and '
               'the crate links as #![no_std] without alloc and without a global allocator.')


def oracle(line, case):
    if is_crash(line):
        return 'crash'
    if line != 'alloc=0':
        return f'heap allocation inside the library call: {line}'
    return None


def cases(tier, rng, ifaces):
    out = []
    echo = ifaces['echo']
    from .C06 import gen_message
    from .C08 import payload_unit
    msgs = []
    for _ in range(300 if tier == 'quick' else 4000):
        r = rng.random()
        if r < 0.5:
            msgs.append(gen_message(rng, echo, rng.random() < 0.4)[0])
        elif r < 0.7:
            t, _e = payload_unit(rng, echo, False)
            msgs.append(t + b'\n')
        elif r < 0.85:
            m = gen_message(rng, echo, False)[0]
            msgs.append(m[:rng.randint(0, len(m))] + b'\n')
        else:
            msgs.append(bytes(rng.choice(b'X1"#; \n?:,*\'eE+-.') for _ in range(rng.randint(1, 20))) + b'\n')
    queries = [b'*IDN?\n', b'LONG?\n', b'ARB?\n', b'SYST:ERR?\n', b'ECHO:F64? -1.5e300\n', b'ECHO:F32? 1e-40\n', b'ECHO:I64? -9223372036854775808\n',
               b'ECHO:QUAD? -1,#13abc,"s",7\n', b'SET:F64 1.5 E3\n', b'ECHO:F32? -.25\t e-2\n', b'ECHO:F64? 1 . 5\n', b'SET:F32 + 1\n', b'SYST:ERR:COUN?\n', b'SYST:VERS?\n', b'NOPE\n', b'MANY 1,2,3,4,5,6,7,8,9,10,11,12\n']
    for i, m in enumerate(msgs + queries * 3):
        cap = rng.choice(echo.hl_caps())
        out.append(Case(f'ALLOC RUN echo hl{cap} {hx(m)}', oracle, {'kind': 'ALLOC-RUN'}))
        if i % 2 == 0:
            n = rng.choice(echo.proc_sizes())
            stream = m + rng.choice(msgs)
            sched = ','.join(str(rng.randint(0, 9)) for _ in range(rng.randint(0, 8))) or '-'
            out.append(Case(f'ALLOC PROC echo {n} {hx(stream)} {sched}', oracle, {'kind': 'ALLOC-PROC'}))
    for name in ('q1', 'q3', 't1', 'r3'):
        for m in (b'*IDN?\n', b'FAIL;CUST;ARG\n', b'SYST:ERR?\n', b'BAR:BAR:BAR?\n', b'NOPE\n'):
            out.append(Case(f'ALLOC RUN {name} hl256 {hx(m)}', oracle, {'kind': 'ALLOC-RUN'}))
            out.append(Case(f'ALLOC PROC {name} 64 {hx(m + m)} 3,3,3', oracle, {'kind': 'ALLOC-PROC'}))
    return out


def extra_stage(tier, rng):
    """the no_std / no-allocator link check"""
    script = os.path.join(HARNESS, 'nostd', 'check.sh')
    if not os.path.exists(script):
        return [(['nostd'], 'nostd/check.sh is missing')], 0, []
    p = subprocess.run([script], cwd=os.path.dirname(script), env=ENV, stdout=subprocess.PIPE, stderr=subprocess.STDOUT, text=True, timeout=1800)
    last = [l for l in p.stdout.strip().split('\n') if l.startswith('nostd=')]
    ok = p.returncode == 0 and last and last[-1] == 'nostd=ok'
    if ok:
        return [], 1, [('nostd', 'ok')]
    return [(['nostd'], 'the crate no longer builds without std/alloc: ' + p.stdout[-600:])], 1, [('nostd', p.stdout[-200:])]
