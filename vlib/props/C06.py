"""C06 — a faulty message is reported once and never affects later messages."""
from ..common import Case, hx, parse_fields, parse_list, is_crash, log_entries
from .. import gen as G

LEVEL = 'proof'
TRUSTED = ['Lean 4 kernel; axioms propext, Classical.choice, Quot.sound only',
           'suspension of futures is outside the model (exercised with pend=k)',
           'correspondence harness + driver (differential testing; covers only generated cases)']
RULE = ('sequences of 1..5 complete messages (only newline = terminator) over the echo interface, any subset faulty, every fault kind '
        '(syntax error, undefined header, missing slot, wrong parameter count, unconvertible parameter, handler error std/custom) at every '
        'unit position; given to run in one buffer, to run message by message, and through process in random chunkings. Expectation built with '
        'the message: units before the fault run, the faulty unit reports exactly one error, parse-level faults drop the rest of the message, '
        'execution-level faults do not; later messages unaffected. non-trivial = distinct executed op with at least one faulty message')
EXPLANATION = 'one error per faulty unit, isolation of later messages (theorems); tie by RUN/PROC ops; oracle = expectation carried by the generator'

FAULTS = ['syntax', 'undef', 'noslot', 'arity', 'conv', 'handler', 'custom']


def gen_message(rng, echo, faulty):
    """-> (text, log, errs)  errs: list of expected error strings or None (= any one error)"""
    n = rng.randint(1, 4)
    fpos = rng.randrange(n) if faulty else -1
    kind = rng.choice(FAULTS) if faulty else None
    texts, log, errs = [], [], []
    noarg_ok = [d for d in echo.decls if (d.beh in ('unit', 'echo') or d.beh.startswith('const')) and not (d.beh == 'echo' and 'f64' in d.args)]
    for k in range(n):
        if k == fpos:
            if kind == 'syntax' and rng.random() < 0.2:
                # an empty unit where a header is expected (`A;;B`, `;B`): one error, the unit written behind it does not run
                # (an empty unit at the very end is the legal trailing `;`, hence the unit behind it)
                d2 = rng.choice(noarg_ok)
                t2, _e2, _ = G.valid_call(rng, echo, d2, newline=False, absolute=not d2.cmd.startswith('*'))
                texts.append(rng.choice([b'', b' ', b'\t']))
                texts.append(t2)
                errs.append(None)
                break
            if kind == 'syntax':
                texts.append(rng.choice([b'X 1 2', b'X ,', b'X!', b'X "a" "b"', b'X 1,,2', b'&', b'X #', b'BOOL 1e', b'SYST::A', b'STR "it\'s" !',
                                         b"STR 'a\"b' 'c'", b'TWO 1,"it\'s" x', b'X "a;b" !', b'SET:U8 5,', b'TWO 1,"x" ,', b'ECHO:U8? 7 , ', b'SET:STR "a",',
                                         b'X\x7f', b'SET:U8\x7f5', b'SET:U8 5\x7f', b'TWO 1\x7f,"x"', b'TWO 1,\x7f"x"', b'\x7fX', b'X\x80', b'SET:U8 5\xa0', b'X\xff',
                                         b'SET:BYTES #1y', b'SET:BYTES #2zz', b'SET:BYTES #1 ', b'SET:BYTES #0', b'SET:BYTES #', b'SET:BYTES #a1', b'SET:BYTES #2-1ab',
                                         b'SET:BYTES #2 5hello', b'BLK #1+', b'ECHO:BYTES? #1/']))
                errs.append(None)
                break
            if kind == 'undef':
                texts.append(rng.choice([b':NOPE', b':SYST:NOPE', b':ECHO:U9? 1', b':SYSTE:A', b':X:X', b'*XYZ', b':NOPE "it\'s"', b":SYST:NOPE 'say \"hi\"'",
                                         b':NOPE 1,"a;b",#13x;y', b":SYSTE:A 'q' , \"r's\"", b':NOPE "\'"', b":NOPE '\"','\"'", b' :*RST', b' : *IDN?', b' :*rst 1']))
                errs.append('-113')
                break
            if kind == 'noslot' and rng.random() < 0.3:
                # a header that stops at a bare node (children only): undefined header at execution level, the path has moved —
                # the relative units behind it run below that path
                texts += [b':SENS:VOLT', b'VOLT:RANG 5', b'RANG?', b'DC:RANG 5']
                errs.append('-113')
                log += ['10(f64:0x4014000000000000)', '11()', '10(f64:0x4014000000000000)']
                break
            if kind == 'noslot':
                texts.append(rng.choice([b':X?', b':BAR?', b':SYST:A?', b':ECHO:U8 1', b'*RST?', b'*IDN', b':SYST']))
                errs.append('-113')
            elif kind == 'arity':
                if rng.random() < 0.25:
                    # all ten declared parameters, correctly typed, plus surplus ones (more than the supported maximum):
                    # one error (whatever its number), no call; it is a parse-level fault (rest of the message dropped)
                    many = [d for d in echo.decls if len(d.args) == 10][0]
                    lits = [G.literal(rng, ty, newline=False)[0] for ty in many.args] + [b'1'] * rng.randint(1, 3)
                    texts.append(b':MANY ' + b','.join(lits))
                    errs.append(None)
                    break
                texts.append(rng.choice([b':X 1', b':ECHO:U8?', b':ECHO:U8? 1,2', b':TWO 1', b':BOOL', b':SET:STR "a","b"']))
                errs.append('-115')
            elif kind == 'conv':
                t, e = rng.choice([(b':ECHO:U8? 256', '-120'), (b':ECHO:I8? -129', '-120'), (b':SET:U16 "1"', '-104'), (b':BOOL 2', '-224'),
                                   (b':SET:STR 12', '-104'), (b':SET:BYTES "x"', '-104'), (b':ECHO:F64? #H10', '-104'), (b':TWO 1,2', '-104'),
                                   (b':SET:U64 1.5', '-120'), (b':SET:I16 #HFFFF', '-120')])
                texts.append(t); errs.append(e)
            elif kind == 'handler':
                hs = [(b':FAIL', '-200', '12()'), (b':FAIL:Q?', '-222', '14()')]
                for d in echo.decls:   # every handler that raises a standard error of its own (verbatim, whatever its number)
                    if d.cmd.startswith('RAISe:') and d.beh.startswith('err:'):
                        if d.args == ['u8']:
                            hs.append((b':' + d.cmd.encode() + b' 5', d.beh[4:], f'{d.id}(u8:5)'))
                        elif not d.args:
                            hs.append((b':' + d.cmd.encode(), d.beh[4:], f'{d.id}()'))
                t, e, l = rng.choice(hs)
                texts.append(t); errs.append(e); log.append(l)
            else:
                texts.append(b':FAIL:CUST'); errs.append('c-1234:' + hx('my "custom" error')); log.append('13()')
            continue
        d = rng.choice(noarg_ok)
        # the first unit of a message may be written without the leading colon: the path is the root there,
        # whatever the previous message did (that is the isolation the property asks for)
        absolute = (not d.cmd.startswith('*')) and not (k == 0 and rng.random() < 0.6)
        text, entry, _ = G.valid_call(rng, echo, d, newline=False, absolute=absolute)
        texts.append(text); log.append(entry)
    sep = b';'
    if texts and texts[0].startswith(b':') and rng.random() < 0.5:
        texts[0] = texts[0][1:]
    msg = sep.join(texts) + rng.choice([b'\n', b'\r\n', b' \n'])
    return msg, log, errs


def oracle(line, case):
    if is_crash(line):
        return 'crash'
    f = parse_fields(line)
    log = log_entries(f)
    errs = parse_list(f.get('errs', '[]'))
    if log != case.meta['log']:
        return f"expected handler calls {case.meta['log']}"
    exp = case.meta['errs']
    if len(errs) != len(exp):
        return f'expected exactly {len(exp)} reported error(s) (one per faulty message), got {errs}'
    for a, b in zip(errs, exp):
        if b is not None and a != b:
            return f'expected error {b}, got {a}'
    return None


def corpus_cases(ifaces):
    out = []
    for op, log, errs in [
        ('RUN echo std ' + hx(b'FOO\n*IDN?\n'), ['0()'], ['-113']),
        ('PROC echo 64 ' + hx(b'FOO\n*IDN?\n*IDN?\n') + ' 4,6,6', ['0()', '0()'], ['-113']),
        ('RUN echo std ' + hx(b'X 1 2\n') + '|' + hx(b'X\n'), ['2()'], [None]),
    ]:
        out.append(Case(op, oracle, {'log': log, 'errs': errs, 'kind': 'corpus-D1'}))
    return out


def cases(tier, rng, ifaces):
    echo = ifaces['echo']
    out = []
    n = 3000 if tier == 'quick' else 40000
    for i in range(n):
        k = rng.randint(1, 5)
        msgs, log, errs = [], [], []
        nf = 0
        for _ in range(k):
            faulty = rng.random() < 0.45
            nf += faulty
            m, l, e = gen_message(rng, echo, faulty)
            msgs.append(m); log += l; errs += e
        meta = {'log': log, 'errs': errs, 'faulty': nf, 'kind': 'seq'}
        mode = i % 3
        if mode == 2 and max(len(m) for m in msgs) > 250:
            mode = 0
        if mode == 0:
            op = f'RUN echo std {hx(b"".join(msgs))}'
        elif mode == 1:
            op = 'RUN echo std ' + '|'.join(hx(m) for m in msgs)
        else:
            stream = b''.join(msgs)
            sizes, tot = [], 0
            while tot < len(stream):
                sizes.append(rng.randint(1, 12)); tot += sizes[-1]
            op = f'PROC echo 256 {hx(stream)} {",".join(map(str, sizes))}' + (' pend=1' if rng.random() < 0.2 else '')
        out.append(Case(op, oracle, meta))
    return out


def nontrivial(line, case):
    return not line.startswith('bad-op') and case.meta.get('faulty', 1) >= 1
