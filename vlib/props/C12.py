"""C12 — parser verdicts are final and depend only on the consumed bytes."""
import itertools
from ..common import Case, hx, unhx, is_crash
from .. import gen as G

LEVEL = 'proof'
TRUSTED = ['Lean 4 kernel; axioms propext, Classical.choice, Quot.sound only',
           'correspondence harness + driver (differential testing; covers only generated cases)']
RULE = ('PARSE ops calling microscpi::parser::parse directly, from several start nodes: exhaustive strings over a class-representative alphabet; '
        '(x, x++y) pairs cut at every position of rendered messages and with random/class-representative continuations; all prefixes of inputs. '
        'Relational oracle on the implementation: accepted => same call, rest grows by y, at least one byte consumed; error on newline-terminated '
        'input => no continuation accepted; incomplete => no prefix accepted. non-trivial = distinct executed op')
EXPLANATION = 'prefix determinacy / finality of parse (theorems); tie by PARSE ops; oracle relational on the implementation'

ALPHA = [b'X', b'Q', b'1', b'e', b'+', b'.', b'#', b'H', b"'", b'"', b'*', b':', b';', b',', b'?', b' ', b'\n', b'\xff', b'\xc3']


def kind(line):
    return line.split(' ')[0].split(':')[0]


def parse_ok(line):
    """-> (restlen, remainder of the line describing the call)"""
    t = line.split(' ', 2)
    return int(t[1]), t[2] if len(t) > 2 else ''


def single(line, case):
    if is_crash(line):
        return 'crash'
    if case.meta.get('closed_unit') and line == 'inc':
        return 'the input is a complete (closed string, terminated) unit, not the beginning of one: it may be refused but not be incomplete'
    if line.startswith('ok '):
        rest, _ = parse_ok(line)
        if rest >= case.meta['len']:
            return 'an accepted unit must consume at least one byte'
    return None


def relational(cases, impl):
    fails = []
    groups = {}
    for i, c in enumerate(cases):
        g = c.meta.get('group')
        if g is not None:
            groups.setdefault(g, []).append(i)
    for g, idx in groups.items():
        base = [i for i in idx if cases[i].meta['role'] == 'x']
        if not base:
            continue
        b = base[0]
        lx = impl[b]
        x = cases[b].meta['data']
        for i in idx:
            role = cases[i].meta['role']
            li = impl[i]
            if is_crash(li) or is_crash(lx):
                continue
            if role == 'xy':
                y = cases[i].meta['y']
                if lx.startswith('ok '):
                    r, call = parse_ok(lx)
                    if not li.startswith('ok '):
                        fails.append((i, f'parse accepted x ({lx}) but not x++y ({li})')); break
                    r2, call2 = parse_ok(li)
                    if call2 != call or r2 != r + len(y):
                        fails.append((i, f'appending bytes changed the accepted unit: {lx} vs {li}')); break
                if li.startswith('ok ') and not lx.startswith('ok '):
                    r2, _c2 = parse_ok(li)
                    if r2 >= len(y):
                        fails.append((i, f'x++y is accepted and the unit ends inside x (rest {r2} >= |y| = {len(y)}), so the verdict is determined by bytes of x, '
                                         f'yet x alone gives {lx}')); break
                if lx.startswith('ok '):
                    pass
                elif (lx.startswith('soft') or lx.startswith('fatal')) and x.endswith(b'\n'):
                    if li.startswith('ok '):
                        fails.append((i, f'newline-terminated input was rejected ({lx}) but a continuation is accepted ({li})')); break
            elif role == 'prefix':
                if lx == 'inc' and li.startswith('ok '):
                    fails.append((i, f'input is incomplete although its prefix is accepted ({li})')); break
    return fails


def add_group(out, gid, start, x, ys, prefixes):
    out.append(Case(f'PARSE echo {start} {hx(x)}', single, {'group': gid, 'role': 'x', 'data': x, 'len': len(x), 'kind': 'x'}))
    for y in ys:
        out.append(Case(f'PARSE echo {start} {hx(x + y)}', single, {'group': gid, 'role': 'xy', 'y': y, 'len': len(x + y), 'kind': 'xy'}))
    if prefixes:
        for k in range(len(x)):
            out.append(Case(f'PARSE echo {start} {hx(x[:k])}', single, {'group': gid, 'role': 'prefix', 'len': k, 'kind': 'prefix'}))


def corpus_cases(ifaces):
    out = []
    add_group(out, 'corpus-D2', '-', b'STR "abc\n', [b'"\n', b'x"\n', b'\n'], True)
    add_group(out, 'corpus-D2b', '-', b"STR 'a\n", [b"'\n", b"';X\n"], True)
    return out


def cases(tier, rng, ifaces):
    out = []
    echo = ifaces['echo']
    gid = 0
    conts = [b'', b'\n', b';', b'X', b'1', b'e5', b'"', b"'", b' ', b',2', b'?', b':A', b'#', b'5\n', b'"\n', b';X\n', b'\xff', b'.5', b'E+3\n', b'abc"\n']
    heads = [b'X', b'X ', b'STR ', b'BLK ', b'ECHO:F64? ', b'SYST:A;', b'TWO 1,', b'*IDN', b'SET:U8 #', b':', b'']
    maxlen = 3 if tier == 'quick' else 4
    for n in range(0, maxlen + 1):
        for combo in itertools.product(ALPHA, repeat=n):
            x = heads[gid % len(heads)] + b''.join(combo)
            gid += 1
            ys = [conts[(gid + j * 7) % len(conts)] for j in range(2)]
            add_group(out, gid, ['-', 'SYST', 'ECHO'][gid % 3] if gid % 5 == 0 else '-', x, ys, gid % 40 == 0)
    # closed strings that end in a truncated multi-byte character, overlong forms, surrogates
    for bad in (b'caf\xc3', b'\xe2\x82', b'\xf0\x9f\x98', b'\xc0\xaf', b'\xed\xa0\x80', b'a\x80', b'\xf4\x90\x80\x80'):
        for q in (b'"', b"'"):
            gid += 1
            add_group(out, gid, '-', b'STR ' + q + bad + q + b'\n', [b'X\n', b'\xa9' + q + b'\n'], True)
            out[-1 - len(b'STR ' + q + bad + q + b'\n') - 2].meta['closed_unit'] = True
    # rendered messages cut at every position
    nmsg = 120 if tier == 'quick' else 1500
    for _ in range(nmsg):
        d = rng.choice(echo.decls)
        text, _e, _p = G.valid_call(rng, echo, d, newline=True)
        text += rng.choice([b'\n', b';X\n', b' \r\n'])
        cuts = range(len(text) + 1) if len(text) < 40 else sorted(rng.sample(range(len(text) + 1), 30))
        for k in cuts:
            gid += 1
            x, y = text[:k], text[k:]
            add_group(out, gid, '-', x, [y, rng.choice(conts), bytes(rng.randrange(256) for _ in range(rng.randint(1, 4)))], False)
        gid += 1
        add_group(out, gid, '-', text, [b'X\n'], True)
        # the accepted unit followed by long continuations (13, 20, 64… bytes): nothing but the remainder may change
        d2 = rng.choice(echo.decls)
        t2, _e2, _p2 = G.valid_call(rng, echo, d2, newline=True)
        gid += 1
        add_group(out, gid, '-', text, [b'X' * 13 + b'\n', b' ' * 12, t2 + b'\n' + t2 + b'\n', bytes(rng.randrange(256) for _ in range(rng.randint(13, 80)))], False)
    for unit in (b'BOOL ON\n', b'BOOL OFF;', b'ECHO:BOOL? on\n', b'SET:STR abc\n', b'X\n', b'*IDN?;', b'TWO 1,"a"\n', b'SET:U8 #HFF;', b'BLK #12ab\n', b'SET:F64 1.5e3\n'):
        for n in (1, 11, 12, 13, 14, 31, 32, 33, 100):
            gid += 1
            add_group(out, gid, '-', unit, [b'Z' * n, b'Z' * n + b'\n', b' ' * n, b'1' * n], False)
    return out
