"""C09 — the error queue is a bounded FIFO with IEEE 488.2 overflow semantics."""
import itertools
from ..common import Case, hx, parse_fields, parse_list, is_crash
from .. import gen as G

LEVEL = 'proof'
TRUSTED = ['Lean 4 kernel; axioms propext, Classical.choice, Quot.sound only',
           'heapless::Deque push_back/pop_front/back_mut/len re-stated as list operations (validated by QUEUE ops)',
           'correspondence harness + driver (differential testing; covers only generated cases)']
RULE = ('QUEUE: every sequence over {push -113, push -101, push custom, pop, count} up to the depth bound for each capacity '
        '(exhaustive); ERRTAB; RUN/PROC histories on the error-queue interfaces q1..q4 (capacity 1..4) and echo (10) mixing faults, '
        'custom errors, SYST:ERR?, SYST:ERR:COUN? and valid commands, several per message. non-trivial = distinct op whose '
        'result contains at least one pop/count answer or a response byte')
EXPLANATION = 'queue theorems proved for all capacities and operation sequences; model tied to the code by the ops below'

NUMS = {'-113': 'Undefined header', '-101': 'Invalid character', '-200': 'Execution error', '-350': 'Queue overflow',
        '-115': 'Unexpected number of parameters', '-120': 'Numeric data error', '-104': 'Data type error',
        '-222': 'Data out of range', '-224': 'Illegal parameter value', '-223': 'Too much data', '-310': 'System error'}


def ref_queue(cap, ops):
    """python reference FIFO -> list of answers"""
    q, out = [], []
    for op in ops:
        if op == 'o':
            out.append('o=' + (q.pop(0) if q else 'none'))
        elif op == 'n':
            out.append(f'n={len(q)}')
        else:
            e = op[1:] if op[0] == 'p' else op
            if len(q) < cap:
                q.append(e)
            elif q:
                q[-1] = '-350'
    return out


def queue_oracle(line, case):
    if is_crash(line):
        return 'queue operation crashed'
    exp = '[' + ','.join(ref_queue(case.meta['cap'], case.meta['ops'])) + ']'
    if line != exp:
        return f'reference bounded FIFO answers {exp}'
    return None


ERRTAB_EXPECT = None


def history_oracle(line, case):
    """End-to-end history: replay the expected queue in python from the errors the
    implementation itself reported (errs=), check every SYST:ERR answer."""
    if is_crash(line):
        return 'crash'
    f = parse_fields(line)
    errs = parse_list(f.get('errs', '[]'))
    cap = case.meta['cap']
    # expected sequence of events is known from the generator
    q = []
    exp_out = b''
    ei = 0
    for ev in case.meta['events']:
        if ev[0] == 'err':
            if ei >= len(errs):
                return f'expected an error for {ev}, implementation reported only {errs}'
            e = errs[ei]; ei += 1
            if ev[1] is not None and e != ev[1]:
                return f'expected error {ev[1]}, implementation reported {e}'
            if len(q) < cap:
                q.append(e)
            elif q:
                q[-1] = '-350'
        elif ev[0] == 'next':
            if q:
                e = q.pop(0)
                if e.startswith('c'):
                    num, d = e[1:].split(':')
                    desc = bytes.fromhex(d) if d != '-' else b''
                else:
                    num = e
                    desc = NUMS.get(e, None)
                    if desc is None:
                        return None
                    desc = desc.encode()
                exp_out += num.encode() + b',"' + desc.replace(b'"', b'""') + b'"\n'
            else:
                exp_out += b'0,""\n'
        elif ev[0] == 'count':
            exp_out += str(len(q)).encode() + b'\n'
        elif ev[0] == 'out':
            exp_out += ev[1]
    if ei != len(errs):
        return f'implementation reported {len(errs)} errors, the history has {ei}'
    got = f.get('out', '-')
    if 'tr' in f:   # PROC: concatenate W events
        got = ''.join(t[2:] for t in parse_list(f['tr']) if t.startswith('W:'))
        got = got or '-'
    if got != hx(exp_out):
        return f'expected responses {exp_out!r}'
    expq = '[' + ','.join(q) + ']'
    if f.get('q') != expq:
        return f'expected final queue {expq}'
    return None


def gen_history(rng, name, cap, n_msgs):
    """messages over the q-interfaces: OK, VAL?, FAIL, CUST, ARG (arity fault), NOPE (undefined), ARG 999 (-120), SYST:ERR?, SYST:ERR:COUN?,
    *IDN? — units after the first are absolute (leading colon) or relative to the path the previous unit left (root, SYST or SYST:ERR)"""
    events = []
    msgs = []
    for _ in range(n_msgs):
        units = []
        k = rng.choice([1, 1, 2, 3, 4])
        path = ()
        for ui in range(k):
            r = rng.random()

            def root_unit(text):
                nonlocal path
                rel = path == () and (ui == 0 or rng.random() < 0.5)
                units.append(text if (rel or ui == 0) else ':' + text)
                path = ()

            def sys_unit(levels, q='?', arg=''):
                """levels: mnemonics below SYST, e.g. ['ERR'] or ['ERR', 'NEXT']"""
                nonlocal path
                full = ['SYST'] + levels
                forms = [(':' if ui else rng.choice(['', ':'])) + ':'.join(full)]
                if path == ():
                    forms.append(':'.join(full))
                if path and tuple(full[:len(path)]) == path and len(full) > len(path):
                    forms += [':'.join(full[len(path):])] * 2
                h = rng.choice(forms)
                if rng.random() < 0.3:
                    h = h.lower()
                units.append(h + q + arg)
                path = tuple(full[:-1])

            if r < 0.04:
                # a string with line feeds inside: no event; the units before it must not run a second time when the message
                # reaches `process` behind a complete one
                root_unit(rng.choice(['NOTE "a\nb"', "NOTE 'x\n\ny'", 'NOTE "\n"']))
            elif r < 0.1:
                root_unit('OK')
            elif r < 0.18:
                root_unit('VAL?'); events.append(('out', b'7\n'))
            elif r < 0.28:
                root_unit('FAIL'); events.append(('err', '-200'))
            elif r < 0.36:
                root_unit('CUST'); events.append(('err', 'c42:' + hx('custom')))
            elif r < 0.43:
                root_unit('ARG'); events.append(('err', '-115'))
            elif r < 0.48:
                root_unit('ARG 999'); events.append(('err', '-120'))
            elif r < 0.53:
                root_unit('VAL'); events.append(('err', '-113'))   # command form of a query-only node
            elif r < 0.62:
                units.append(rng.choice(['*IDN?', '*idn?'])); events.append(('out', b'"Q"\n'))   # common command: path untouched
            elif r < 0.67:
                # a parameter on a queue query: wrong parameter count, nothing is removed from the queue
                sys_unit(rng.choice([['ERR'], ['ERR', 'NEXT'], ['ERR', 'COUN']]), arg=' ' + rng.choice(['1', '0', '2'])); events.append(('err', '-115'))
            elif r < 0.84:
                sys_unit(rng.choice([['ERR'], ['ERR', 'NEXT']])); events.append(('next',))
            else:
                sys_unit(['ERR', 'COUN']); events.append(('count',))
        msgs.append(';'.join(units) + '\n')
        if rng.random() < 0.15:      # a parse-level fault: the rest of that message is skipped
            r2 = rng.random()
            if r2 < 0.4:
                msgs.append('NOPE;OK\n'); events.append(('err', '-113'))
            elif r2 < 0.7:
                # a unit below SYST:ERR first, then the fault: the next message must start at the root again
                msgs.append('SYST:ERR:COUN?;NOPE;OK\n'); events.append(('count',)); events.append(('err', '-113'))
            else:
                msgs.append('SYST:ERR?;BOGUS 1 2;OK\n'); events.append(('next',)); events.append(('err', '-113'))
    return msgs, events


def cases(tier, rng, ifaces):
    out = []
    depth = 6 if tier == 'quick' else 8
    alphabet = ['p-113', 'p-101', 'c7:' + hx('x"y'), 'o', 'n']
    for cap in (1, 2, 3, 4, 10):
        d = depth if cap <= 3 else depth - 1
        for n in range(1, d + 1):
            for ops in itertools.product(alphabet, repeat=n):
                if ops[-1] not in ('o', 'n'):
                    continue
                out.append(Case(f"QUEUE {cap} {','.join(ops)}", queue_oracle, {'cap': cap, 'ops': list(ops), 'kind': 'QUEUE'}))
    out.append(Case('ERRTAB', None, {'kind': 'ERRTAB'}))
    n_hist = 300 if tier == 'quick' else 3000
    for i in range(n_hist):
        name, cap = rng.choice([('q1', 1), ('q2', 2), ('q3', 3), ('q4', 4), ('k1', 3), ('q10', 10)])
        msgs, events = gen_history(rng, name, cap, rng.randint(1, 8))
        if rng.random() < 0.5:
            op = f"RUN {name} std " + '|'.join(hx(m) for m in msgs)
        elif rng.random() < 0.5:
            op = f"RUN {name} std " + hx(''.join(msgs))
        else:
            stream = ''.join(msgs).encode()
            sizes = []
            left = len(stream)
            while left > 0:
                k = rng.randint(1, 9); sizes.append(k); left -= k
            op = f"PROC {name} 256 {hx(stream)} {','.join(map(str, sizes))}"
        out.append(Case(op, history_oracle, {'cap': cap, 'events': events, 'kind': 'HISTORY'}))
    # every count from 0 to 12 on the capacity-10 queue (one and two digits, the full queue, overflow)
    for nfail in range(0, 13):
        msgs = ['FAIL\n'] * nfail + ['SYST:ERR:COUN?\n', 'SYST:ERR?\n', 'SYST:ERR:COUN?\n']
        events = [('err', '-200')] * nfail + [('count',), ('next',), ('count',)]
        out.append(Case("RUN q10 std " + hx(''.join(msgs)), history_oracle, {'cap': 10, 'events': events, 'kind': 'HISTORY-count'}))
    # a queue that holds more entries than a byte can count (interface q300, capacity 300): counts around 256 and around the capacity
    for nfail in ([255, 256, 257, 300, 303] if tier == 'quick' else [254, 255, 256, 257, 258, 299, 300, 301, 310, 511, 512, 600]):
        msgs = ['FAIL\n'] * nfail + ['SYST:ERR:COUN?\n', 'SYST:ERR?\n', 'SYST:ERR:COUN?;:SYST:ERR:COUN?\n']
        events = [('err', '-200')] * nfail + [('count',), ('next',), ('count',), ('count',)]
        for op in ("RUN q300 std " + hx(''.join(msgs)), "PROC q300 256 " + hx(''.join(msgs)) + ' -'):
            out.append(Case(op, history_oracle, {'cap': 300, 'events': events, 'kind': 'HISTORY-big'}))
    return out


def nontrivial(line, case):
    return ('o=' in line) or ('n=' in line) or ('out=' in line and 'out=-' not in line) or 'W:' in line or line.startswith('tab=')
