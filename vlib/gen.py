"""Generators (rendered from an AST of units/headers/literals) and the
independent expectation they carry.  Everything here is written from the wording
of the properties and IEEE 488.2/SCPI, not from the library's code, so that the
expectations can serve as implementation oracles."""
import random, struct
from fractions import Fraction
from . import spell
from .common import IFACES, hx

INT_TYPES = {'u8': (False, 8), 'i8': (True, 8), 'u16': (False, 16), 'i16': (True, 16),
             'u32': (False, 32), 'i32': (True, 32), 'u64': (False, 64), 'i64': (True, 64),
             'usize': (False, 64), 'isize': (True, 64)}
WS_BYTES = [b for b in range(0, 33) if b != 10]


class Decl:
    def __init__(self, idx, cmd, is_async, args, beh):
        self.id = idx
        self.cmd = cmd
        self.is_async = is_async
        self.args = args
        self.beh = beh
        self.query = cmd.endswith('?')
        self.parts, _ = spell.parse_decl(cmd)
        self.spellings = spell.spellings(cmd)


class Iface:
    def __init__(self, name, flags, qcap, procn):
        self.name = name
        self.flags = flags
        self.qcap = qcap
        self.procn = procn
        self.decls = []       # user declarations
        self.std = []         # declarations appended by the macro (cmd strings)

    def finish(self):
        std = []
        if 'S' in self.flags:
            std.append('SYSTem:VERSion?')
        if 'E' in self.flags:
            std += ['SYSTem:ERRor:[NEXT]?', 'SYSTem:ERRor:COUNt?']
        self.std = std
        self.all_cmds = [d.cmd for d in self.decls] + std
        self.all_spellings = [spell.spellings(c) for c in self.all_cmds]
        # every node of the tree: prefixes of spelled paths
        nodes = set()
        for sps in self.all_spellings:
            for (path, _q) in sps:
                for k in range(len(path) + 1):
                    nodes.add(path[:k])
        self.nodes = nodes

    def resolve(self, path, query):
        """-> ('ok', id) | ('noslot',) | ('nonode',) for an upper-case mnemonic path"""
        path = tuple(path)
        if path not in self.nodes or not path:
            return ('nonode',)
        ids = [i for i, sps in enumerate(self.all_spellings) if (path, query) in sps]
        if ids:
            return ('ok', ids[0])
        return ('noslot',)

    def proc_sizes(self):
        return (list(range(1, 25)) + [32, 47, 64, 100, 256]) if self.procn == 'full' else [16, 64, 256]

    def hl_caps(self):
        return (list(range(0, 17)) + [24, 32, 64, 256]) if self.procn == 'full' else [256]


def load_ifaces(path=IFACES):
    out = {}
    cur = None
    for line in open(path):
        t = line.split()
        if not t:
            continue
        if t[0] == 'IFACE':
            cur = Iface(t[1], t[2], int(t[3]), t[4])
        elif t[0] == 'DECL':
            cmd = bytes.fromhex(t[2]).decode()
            args = [] if t[4] == '-' else t[4].split(',')
            cur.decls.append(Decl(int(t[1]), cmd, t[3] == 'async', args, t[5]))
        elif t[0] == 'END':
            cur.finish()
            out[cur.name] = cur
            cur = None
    return out


# ---------------------------------------------------------------------------
# exact decimal -> binary float rounding (independent of Lean and of Rust)

def round_to_float(value: Fraction, mbits: int, ebits: int) -> int:
    """bits of the float nearest to |value| (ties to even), without sign"""
    if value == 0:
        return 0
    bias = (1 << (ebits - 1)) - 1
    emin = 1 - bias
    n, d = value.numerator, value.denominator
    e = n.bit_length() - d.bit_length()
    # floor(log2(value))
    if (n << max(0, -e)) < (d << max(0, e)):
        e -= 1
    e2 = max(e, emin)
    sh = e2 - mbits
    num, den = (n, d << sh) if sh >= 0 else (n << -sh, d)
    q, r = divmod(num, den)
    if 2 * r > den or (2 * r == den and q % 2 == 1):
        q += 1
    if q == 1 << (mbits + 1):
        q >>= 1
        e2 += 1
    if q < (1 << mbits):
        return q
    biased = e2 + bias
    if biased >= (1 << ebits) - 1:
        return ((1 << ebits) - 1) << mbits
    return (biased << mbits) + (q - (1 << mbits))


def parse_decimal_text(text: str) -> Fraction:
    s = text
    neg = False
    if s[0] in '+-':
        neg = s[0] == '-'
        s = s[1:]
    mant, exp = s, 0
    for ch in 'eE':
        if ch in s:
            mant, e = s.split(ch)
            exp = int(e)
            break
    if '.' in mant:
        ip, fp = mant.split('.')
    else:
        ip, fp = mant, ''
    digits = (ip + fp) or '0'
    m = int(digits)
    e10 = exp - len(fp)
    if m == 0:
        return Fraction(0)
    # magnitude shortcuts (exact for binary32/64): 10^(L-1+e10) <= |v| < 10^(L+e10)
    L = len(str(m))
    if L + e10 > 400:
        v = Fraction(10) ** 400
    elif L + e10 < -400:
        v = Fraction(1, 10 ** 400)
    else:
        v = Fraction(m) * (Fraction(10) ** e10)
    return -v if neg else v


def float_bits(text: str, ty: str) -> int:
    v = parse_decimal_text(text)
    mbits, ebits = (23, 8) if ty == 'f32' else (52, 11)
    neg = text.startswith('-')
    b = round_to_float(abs(v), mbits, ebits)
    return b | ((1 << (mbits + ebits)) if neg else 0)


def float_value(bits: int, ty: str) -> Fraction:
    mbits, ebits = (23, 8) if ty == 'f32' else (52, 11)
    sign = bits >> (mbits + ebits)
    ex = (bits >> mbits) & ((1 << ebits) - 1)
    fr = bits & ((1 << mbits) - 1)
    bias = (1 << (ebits - 1)) - 1
    if ex == 0:
        v = Fraction(fr) * Fraction(2) ** (1 - bias - mbits)
    else:
        v = Fraction(fr + (1 << mbits)) * Fraction(2) ** (ex - bias - mbits)
    return -v if sign else v


def float_hex(bits, ty):
    return f"{ty}:0x{bits:08x}" if ty == 'f32' else f"{ty}:0x{bits:016x}"


# ---------------------------------------------------------------------------
# literals: (text bytes, expected)  expected = ('ok', tval) | ('err', number)

def rand_case(rng, s: str) -> str:
    return ''.join(c.upper() if rng.random() < 0.5 else c.lower() for c in s)


def int_literal(rng, ty, value=None, radix=None):
    signed, bits = INT_TYPES[ty]
    lo, hi = (-(1 << (bits - 1)), (1 << (bits - 1)) - 1) if signed else (0, (1 << bits) - 1)
    if value is None:
        value = rng.choice([lo, hi, 0, 1, hi - 1, lo + 1, rng.randint(lo, hi), rng.randint(0, min(hi, 300))])
    if radix is None:
        radix = rng.choice([10, 10, 10, 16, 8, 2])
    if value < 0:
        radix = 10
    if radix == 10:
        txt = str(abs(value))
        if rng.random() < 0.2:
            txt = '0' * rng.randint(1, 3) + txt
        if value < 0:
            txt = '-' + txt
        elif rng.random() < 0.2:
            txt = '+' + txt
    elif radix == 16:
        txt = '#' + rng.choice('Hh') + rand_case(rng, format(value, 'x'))
    elif radix == 8:
        txt = '#' + rng.choice('Qq') + format(value, 'o')
    else:
        txt = '#' + rng.choice('Bb') + format(value, 'b')
    return txt.encode(), ('ok', f'{ty}:{value}')


def int_out_of_range(rng, ty):
    signed, bits = INT_TYPES[ty]
    lo, hi = (-(1 << (bits - 1)), (1 << (bits - 1)) - 1) if signed else (0, (1 << bits) - 1)
    value = rng.choice([hi + 1, hi + rng.randint(1, 1000), (hi + 1) * 2, (1 << 64) + rng.randint(0, 5),
                        (1 << 70)] + ([lo - 1, lo - rng.randint(1, 1000)] if signed else [-1, -rng.randint(1, 300)]))
    radix = 10 if value < 0 else rng.choice([10, 16, 8, 2])
    if radix == 10:
        txt = str(value)
    elif radix == 16:
        txt = '#H' + format(value, 'X')
    elif radix == 8:
        txt = '#Q' + format(value, 'o')
    else:
        txt = '#B' + format(value, 'b')
    return txt.encode(), ('err', -120)


def decimal_spellings(rng, base: str):
    """a few spellings of the same decimal number"""
    return base


def float_literal(rng, ty):
    kind = rng.random()
    if kind < 0.3:
        txt = str(rng.randint(-10 ** rng.randint(1, 25), 10 ** rng.randint(1, 25)))
    elif kind < 0.6:
        ip = str(rng.randint(0, 10 ** rng.randint(0, 12)))
        fp = ''.join(rng.choice('0123456789') for _ in range(rng.randint(0, 20)))
        txt = rng.choice(['', '-', '+']) + rng.choice([ip + '.' + fp, '.' + (fp or '5'), ip + '.'])
    else:
        mant = str(rng.randint(0, 10 ** rng.randint(1, 20)))
        if rng.random() < 0.5 and len(mant) > 1:
            k = rng.randint(1, len(mant) - 1)
            mant = mant[:k] + '.' + mant[k:]
        emax = 50 if ty == 'f32' else 330
        exp = rng.choice([rng.randint(-emax, emax), rng.randint(-5, 5)])
        txt = rng.choice(['', '-']) + mant + rng.choice('eE') + rng.choice(['', '+'] if exp >= 0 else ['']) + str(exp)
    bits = float_bits(txt, ty)
    return txt.encode(), ('ok', float_hex(bits, ty))


BOOL_TRUE = ['ON', 'on', 'TRUE', 'true', '1']
BOOL_FALSE = ['OFF', 'off', 'FALSE', 'false', '0']


def bool_literal(rng):
    if rng.random() < 0.5:
        return rng.choice(BOOL_TRUE).encode(), ('ok', 'bool:1')
    return rng.choice(BOOL_FALSE).encode(), ('ok', 'bool:0')


PAYLOAD_SPECIALS = [';', ',', ':', '#', ' ', '\t', '\n', '\r', '?', '*', '\x00', '\x7f', 'é', '€', '😀', 'a', 'Z', '0']


def str_payload(rng, quote: str, newline=True, maxlen=12):
    n = rng.randint(0, maxlen)
    other = "'" if quote == '"' else '"'
    pool = [c for c in PAYLOAD_SPECIALS + [other] if c != quote and (newline or c != '\n')]
    return ''.join(rng.choice(pool) for _ in range(n))


def str_literal(rng, newline=True, payload=None):
    quote = rng.choice('\'"')
    if payload is None:
        payload = str_payload(rng, quote, newline)
    if quote in payload:
        quote = "'" if quote == '"' else '"'
        if quote in payload:
            payload = payload.replace(quote, '_')
    raw = payload.encode('utf-8')
    return quote.encode() + raw + quote.encode(), ('ok', 'str:' + hx(raw))


def block_literal(rng, payload=None, newline=True, maxlen=12):
    if payload is None:
        n = rng.randint(0, maxlen)
        pool = [ord(c) for c in ';,:#\'" \t\r?*aZ0'] + [0, 0x7f, 0x80, 0xff] + ([10] if newline else [])
        payload = bytes(rng.choice(pool) if rng.random() < 0.7 else rng.randint(0, 255) for _ in range(n))
        if not newline:
            payload = payload.replace(b'\n', b'.')
    ln = str(len(payload))
    nd = len(ln)
    if rng.random() < 0.25 and nd < 9:
        nd = rng.randint(nd, 9)
    ln = ln.rjust(nd, '0')
    return b'#' + str(nd).encode() + ln.encode() + payload, ('ok', 'bytes:' + hx(payload))


def literal(rng, ty, newline=True):
    if ty in INT_TYPES:
        return int_literal(rng, ty)
    if ty in ('f32', 'f64'):
        return float_literal(rng, ty)
    if ty == 'bool':
        return bool_literal(rng)
    if ty == 'str':
        return str_literal(rng, newline)
    if ty == 'bytes':
        return block_literal(rng, newline=newline)
    raise ValueError(ty)


def mismatched_literal(rng, ty):
    """a well-formed literal that does not fit parameter type `ty` -> (text, ('err', number))"""
    if ty in INT_TYPES:
        r = rng.random()
        if r < 0.5:
            return int_out_of_range(rng, ty)
        if r < 0.7:
            return rng.choice([b'1.5', b'1e3', b'5.', b'.5', b'-0.0', b'1E+2']), ('err', -120)
        return rng.choice([b'"12"', b'ABC', b'#13abc', b"'1'"]), ('err', -104)
    if ty in ('f32', 'f64'):
        return rng.choice([b'"1.5"', b'ABC', b'#H10', b'#B1', b'#Q7', b'#11a']), ('err', -104)
    if ty == 'bool':
        return rng.choice([b'2', b'YES', b'"ON"', b'#H1', b'1.0', b'On', b'#11a', b'-1', b'01']), ('err', -224)
    if ty == 'str':
        return rng.choice([b'12', b'ABC', b'#13abc', b'#HFF', b'1.5']), ('err', -104)
    if ty == 'bytes':
        return rng.choice([b'12', b'ABC', b'"abc"', b'#HFF', b'1.5']), ('err', -104)
    raise ValueError(ty)


# ---------------------------------------------------------------------------
# headers

def spell_part(rng, declared: str, form=None, case=True) -> str:
    f = form or rng.choice(['short', 'long'])
    s = spell.short_form(declared) if f == 'short' else declared
    if s == '':
        s = declared
    return rand_case(rng, s) if case else s.upper()


def render_header(rng, decl_cmd: str, forms=None, omit=None, case=True):
    """-> (list of spelled mnemonics, query) for one spelling of the declaration"""
    parts, query = spell.parse_decl(decl_cmd)
    out = []
    for k, (opt, p) in enumerate(parts):
        if opt and (omit[k] if omit is not None else rng.random() < 0.5):
            continue
        out.append(spell_part(rng, p, None if forms is None else forms[k], case))
    if not out:   # everything optional and omitted: keep the last
        out.append(spell_part(rng, parts[-1][1], None, case))
    return out, query


def ws(rng, lo=0, hi=2, only_space=False):
    n = rng.randint(lo, hi)
    if only_space:
        return b' ' * n
    return bytes(rng.choice(WS_BYTES) if rng.random() < 0.3 else 32 for _ in range(n))


class Unit:
    """One program message unit of a generated message together with what it is expected to do."""
    def __init__(self, text: bytes, expect):
        self.text = text
        self.expect = expect   # ('call', entry) | ('err', n) | ('skip',)


def render_unit(rng, mnemonics, query, arg_texts, absolute=False, spaces=True):
    h = (':' if absolute else '') + ':'.join(mnemonics) + ('?' if query else '')
    t = h.encode()
    if arg_texts:
        t += (ws(rng, 1, 2) if spaces else b' ')
        sep = (ws(rng, 0, 1) + b',' + ws(rng, 0, 1)) if spaces else b','
        t += sep.join(arg_texts)
    return t


def valid_call(rng, iface: Iface, decl: Decl, newline=True, absolute=False, spaces=True, prefix=()):
    """A well-formed unit addressing `decl` -> (text, log entry, mnemonic path as spelled upper)"""
    mn, q = render_header(rng, decl.cmd)
    rel = mn[len(prefix):]
    args = [literal(rng, ty, newline) for ty in decl.args]
    text = render_unit(rng, rel, q, [a[0] for a in args], absolute, spaces)
    entry = f"{decl.id}({','.join(a[1][1] for a in args)})"
    return text, entry, [m.upper() for m in mn]


def decl_errs(decl):
    """errors the handler of `decl` itself raises when invoked (by its declared behaviour)"""
    b = decl.beh
    if b.startswith('errc:'):
        _, n, d = b.split(':')
        return [f'c{n}:{d}']
    if b.startswith('err:'):
        return [b[4:]]
    return []
