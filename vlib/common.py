"""Shared machinery of the checks: builds, running the implementation harness and
the Lean driver on the same op lines, comparison, proof audit, verdicts,
evidence and replay files."""
import json, os, re, subprocess, sys, time, hashlib

ROOT = os.path.dirname(os.path.dirname(os.path.abspath(__file__)))
LEAN = os.path.join(ROOT, 'lean')
HARNESS = os.path.join(ROOT, 'harness')
IFACES = os.path.join(ROOT, 'ifaces', 'ifaces.txt')
DRIVER_BIN = os.path.join(LEAN, '.lake', 'build', 'bin', 'driver')
HARNESS_BIN = os.path.join(HARNESS, 'target', 'debug', 'harness')
EVIDENCE = os.path.join(ROOT, 'evidence')
REPLAYS = os.path.join(ROOT, 'replays')
CORPUS = os.path.join(ROOT, 'corpus')
KNOWN = os.path.join(ROOT, 'known_findings.json')
ALLOWED_AXIOMS = {'propext', 'Classical.choice', 'Quot.sound'}
ENV = dict(os.environ, CARGO_NET_OFFLINE='true')


def hx(b) -> str:
    if isinstance(b, str):
        b = b.encode('utf-8')
    return bytes(b).hex() if len(b) else '-'


def unhx(s: str) -> bytes:
    return b'' if s == '-' else bytes.fromhex(s)


class BuildError(Exception):
    pass


def sh(cmd, cwd=None, timeout=3600, check=False):
    p = subprocess.run(cmd, cwd=cwd, env=ENV, stdout=subprocess.PIPE, stderr=subprocess.STDOUT,
                       text=True, timeout=timeout)
    if check and p.returncode != 0:
        raise BuildError(f"{' '.join(cmd)} failed:\n{p.stdout[-4000:]}")
    return p.returncode, p.stdout


def build_harness():
    """Rebuild the harness against /repo's current working tree."""
    rc, out = sh([os.path.join(HARNESS, 'build.sh'), IFACES], cwd=HARNESS)
    if rc != 0:
        i = out.find('\nerror')
        err = BuildError("harness build failed:\n" + (out[i:i + 6000] if i >= 0 else out[-6000:]))
        err.full = out
        raise err


FRESH_IFACES = os.path.join(HARNESS, 'fresh_ifaces.txt')
FRESH_BIN = os.path.join(HARNESS, 'target_fresh', 'debug', 'harness')


def build_fresh(seed):
    """Thorough tier: eight fresh random declaration sets (interfaces f0..f7, from the run's seed) are expanded by
    the real attribute macro into a second harness binary.  Returns the interface file."""
    rc, out = sh([sys.executable, os.path.join(ROOT, 'ifaces', 'mk_ifaces.py'), '--fresh', str(seed), FRESH_IFACES])
    if rc != 0:
        raise RuntimeError('mk_ifaces --fresh failed: ' + out[-2000:])
    rc, out = sh([os.path.join(HARNESS, 'build.sh'), FRESH_IFACES, 'fresh'], cwd=HARNESS)
    if rc != 0:
        i = out.find('\nerror')
        err = BuildError("harness build (fresh interfaces) failed:\n" + (out[i:i + 6000] if i >= 0 else out[-6000:]))
        err.full = out
        raise err
    return FRESH_IFACES


def build_lean(targets):
    rc, out = sh(['lake', 'build'] + list(targets), cwd=LEAN)
    return rc == 0, out


# --------------------------------------------------------------------------
# proof audit

def load_registry():
    with open(os.path.join(LEAN, 'props.json')) as f:
        return json.load(f)


FORBIDDEN = re.compile(r'\b(sorry|admit|native_decide|bv_decide|implemented_by|unsafe)\b|^\s*axiom\s|maxHeartbeats\s+0\b')


def strip_comments(src: str) -> str:
    # remove /- ... -/ (nested) and -- ... comments
    out = []
    i, depth = 0, 0
    while i < len(src):
        if src.startswith('/-', i):
            depth += 1; i += 2; continue
        if depth and src.startswith('-/', i):
            depth -= 1; i += 2; continue
        if depth:
            if src[i] == '\n':
                out.append('\n')
            i += 1; continue
        if src.startswith('--', i):
            j = src.find('\n', i)
            i = len(src) if j < 0 else j
            continue
        out.append(src[i]); i += 1
    return ''.join(out)


def source_scan():
    """Forbidden constructs outside comments in every Lean file of the project."""
    hits = []
    for base, _dirs, files in os.walk(LEAN):
        if '.lake' in base:
            continue
        for fn in files:
            if not fn.endswith('.lean'):
                continue
            p = os.path.join(base, fn)
            for ln, line in enumerate(strip_comments(open(p).read()).split('\n'), 1):
                if FORBIDDEN.search(line):
                    hits.append(f"{os.path.relpath(p, LEAN)}:{ln}: {line.strip()}")
    return hits


def audit(prop):
    """Build the property's theorem module and check the axioms of every registered
    theorem. Returns (obligations, discharged, failures[list of str], checker_cmd)."""
    reg = load_registry()
    entry = reg.get(prop, {})
    modules = entry.get('modules', [])
    theorems = entry.get('theorems', [])
    failures = []
    ok, out = build_lean(modules + ['driver'])
    if not ok:
        failures.append('lake build failed: ' + out[-3000:])
        return len(theorems), 0, failures, 'lake build ' + ' '.join(modules)
    hits = source_scan()
    for h in hits:
        failures.append('forbidden construct: ' + h)
    audit_file = os.path.join(LEAN, f'.audit_{prop}.lean')
    with open(audit_file, 'w') as f:
        for m in modules:
            f.write(f'import {m}\n')
        for t in theorems:
            f.write(f'#print axioms {t}\n')
    rc, out = sh(['lake', 'env', 'lean', audit_file], cwd=LEAN)
    os.remove(audit_file)
    discharged = 0
    # parse "'name' depends on axioms: [a, b]" / "'name' does not depend on any axioms"
    seen = {}
    for m in re.finditer(r"^'(\S+)' (does not depend on any axioms|depends on axioms: \[([^\]]*)\])", out, re.M):
        name = m.group(1)
        axs = set() if m.group(3) is None else {a.strip() for a in m.group(3).replace('\n', ' ').split(',') if a.strip()}
        seen[name] = axs
    for t in theorems:
        if t not in seen:
            failures.append(f'theorem {t}: not found / did not check ({out[-500:].strip()})')
            continue
        bad = seen[t] - ALLOWED_AXIOMS
        if bad:
            failures.append(f'theorem {t}: depends on non-standard axioms {sorted(bad)}')
        else:
            discharged += 1
    if rc != 0 and not failures:
        failures.append('audit run failed: ' + out[-2000:])
    return len(theorems), discharged, failures, f"lake build {' '.join(modules)} && lake env lean <#print axioms of {len(theorems)} theorems>"


def leanchecker(prop):
    reg = load_registry()
    fails = []
    for m in reg.get(prop, {}).get('modules', []):
        rc, out = sh(['lake', 'env', 'leanchecker', m], cwd=LEAN, timeout=3600)
        if rc != 0:
            fails.append(f'leanchecker {m}: {out[-1500:]}')
    return fails


# --------------------------------------------------------------------------
# running ops

def run_bin(binary, ops, timeout=1800, ifaces=None):
    data = ''.join(o + '\n' for o in ops)
    try:
        p = subprocess.run([binary, ifaces or IFACES], input=data, env=ENV, stdout=subprocess.PIPE,
                           stderr=subprocess.PIPE, text=True, timeout=timeout)
    except subprocess.TimeoutExpired as e:
        out = (e.stdout or b'')
        if isinstance(out, bytes):
            out = out.decode('utf-8', 'replace')
        lines = out.split('\n')
        if lines and lines[-1] == '':
            lines.pop()
        return lines, 'TIMEOUT'
    lines = p.stdout.split('\n')
    if lines and lines[-1] == '':
        lines.pop()
    status = 'ok' if p.returncode == 0 else f'exit {p.returncode}: {p.stderr[-500:]}'
    return lines, status


def run_impl(ops, binary=None, ifaces=None):
    """Run the implementation harness. If it dies or hangs on some op the run is
    resumed after that op, whose result becomes CRASH / HANG."""
    results = []
    rest = list(ops)
    guard = 0
    while rest:
        lines, status = run_bin(binary or HARNESS_BIN, rest, timeout=600, ifaces=ifaces)
        results.extend(lines[:len(rest)])
        if len(lines) >= len(rest):
            break
        # op number len(lines) killed the process (exit code 3 = the harness' own watchdog: the op hung)
        hung = status == 'TIMEOUT' or status.startswith('exit 3')
        results.append('HANG' if hung else 'CRASH')
        rest = rest[len(lines) + 1:]
        guard += 1
        if guard > 40:
            # too many ops kill the harness: the remaining ones are not run (they count as not answered)
            results.extend(['HANG' if hung else 'CRASH'] * len(rest))
            break
    return results


def run_model(ops, ifaces=None):
    lines, status = run_bin(DRIVER_BIN, ops, ifaces=ifaces)
    if len(lines) != len(ops):
        raise BuildError(f'model driver produced {len(lines)} lines for {len(ops)} ops ({status})')
    return lines


_macro_fail = re.compile(r'^(paths=\[.*\] ins=(?:CommandExists|QueryExists)@\d+) tree=.*$')


def normalise(line: str) -> str:
    """Canonical form used for the model/implementation comparison."""
    if line.startswith('bad-op'):
        return 'bad-op'
    m = _macro_fail.match(line)
    if m:
        return m.group(1)
    return line


# --------------------------------------------------------------------------
# result line parsing (for the oracles)

def parse_fields(line: str) -> dict:
    """'log=[..] out=.. ev=.. errs=[..] rest=[..] q=[..]' -> dict of raw strings"""
    out = {}
    for tok in line.split(' '):
        if '=' in tok:
            k, v = tok.split('=', 1)
            out[k] = v
    return out


def parse_list(s: str, sep=','):
    s = s.strip()
    if s.startswith('[') and s.endswith(']'):
        s = s[1:-1]
    return [x for x in s.split(sep) if x != ''] if s else []


def log_entries(fields):
    return parse_list(fields.get('log', '[]'), ';')


def is_crash(line: str) -> bool:
    return line in ('PANIC', 'CRASH', 'HANG') or line.startswith('PANIC')


# --------------------------------------------------------------------------
# cases, verdict

class Case:
    __slots__ = ('op', 'meta', 'oracle', 'group')

    def __init__(self, op, oracle=None, meta=None, group=None):
        self.op = op          # op line
        self.oracle = oracle  # callable(impl_line, case) -> None | str ; or None
        self.meta = meta or {}
        self.group = group    # key for relational oracles


def load_known():
    if not os.path.exists(KNOWN):
        return {'known': [], 'fixed': []}
    with open(KNOWN) as f:
        return json.load(f)


def _jsonable(o):
    if isinstance(o, (bytes, bytearray)):
        return 'hex:' + bytes(o).hex()
    if isinstance(o, (set, frozenset)):
        return sorted(map(str, o))
    return str(o)


def write_replay(prop, tag, payload):
    os.makedirs(REPLAYS, exist_ok=True)
    text = json.dumps(payload, sort_keys=True, indent=1, default=_jsonable)
    h = hashlib.sha1(text.encode()).hexdigest()[:10]
    path = os.path.join(REPLAYS, f'{prop}_{tag}_{h}.json')
    with open(path, 'w') as f:
        f.write(text)
    return path


def write_evidence(prop, tier, seed, level, coverage, assumptions, wall, violations):
    os.makedirs(EVIDENCE, exist_ok=True)
    ev = {'property_id': prop, 'tier': tier, 'seed': seed, 'level': level, 'coverage': coverage,
          'assumptions': assumptions, 'wall_s': round(wall, 2), 'violations': violations}
    with open(os.path.join(EVIDENCE, f'{prop}.json'), 'w') as f:
        json.dump(ev, f, indent=1)


def corpus_ops(prop):
    d = os.path.join(CORPUS, prop)
    out = []
    if os.path.isdir(d):
        for fn in sorted(os.listdir(d)):
            if fn.endswith('.ops'):
                for line in open(os.path.join(d, fn)):
                    line = line.rstrip('\n')
                    if line and not line.startswith('//'):
                        out.append((fn, line))
    return out


def refused_interfaces(build_log: str, fresh=False):
    """Interfaces of ifaces.txt whose expansion panicked inside the attribute macro (from the cargo log):
    list of {'iface', 'declarations', 'message'}."""
    out = []
    gen = os.path.join(HARNESS, 'src', 'gen_fresh.rs' if fresh else 'gen.rs')
    if 'custom attribute panicked' not in build_log or not os.path.exists(gen):
        return out
    lines = open(gen).read().split('\n')
    mods = []   # (line number, name)
    for i, l in enumerate(lines, 1):
        m = re.match(r'\s*(?:pub\s+)?mod\s+m_([a-z0-9_]+)', l)
        if m:
            mods.append((i, m.group(1)))
    decls = {}
    cur = None
    for l in open(FRESH_IFACES if fresh else IFACES):
        t = l.split()
        if t and t[0] == 'IFACE':
            cur = t[1]; decls[cur] = []
        elif t and t[0] == 'DECL' and cur:
            decls[cur].append(bytes.fromhex(t[2]).decode())
    seen = set()
    for m in re.finditer(r'custom attribute panicked[\s\S]{0,400}?src/gen(?:_fresh)?\.rs:(\d+)[\s\S]{0,600}?message: ([^\n]*)', build_log):
        ln = int(m.group(1))
        name = None
        for (start, nm) in mods:
            if start <= ln:
                name = nm
        if name and name not in seen:
            seen.add(name)
            out.append({'iface': name, 'declarations': decls.get(name, []), 'message': m.group(2).strip()})
    return out
