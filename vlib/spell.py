"""Independent re-statement (from the wording of C01/C14, not from the macro's
code) of what a declaration string spells.  Used as an oracle and by the
generators."""
import itertools

def parse_decl(s: str):
    """-> (parts, query); part = (optional, declared_spelling)"""
    query = s.endswith('?')
    if query:
        s = s[:-1]
    parts = []
    for p in s.split(':'):
        p = p.strip()
        if not p:
            continue
        opt = p.startswith('[') and p.endswith(']') and len(p) >= 2
        if opt:
            p = p[1:-1]
        parts.append((opt, p))
    return parts, query

def short_form(p: str) -> str:
    return ''.join(c for c in p if not ('a' <= c <= 'z'))

def long_form(p: str) -> str:
    return p

def forms(p: str):
    """accepted spellings of one node, upper-cased for comparison"""
    return {short_form(p).upper(), long_form(p).upper()}

def spellings(decl: str):
    """set of (tuple of upper-case mnemonics, query) a declaration can be addressed by"""
    parts, query = parse_decl(decl)
    out = set()
    choices = []
    for opt, p in parts:
        c = [(f,) for f in sorted(forms(p))]
        if opt:
            c.append(())
        choices.append(c)
    for combo in itertools.product(*choices):
        path = tuple(x for t in combo for x in t)
        out.add((path, query))
    return out

def match(decls, mnemonics, query):
    """ids of the declarations the header (list of mnemonics, query flag) spells"""
    key = (tuple(m.upper() for m in mnemonics), query)
    return [i for i, d in enumerate(decls) if key in spellings(d)]

def collide(d1: str, d2: str) -> bool:
    return bool(spellings(d1) & spellings(d2))

def set_collides(decls) -> bool:
    seen = {}
    for i, d in enumerate(decls):
        for sp in spellings(d):
            if sp in seen and seen[sp] != i:
                return True
            seen[sp] = i
    return False
