#!/bin/sh
# C13, second half: microscpi with DEFAULT features builds and links without
# the standard library and without a global allocator.
#
# Prints exactly one line on stdout: `nostd=ok` (exit 0) or `nostd=FAIL <reason>`
# (exit 1); details go to stderr and to target/check-*.log.
#
# What is checked, in this order:
#  1. cargo resolves `microscpi` for this crate with no feature enabled
#     (in particular not `std`).
#  2. `cargo build --offline --release` of the crate succeeds.  The crate is
#     `#![no_std]`, has no `#[global_allocator]` and produces two FINAL
#     artifacts, a staticlib and a `#![no_main]` executable.  For a final
#     artifact rustc itself refuses ("no global memory allocator found but one
#     is required") as soon as ANY crate of the dependency graph links the
#     `alloc` crate, whether or not an allocation is reachable.
#  3. The static library contains no object of the `alloc` or `std` crates and
#     no symbol of the allocator interface (`__rust_alloc`, `__rust_dealloc`,
#     `__rust_realloc`, `__rust_alloc_zeroed`, `__rg_*`, `__rdl_*`), defined or
#     undefined, in any member; and the members of microscpi / heapless /
#     hash32 / byteorder / this crate are readable by nm (so the scan is not
#     vacuous).  This still fails when somebody adds a global allocator to the
#     test crate to get past step 2.
#  4. The executable really linked (libc only): its undefined dynamic symbols
#     are a subset of the C start-up and mem* functions.
#  5. The executable runs and exits 0, i.e. `run` (heapless::Vec<u8, 64>
#     writer) and `process::<32, _>` of the no_std build produce the expected
#     responses.
#
# Uses only /verif/harness/nostd/target; touches nothing else.
set -u
HERE="$(cd "$(dirname "$0")" && pwd)"
TARGET="/verif/harness/nostd/target"
MANIFEST="$HERE/Cargo.toml"
export CARGO_NET_OFFLINE=true

fail() {
    echo "nostd=FAIL $1"
    exit 1
}

cd "$HERE" || fail "cd"
mkdir -p "$TARGET" || fail "target-dir"
if [ ! -f Cargo.lock ]; then
    cp /repo/Cargo.lock Cargo.lock && chmod u+w Cargo.lock || fail "lockfile"
fi
command -v nm >/dev/null 2>&1 || fail "no-nm"
command -v ar >/dev/null 2>&1 || fail "no-ar"

# 1. features of microscpi as resolved for this crate
FEATURES="$(cargo metadata --offline --format-version 1 --manifest-path "$MANIFEST" 2>"$TARGET/check-metadata.log" \
    | python3 -c '
import json, sys
meta = json.load(sys.stdin)
names = {p["id"]: p["name"] for p in meta["packages"]}
nodes = [n for n in meta["resolve"]["nodes"] if names.get(n["id"]) == "microscpi"]
if len(nodes) != 1:
    print("?unresolved")
else:
    print(",".join(sorted(nodes[0]["features"])) or "-")
')" || fail "metadata"
[ "$FEATURES" = "-" ] || fail "microscpi-features:$FEATURES"

# 2. build (staticlib + executable)
if ! cargo build --offline --release --manifest-path "$MANIFEST" --target-dir "$TARGET" \
        >"$TARGET/check-build.log" 2>&1; then
    grep -E '^error' -A6 "$TARGET/check-build.log" | head -40 >&2
    if grep -q 'no global memory allocator found' "$TARGET/check-build.log"; then
        fail "allocator-required"
    fi
    if grep -q "can't find crate for \`std\`\|requires \`std\`" "$TARGET/check-build.log"; then
        fail "std-required"
    fi
    fail "build"
fi
LIB="$TARGET/release/libnostd_check.a"
BIN="$TARGET/release/nostd-run"
[ -f "$LIB" ] || fail "no-staticlib"
[ -x "$BIN" ] || fail "no-executable"

# 3. static library: members and symbols
ar t "$LIB" > "$TARGET/check-members.log" 2>&1 || fail "ar"
if grep -E '^(alloc|std)-' "$TARGET/check-members.log" >&2; then
    fail "alloc-or-std-object-in-staticlib"
fi
# (core and compiler_builtins come precompiled from the toolchain in a format
# the system nm may not read; that only produces messages on stderr.)
nm -A "$LIB" > "$TARGET/check-nm.log" 2>/dev/null
for member in microscpi nostd_check; do
    count="$(grep -c -E "^[^:]*:${member}-[0-9a-f]+\." "$TARGET/check-nm.log")"
    [ "$count" -gt 0 ] || fail "nm-cannot-read-$member"
done
ALLOC_RE='__rust_alloc|__rust_dealloc|__rust_realloc|__rust_alloc_zeroed|__rust_alloc_error_handler|__rust_no_alloc_shim|__rg_|__rdl_'
if grep -q -E "$ALLOC_RE" "$TARGET/check-nm.log"; then
    grep -E "$ALLOC_RE" "$TARGET/check-nm.log" | head -20 >&2
    fail "allocator-symbols-in-staticlib"
fi

# 4. executable: what it still needs from outside
nm -D --undefined-only "$BIN" > "$TARGET/check-bin-undefined.log" 2>&1 || fail "nm-bin"
EXTRA="$(awk '{print $NF}' "$TARGET/check-bin-undefined.log" | sed 's/@.*//' \
    | grep -v -x -E '__libc_start_main|__cxa_finalize|__gmon_start__|_ITM_deregisterTMCloneTable|_ITM_registerTMCloneTable|memcpy|memmove|memset|memcmp|bcmp|strlen|abort' \
    | tr '\n' ',')"
[ -z "$EXTRA" ] || fail "executable-needs:$EXTRA"
if nm "$BIN" 2>/dev/null | grep -E "$ALLOC_RE" >&2; then
    fail "allocator-symbols-in-executable"
fi

# 5. run it
"$BIN" >/dev/null 2>&1
status=$?
[ "$status" -eq 0 ] || fail "run-exit-$status"

echo "nostd=ok"
exit 0
