//! C13 link check: an SCPI interface built with the attribute macro, driven
//! through `run` and `process` without `std`, without `alloc` and without a
//! global allocator.  Nothing here may name `alloc` or `std`.
#![no_std]

use core::future::Future;
use core::pin::pin;
use core::task::{Context, Poll, RawWaker, RawWakerVTable, Waker};

use microscpi::{
    Adapter, Arbitrary, Characters, Error, ErrorCommands, ErrorQueue, Interface, StandardCommands,
    StaticErrorQueue,
};

#[cfg(not(test))]
#[panic_handler]
fn panic(_info: &core::panic::PanicInfo) -> ! {
    loop {
        core::hint::spin_loop();
    }
}

// ---------------------------------------------------------------------------
// executor: core only

fn noop_raw_waker() -> RawWaker {
    fn clone(_: *const ()) -> RawWaker {
        noop_raw_waker()
    }
    fn noop(_: *const ()) {}
    static VTABLE: RawWakerVTable = RawWakerVTable::new(clone, noop, noop, noop);
    RawWaker::new(core::ptr::null(), &VTABLE)
}

/// Polls the future with a no-op waker until it is ready.
pub fn block_on<F: Future>(fut: F) -> F::Output {
    let mut fut = pin!(fut);
    // Safety: every function of the vtable ignores the data pointer.
    let waker = unsafe { Waker::from_raw(noop_raw_waker()) };
    let mut cx = Context::from_waker(&waker);
    loop {
        if let Poll::Ready(value) = fut.as_mut().poll(&mut cx) {
            return value;
        }
    }
}

/// Returns `Pending` once before completing, so that the state machines of
/// `run` / `process` are really suspended and resumed.
struct YieldOnce(bool);

impl Future for YieldOnce {
    type Output = ();

    fn poll(mut self: core::pin::Pin<&mut Self>, cx: &mut Context<'_>) -> Poll<()> {
        if self.0 {
            Poll::Ready(())
        }
        else {
            self.0 = true;
            cx.waker().wake_by_ref();
            Poll::Pending
        }
    }
}

// ---------------------------------------------------------------------------
// interface

#[derive(Default)]
pub struct Device {
    volt: f64,
    count: u32,
    queue: StaticErrorQueue<4>,
}

impl ErrorCommands for Device {
    fn error_queue(&mut self) -> &mut impl ErrorQueue {
        &mut self.queue
    }
}

impl StandardCommands for Device {}

#[microscpi::interface(StandardCommands, ErrorCommands)]
impl Device {
    #[scpi(cmd = "*IDN?")]
    async fn idn(&mut self) -> Result<&'static str, Error> {
        YieldOnce(false).await;
        Ok("NOSTD,CHECK,1,1.0")
    }

    #[scpi(cmd = "*RST")]
    fn rst(&mut self) -> Result<(), Error> {
        self.volt = 0.0;
        self.count = 0;
        Ok(())
    }

    #[scpi(cmd = "[SOURce]:VOLTage:[LEVel]")]
    async fn set_volt(&mut self, value: f64) -> Result<(), Error> {
        if !(0.0..=10.0).contains(&value) {
            return Err(Error::DataOutOfRange);
        }
        self.volt = value;
        self.count += 1;
        Ok(())
    }

    #[scpi(cmd = "[SOURce]:VOLTage:[LEVel]?")]
    fn get_volt(&mut self) -> Result<f64, Error> {
        Ok(self.volt)
    }

    #[scpi(cmd = "COUNt?")]
    fn get_count(&mut self) -> Result<u32, Error> {
        Ok(self.count)
    }

    #[scpi(cmd = "ECHO?")]
    async fn echo<'a>(&mut self, n: i32, text: &'a str, on: bool) -> Result<(i32, &'a str, bool), Error> {
        Ok((n, text, on))
    }

    #[scpi(cmd = "BLOCk?")]
    fn block<'a>(&mut self, data: &'a [u8]) -> Result<Arbitrary<'a>, Error> {
        Ok(Arbitrary(data))
    }

    #[scpi(cmd = "MODE?")]
    fn mode(&mut self) -> Result<Characters<'static>, Error> {
        Ok(Characters("VOLT"))
    }

    #[scpi(cmd = "FAIL")]
    fn fail(&mut self) -> Result<(), Error> {
        Err(Error::Custom(-1234, "custom failure"))
    }
}

// ---------------------------------------------------------------------------
// adapter for `process`

/// Delivers the input in chunks of at most 5 bytes, collects what is written
/// and ends with the transport error `()` when the input is exhausted.
struct SliceAdapter<'a> {
    input: &'a [u8],
    out: heapless::Vec<u8, 256>,
    flushes: usize,
}

impl Adapter for SliceAdapter<'_> {
    type Error = ();

    async fn read(&mut self, dst: &mut [u8]) -> Result<usize, ()> {
        YieldOnce(false).await;
        if self.input.is_empty() {
            return Err(());
        }
        let count = self.input.len().min(dst.len()).min(5);
        dst[..count].copy_from_slice(&self.input[..count]);
        self.input = &self.input[count..];
        Ok(count)
    }

    async fn write(&mut self, src: &[u8]) -> Result<(), ()> {
        self.out.extend_from_slice(src).map_err(|_| ())
    }

    async fn flush(&mut self) -> Result<(), ()> {
        self.flushes += 1;
        Ok(())
    }
}

// ---------------------------------------------------------------------------
// exported entry points

fn copy_out(src: &[u8], out: *mut u8, out_cap: usize) -> usize {
    let count = src.len().min(out_cap);
    if !out.is_null() && count > 0 {
        // Safety: the caller passes a buffer of `out_cap` bytes.
        unsafe { core::ptr::copy_nonoverlapping(src.as_ptr(), out, count) };
    }
    count
}

/// `run` on a fresh interface with a `heapless::Vec<u8, 64>` writer.  Copies
/// the response to `out` (at most `out_cap` bytes) and returns its length.
///
/// # Safety
/// `input` points to `len` readable bytes, `out` to `out_cap` writable bytes.
#[no_mangle]
pub unsafe extern "C" fn nostd_scpi_run(
    input: *const u8, len: usize, out: *mut u8, out_cap: usize,
) -> usize {
    let input: &[u8] = if len == 0 { &[] } else { core::slice::from_raw_parts(input, len) };
    let mut device = Device::default();
    let mut writer: heapless::Vec<u8, 64> = heapless::Vec::new();
    let rest = block_on(device.run(input, &mut writer));
    core::hint::black_box(rest.len());
    copy_out(&writer, out, out_cap)
}

/// `process::<32, _>` on a fresh interface over an adapter that delivers
/// `input` in small chunks.  Copies everything written to the adapter to `out`
/// and returns its length.
///
/// # Safety
/// As for [nostd_scpi_run].
#[no_mangle]
pub unsafe extern "C" fn nostd_scpi_process(
    input: *const u8, len: usize, out: *mut u8, out_cap: usize,
) -> usize {
    let input: &[u8] = if len == 0 { &[] } else { core::slice::from_raw_parts(input, len) };
    let mut device = Device::default();
    let mut adapter = SliceAdapter {
        input,
        out: heapless::Vec::new(),
        flushes: 0,
    };
    let result = block_on(device.process::<32, _>(&mut adapter));
    core::hint::black_box((result.is_err(), adapter.flushes));
    copy_out(&adapter.out, out, out_cap)
}

/// The program messages used by the executable (and by anyone linking the
/// static library who wants a smoke test).  Every line is shorter than the 32
/// byte command buffer and every message's response fits the 32 byte response
/// buffer of `process::<32, _>`.
pub const DEMO_INPUT: &[u8] = b"*IDN?\n\
VOLT 2.5;:COUN?\n\
SOUR:VOLT:LEV?;:MODE?\n\
VOLT 11\n\
NOPE\n\
FAIL\n\
SYST:ERR?\n\
SYST:ERR:NEXT?\n\
SYST:ERR?\n\
SYST:ERR?\n\
ECHO? -5,\"ab\",ON\n\
BLOC? #13xyz\n\
SYST:VERS?;:SYST:ERR:COUN?\n\
*RST\n";

/// What `process` must write for [DEMO_INPUT].
pub const DEMO_OUTPUT: &[u8] = b"\"NOSTD,CHECK,1,1.0\"\n\
1\n\
2.5\nVOLT\n\
-222,\"Data out of range\"\n\
-113,\"Undefined header\"\n\
-1234,\"custom failure\"\n\
0,\"\"\n\
-5,\"ab\",1\n\
#13xyz\n\
1999.0\n0\n";
