//! Executable form of the link check: `#![no_std]`, `#![no_main]`, C `main`.
//! Exit status 0 iff `run` and `process` of the no_std build produce the
//! expected responses.
#![no_std]
#![no_main]

use nostd_check::{nostd_scpi_process, nostd_scpi_run, DEMO_INPUT, DEMO_OUTPUT};

// The C runtime (crt1.o, `__libc_start_main`) and memcpy/memset/memcmp come
// from libc; nothing else is linked.
#[link(name = "c")]
extern "C" {}

/// The precompiled `core` of the host target is built with unwind tables that
/// name this personality routine; with `panic = "abort"` it is never called.
/// (`std` would define it; there is no `std` here.)
#[no_mangle]
pub extern "C" fn rust_eh_personality() {}

#[no_mangle]
pub extern "C" fn main(_argc: i32, _argv: *const *const u8) -> i32 {
    let mut out = [0u8; 512];

    // process: the whole demo stream through a 32 byte command buffer.
    let n = unsafe { nostd_scpi_process(DEMO_INPUT.as_ptr(), DEMO_INPUT.len(), out.as_mut_ptr(), out.len()) };
    if &out[..n] != DEMO_OUTPUT {
        return 1;
    }

    // run: one message whose response fits the 64 byte writer.
    let msg = b"VOLT 1.25;VOLT?;:COUN?;*IDN?\n";
    let n = unsafe { nostd_scpi_run(msg.as_ptr(), msg.len(), out.as_mut_ptr(), out.len()) };
    if &out[..n] != b"1.25\n1\n\"NOSTD,CHECK,1,1.0\"\n" {
        return 2;
    }

    // run: the response does not fit 64 bytes; the writer fails, nothing grows.
    let msg = b"*IDN?;*IDN?;*IDN?;*IDN?;*IDN?\n";
    let n = unsafe { nostd_scpi_run(msg.as_ptr(), msg.len(), out.as_mut_ptr(), out.len()) };
    if n > 64 {
        return 3;
    }
    0
}
