#!/usr/bin/env python3
"""gen_ifaces.py <ifaces.txt> <out.rs>

Generates the Rust source (src/gen.rs) of the correspondence harness from the
interface specification file described in /verif/PROTOCOL.md, section 1.
Standard library only.
"""
import re
import sys

INT_TYPES = ["u8", "i8", "u16", "i16", "u32", "i32", "u64", "i64", "usize", "isize"]
ARG_TYPES = INT_TYPES + ["f32", "f64", "bool", "str", "bytes"]

PROC_FULL = list(range(1, 25)) + [32, 47, 64, 100, 256]
PROC_BASIC = [16, 64, 256]
HL_FULL = list(range(0, 17)) + [24, 32, 64, 256]
HL_BASIC = [256]
QCAPS = [1, 2, 3, 4, 10, 300]

INT_RANGE = {
    "u8": (0, 2**8 - 1), "i8": (-2**7, 2**7 - 1),
    "u16": (0, 2**16 - 1), "i16": (-2**15, 2**15 - 1),
    "u32": (0, 2**32 - 1), "i32": (-2**31, 2**31 - 1),
    "u64": (0, 2**64 - 1), "i64": (-2**63, 2**63 - 1),
    "usize": (0, 2**64 - 1), "isize": (-2**63, 2**63 - 1),
}


class SpecError(Exception):
    pass


def unhex(s):
    if s == "-":
        return b""
    if not re.fullmatch(r"(?:[0-9a-f]{2})+", s):
        raise SpecError("bad hex: %r" % s)
    return bytes.fromhex(s)


def rust_str(b):
    """Rust `str` literal for the (valid UTF-8) bytes b."""
    try:
        s = b.decode("utf-8")
    except UnicodeDecodeError:
        raise SpecError("not valid UTF-8: %s" % b.hex())
    out = []
    for ch in s:
        o = ord(ch)
        if ch in ('"', "\\"):
            out.append("\\" + ch)
        elif 0x20 <= o < 0x7F:
            out.append(ch)
        else:
            out.append("\\u{%x}" % o)
    return '"' + "".join(out) + '"'


def rust_bytes(b):
    """Rust byte string literal."""
    return 'b"' + "".join("\\x%02x" % c for c in b) + '"'


def fnv1a64(data):
    h = 0xCBF29CE484222325
    for c in data:
        h ^= c
        h = (h * 0x100000001B3) & 0xFFFFFFFFFFFFFFFF
    return h


def normalise(text):
    lines = []
    for line in text.splitlines():
        line = line.strip()
        if not line or line.startswith("//"):
            continue
        lines.append(line)
    return "\n".join(lines)


def parse_spec(text):
    ifaces = []
    cur = None
    for lineno, raw in enumerate(text.splitlines(), 1):
        line = raw.strip()
        if not line or line.startswith("//"):
            continue
        tok = line.split(" ")
        try:
            if tok[0] == "IFACE":
                if cur is not None:
                    raise SpecError("IFACE inside IFACE")
                if len(tok) != 5:
                    raise SpecError("IFACE needs 4 fields")
                name, flags, qcap, procn = tok[1:]
                if not re.fullmatch(r"[a-z0-9_]+", name):
                    raise SpecError("bad name")
                if flags not in ("-", "S", "E", "SE"):
                    raise SpecError("bad flags")
                qcap = int(qcap)
                has_e = "E" in flags
                if has_e and qcap not in QCAPS:
                    raise SpecError("bad qcap")
                if not has_e and qcap != 0:
                    raise SpecError("qcap must be 0 without E")
                if procn not in ("full", "basic"):
                    raise SpecError("bad procn")
                if any(i["name"] == name for i in ifaces):
                    raise SpecError("duplicate interface")
                cur = dict(name=name, S="S" in flags, E=has_e, qcap=qcap,
                           full=(procn == "full"), decls=[])
            elif tok[0] == "DECL":
                if cur is None:
                    raise SpecError("DECL outside IFACE")
                if len(tok) != 6:
                    raise SpecError("DECL needs 5 fields")
                did = int(tok[1])
                if did != len(cur["decls"]):
                    raise SpecError("ids must be 0,1,2,... in order")
                cmd = unhex(tok[2])
                if tok[3] not in ("sync", "async"):
                    raise SpecError("bad sync/async")
                args = [] if tok[4] == "-" else tok[4].split(",")
                for a in args:
                    if a not in ARG_TYPES:
                        raise SpecError("bad argtype %r" % a)
                if len(args) > 10:
                    raise SpecError("more than MAX_ARGS arguments")
                cur["decls"].append(dict(id=did, cmd=cmd, is_async=(tok[3] == "async"),
                                         args=args, beh=tok[5]))
            elif tok[0] == "END":
                if cur is None:
                    raise SpecError("END outside IFACE")
                if not cur["decls"] and not cur["S"] and not cur["E"]:
                    # the attribute macro cannot expand an impl without any command
                    raise SpecError("interface %s has no command at all" % cur["name"])
                ifaces.append(cur)
                cur = None
            else:
                raise SpecError("unknown line")
        except (SpecError, ValueError) as e:
            raise SpecError("line %d: %s: %s" % (lineno, e, raw))
    if cur is not None:
        raise SpecError("missing END")
    return ifaces


def arg_rust_type(t):
    if t == "str":
        return "&'a str"
    if t == "bytes":
        return "&'a [u8]"
    return t


def echo_type_expr(t, var):
    if t == "str":
        return "&'a str", var
    if t == "bytes":
        return "microscpi::Arbitrary<'a>", "microscpi::Arbitrary(%s)" % var
    return t, var


def const_type_expr(vx):
    """Return (rust type, rust expression) of a leaf valexpr."""
    if vx == "unit":
        return "()", "()"
    kind, _, rest = vx.partition(":")
    if kind in INT_TYPES:
        n = int(rest)
        lo, hi = INT_RANGE[kind]
        if not (lo <= n <= hi) or not re.fullmatch(r"-?[0-9]+", rest):
            raise SpecError("integer out of range: %s" % vx)
        return kind, "(%d%s)" % (n, kind)
    if kind in ("f32", "f64"):
        if not re.fullmatch(r"0x[0-9a-f]+", rest):
            raise SpecError("bad float bits: %s" % vx)
        bits = int(rest, 16)
        width = 32 if kind == "f32" else 64
        if bits >= 2**width:
            raise SpecError("float bits too wide: %s" % vx)
        return kind, "%s::from_bits(0x%xu%d)" % (kind, bits, width)
    if kind == "bool":
        if rest not in ("0", "1"):
            raise SpecError("bad bool: %s" % vx)
        return "bool", "true" if rest == "1" else "false"
    if kind == "str":
        return "&'static str", rust_str(unhex(rest))
    if kind == "chars":
        return "microscpi::Characters<'static>", "microscpi::Characters(%s)" % rust_str(unhex(rest))
    if kind == "arb":
        return "microscpi::Arbitrary<'static>", "microscpi::Arbitrary(%s)" % rust_bytes(unhex(rest))
    if kind == "hstr":
        b = unhex(rest)
        if len(b) > 64:
            raise SpecError("hstr longer than 64 bytes")
        return ("heapless::String<64>",
                "heapless::String::<64>::try_from(%s).unwrap()" % rust_str(b))
    if kind == "sstr":
        return "std::string::String", "std::string::String::from(%s)" % rust_str(unhex(rest))
    if kind == "err":
        n = int(rest)
        return "microscpi::Error", "std_error(%d).expect(\"standard error number\")" % n
    if kind == "errc":
        num, _, desc = rest.partition(":")
        return "microscpi::Error", "microscpi::Error::Custom(%d, %s)" % (int(num), rust_str(unhex(desc)))
    raise SpecError("unsupported const valexpr: %s" % vx)


# Interfaces whose name starts with `k` give their last handlers the names of the provided methods of the
# StandardCommands / ErrorCommands traits (legal: inherent methods of the user's type), so that generated code
# which reaches the built-in handlers by plain method syntax would be caught.
CLASH_NAMES = ["system_version", "system_error_next", "system_error_count"]


def gen_handler(d, fname=None):
    args = d["args"]
    beh = d["beh"]
    params = "".join(", a%d: %s" % (i, arg_rust_type(t)) for i, t in enumerate(args))
    needs_lt = any(t in ("str", "bytes") for t in args)
    generics = "<'a>" if needs_lt else ""

    if beh == "unit":
        rty, body = "()", "Ok(())"
    elif beh == "echo":
        if not (1 <= len(args) <= 4):
            raise SpecError("echo needs 1..4 arguments (DECL %d)" % d["id"])
        parts = [echo_type_expr(t, "a%d" % i) for i, t in enumerate(args)]
        if len(parts) == 1:
            rty, expr = parts[0]
        else:
            rty = "(" + ", ".join(p[0] for p in parts) + ")"
            expr = "(" + ", ".join(p[1] for p in parts) + ")"
        body = "Ok(%s)" % expr
    elif beh.startswith("const:"):
        rty, expr = const_type_expr(beh[len("const:"):])
        body = "Ok(%s)" % expr
    elif beh.startswith("errc:"):
        num, _, desc = beh[len("errc:"):].partition(":")
        n = int(num)
        if not (-2**15 <= n < 2**15):
            raise SpecError("custom error number out of i16 range")
        rty = "()"
        body = "Err(microscpi::Error::Custom(%d, %s))" % (n, rust_str(unhex(desc)))
    elif beh.startswith("err:"):
        n = int(beh[len("err:"):])
        rty = "()"
        body = "Err(std_error(%d).expect(\"standard error number\"))" % n
    else:
        raise SpecError("unknown behaviour %r (DECL %d)" % (beh, d["id"]))

    tvals = ", ".join("a%d.tval()" % i for i in range(len(args)))
    out = []
    # other attributes and doc comments around the `scpi` attribute (the macro must find and remove only its own)
    if d["id"] % 4 == 1:
        out.append("        /// Handler of `%s` (a doc comment is an attribute, too)." % (d["cmd"].decode("utf-8", "replace") if isinstance(d["cmd"], bytes) else d["cmd"]).replace("`", "'"))
    if d["id"] % 4 == 2:
        out.append("        #[allow(clippy::too_many_arguments, unused_variables)]")
    out.append("        #[scpi(cmd = %s)]" % rust_str(d["cmd"]))
    if d["id"] % 4 >= 2:
        out.append("        #[inline]")
    out.append("        pub %sfn %s%s(&mut self%s) -> Result<%s, microscpi::Error> {"
               % ("async " if d["is_async"] else "", fname or ("h%d" % d["id"]), generics, params, rty))
    out.append("            if self.quiet {")
    out.append("                self.ncalls += 1;")
    out.append("            }")
    out.append("            else {")
    out.append("                self.log.push(call_entry(%d, &[%s]));" % (d["id"], tvals))
    out.append("            }")
    if d["is_async"]:
        out.append("            if self.pend > 0 {")
        out.append("                pend(self.pend).await;")
        out.append("            }")
    out.append("            %s" % body)
    out.append("        }")
    return "\n".join(out)


def gen_iface(i):
    # Interfaces whose name starts with `g` are declared on a generic struct (`impl<const G: usize> If_x_g<G>`),
    # so that the way the macro copies the generics of the `impl` block is exercised; `If_x` is an alias.
    if i["name"].startswith("g"):
        text = gen_iface_plain(i, "If_" + i["name"] + "_g")
        ty = "If_" + i["name"] + "_g"
        lines = []
        for l in text.split("\n"):
            if l.startswith("    pub struct %s {" % ty):
                l = "    pub struct %s<const G: usize> {" % ty
            elif l.startswith("    impl ") and l.rstrip().endswith(" for %s {" % ty):
                l = l.replace("    impl ", "    impl<const G: usize> ", 1).replace(" for %s {" % ty, " for %s<G> {" % ty)
            elif l.startswith("    impl ") and l.rstrip().endswith(" for %s {}" % ty):
                l = l.replace("    impl ", "    impl<const G: usize> ", 1).replace(" for %s {}" % ty, " for %s<G> {}" % ty)
            elif l.startswith("    impl %s {" % ty):
                l = "    impl<const G: usize> %s<G> {" % ty
            lines.append(l)
        text = "\n".join(lines)
        # the alias is what the rest of the harness uses
        text = text.replace("pub use m_%s::%s;" % (i["name"], ty),
                            "pub type If_%s = m_%s::%s<3>;" % (i["name"], i["name"], ty))
        return text
    return gen_iface_plain(i, "If_" + i["name"])


def gen_iface_plain(i, ty):
    name = i["name"]
    o = []
    o.append("pub mod m_%s {" % name)
    o.append("    #[allow(unused_imports)]")
    o.append("    use crate::support::{call_entry, fmt_err, pend, std_error, RecQueue, TVal, TestIface};")
    o.append("")
    o.append("    #[derive(Default)]")
    o.append("    pub struct %s {" % ty)
    o.append("        pub log: Vec<String>,")
    o.append("        pub errs: Vec<String>,")
    o.append("        pub pend: usize,")
    o.append("        /// Quiet mode (ALLOC ops): count calls and errors instead of recording them.")
    o.append("        pub quiet: bool,")
    o.append("        pub ncalls: usize,")
    o.append("        pub nerrs: usize,")
    if i["E"]:
        o.append("        pub queue: RecQueue<%d>," % i["qcap"])
    o.append("    }")
    o.append("")
    if i["E"]:
        o.append("    impl microscpi::ErrorCommands for %s {" % ty)
        o.append("        fn error_queue(&mut self) -> &mut impl microscpi::ErrorQueue {")
        o.append("            &mut self.queue")
        o.append("        }")
        o.append("    }")
    else:
        o.append("    impl microscpi::ErrorHandler for %s {" % ty)
        o.append("        fn handle_error(&mut self, error: microscpi::Error) {")
        o.append("            if self.quiet {")
        o.append("                self.nerrs += 1;")
        o.append("            }")
        o.append("            else {")
        o.append("                self.errs.push(fmt_err(error));")
        o.append("            }")
        o.append("        }")
        o.append("    }")
    o.append("")
    if i["S"]:
        o.append("    impl microscpi::StandardCommands for %s {}" % ty)
        o.append("")
    flags = []
    if i["S"]:
        flags.append("StandardCommands")
    if i["E"]:
        flags.append("ErrorCommands")
    if len(i["name"]) % 2 == 1:
        flags.reverse()
    attr = "#[microscpi::interface(%s)]" % ", ".join(flags) if flags else "#[microscpi::interface]"
    o.append("    " + attr)
    o.append("    impl %s {" % ty)
    # Ordinary (non-command) items between the handlers, as real `impl` blocks have: the macro must
    # number only the `#[scpi]` functions.
    o.append("        #[allow(dead_code)]")
    o.append("        pub const HELPER_CONST: u8 = 7;")
    o.append("")
    for k, d in enumerate(i["decls"]):
        if k % 3 == 1:
            o.append("        #[allow(dead_code)]")
            o.append("        pub fn helper_%d(&self) -> usize {" % k)
            o.append("            self.log.len() + %d" % k)
            o.append("        }")
            o.append("")
        ck = len(i["decls"]) - 1 - d["id"]
        o.append(gen_handler(d, CLASH_NAMES[ck] if (name.startswith("k") and 0 <= ck < len(CLASH_NAMES)) else None))
        o.append("")
    if o[-1] == "":
        o.pop()
    o.append("    }")
    o.append("")
    o.append("    impl TestIface for %s {" % ty)
    o.append("        fn log(&mut self) -> &mut Vec<String> {")
    o.append("            &mut self.log")
    o.append("        }")
    o.append("        fn errs(&self) -> Vec<String> {")
    if i["E"]:
        o.append("            self.queue.rec.clone()")
    else:
        o.append("            self.errs.clone()")
    o.append("        }")
    o.append("        fn queue(&mut self) -> Vec<String> {")
    if i["E"]:
        o.append("            self.queue.drain()")
    else:
        o.append("            Vec::new()")
    o.append("        }")
    o.append("        fn set_pend(&mut self, k: usize) {")
    o.append("            self.pend = k;")
    o.append("        }")
    o.append("        fn set_quiet(&mut self, quiet: bool) {")
    o.append("            self.quiet = quiet;")
    if i["E"]:
        o.append("            self.queue.quiet = quiet;")
    o.append("        }")
    o.append("    }")
    o.append("}")
    o.append("pub use m_%s::%s;" % (name, ty))
    o.append("")
    return "\n".join(o)


def gen_dispatch(ifaces):
    o = []
    # generic dispatch macro
    o.append("/// Runs the generic function `$f::<If_xxx>($args…)` for the interface selected")
    o.append("/// by name at run time; `$bad` is the value for an unknown interface.")
    o.append("macro_rules! with_iface {")
    o.append("    ($name:expr, $f:ident, $bad:expr $(, $args:expr)* $(,)?) => {")
    o.append("        match $name {")
    for i in ifaces:
        o.append("            \"%s\" => $f::<$crate::gen::If_%s>($($args),*)," % (i["name"], i["name"]))
    o.append("            _ => $bad,")
    o.append("        }")
    o.append("    };")
    o.append("}")
    o.append("pub(crate) use with_iface;")
    o.append("")

    o.append("/// `process` buffer sizes supported by `PROC` for the interface.")
    o.append("pub fn proc_sizes(name: &str) -> Option<&'static [usize]> {")
    o.append("    match name {")
    for i in ifaces:
        o.append("        \"%s\" => Some(&%s)," % (i["name"], "PROC_FULL" if i["full"] else "PROC_BASIC"))
    o.append("        _ => None,")
    o.append("    }")
    o.append("}")
    o.append("pub const PROC_FULL: [usize; %d] = [%s];" % (len(PROC_FULL), ", ".join(map(str, PROC_FULL))))
    o.append("pub const PROC_BASIC: [usize; %d] = [%s];" % (len(PROC_BASIC), ", ".join(map(str, PROC_BASIC))))
    o.append("")

    o.append("/// Whether some handler of the interface allocates by itself (`const:sstr:…`")
    o.append("/// builds a `std::string::String`); `ALLOC` ops refuse such an interface")
    o.append("/// because the count would include the harness's own allocation.")
    o.append("pub fn handlers_allocate(name: &str) -> Option<bool> {")
    o.append("    match name {")
    for i in ifaces:
        allocates = any(d["beh"].startswith("const:sstr:") for d in i["decls"])
        o.append("        \"%s\" => Some(%s)," % (i["name"], "true" if allocates else "false"))
    o.append("        _ => None,")
    o.append("    }")
    o.append("}")
    o.append("")
    o.append("/// RUN: selects interface and writer type.")
    o.append("pub fn run_dispatch(name: &str, writer: WriterSel, req: &RunReq) -> String {")
    o.append("    match name {")
    for i in ifaces:
        ty = "If_" + i["name"]
        o.append("        \"%s\" => match writer {" % i["name"])
        o.append("            WriterSel::Std => run_with::<%s, std::vec::Vec<u8>>(req)," % ty)
        o.append("            WriterSel::Pt => run_with::<%s, Pt>(req)," % ty)
        for cap in (HL_FULL if i["full"] else HL_BASIC):
            o.append("            WriterSel::Hl(%d) => run_with::<%s, heapless::Vec<u8, %d>>(req)," % (cap, ty, cap))
        o.append("            WriterSel::Hl(_) => String::from(\"bad-op writer-unsupported\"),")
        o.append("        },")
    o.append("        _ => String::from(\"bad-op iface\"),")
    o.append("    }")
    o.append("}")
    o.append("")

    o.append("/// PROC: selects interface and buffer size.")
    o.append("pub fn proc_dispatch(name: &str, n: usize, req: &ProcReq) -> String {")
    o.append("    match name {")
    for i in ifaces:
        ty = "If_" + i["name"]
        o.append("        \"%s\" => match n {" % i["name"])
        for n in (PROC_FULL if i["full"] else PROC_BASIC):
            o.append("            %d => proc_with::<%s, %d>(req)," % (n, ty, n))
        o.append("            _ => String::from(\"bad-op size-unsupported\"),")
        o.append("        },")
    o.append("        _ => String::from(\"bad-op iface\"),")
    o.append("    }")
    o.append("}")
    o.append("")
    return "\n".join(o)


def generate(text, src_name):
    ifaces = parse_spec(text)
    if not ifaces:
        raise SpecError("no interfaces")
    o = []
    o.append("// @generated by gen_ifaces.py from %s -- do not edit." % src_name)
    o.append("#![allow(non_camel_case_types, unused_variables, unused_parens, dead_code)]")
    o.append("#![allow(clippy::all)]")
    o.append("")
    o.append("use crate::ops::{proc_with, run_with, ProcReq, RunReq};")
    o.append("use crate::writers::{Pt, WriterSel};")
    o.append("")
    o.append("/// FNV-1a (64 bit) of the normalised specification this file was generated from.")
    o.append("pub const SPEC_HASH: u64 = 0x%016x;" % fnv1a64(normalise(text).encode("utf-8")))
    o.append("pub const IFACE_NAMES: &[&str] = &[%s];" % ", ".join('"%s"' % i["name"] for i in ifaces))
    o.append("")
    for i in ifaces:
        o.append(gen_iface(i))
    o.append(gen_dispatch(ifaces))
    return "\n".join(o)


def main(argv):
    if len(argv) != 3:
        sys.stderr.write(__doc__)
        return 2
    with open(argv[1], "r", encoding="utf-8") as f:
        text = f.read()
    try:
        out = generate(text, argv[1])
    except SpecError as e:
        sys.stderr.write("gen_ifaces.py: %s\n" % e)
        return 1
    with open(argv[2], "w", encoding="utf-8") as f:
        f.write(out)
    return 0


if __name__ == "__main__":
    sys.exit(main(sys.argv))
