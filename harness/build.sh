#!/bin/sh
# Generates src/gen.rs from the interface specification and builds the harness.
# usage: build.sh [ifaces.txt [fresh]]      (default /verif/ifaces/ifaces.txt)
# with `fresh`: generates src/gen_fresh.rs and builds target_fresh/debug/harness (feature `fresh`) — the
# interfaces of a thorough run's fresh declaration sets; the ordinary build is left alone.
set -eu
HERE="$(cd "$(dirname "$0")" && pwd)"
IFACES="${1:-/verif/ifaces/ifaces.txt}"
VARIANT="${2:-}"
GEN=src/gen.rs
TARGET=/verif/harness/target
FEATURES=""
if [ "$VARIANT" = fresh ]; then
    GEN=src/gen_fresh.rs
    TARGET=/verif/harness/target_fresh
    FEATURES="--features fresh"
fi
export CARGO_NET_OFFLINE=true

cd "$HERE"
mkdir -p src

# Only rewrite src/gen.rs when its content changes, so that cargo does not
# rebuild needlessly.
python3 "$HERE/gen_ifaces.py" "$IFACES" "$HERE/$GEN.tmp"
if [ -f "$GEN" ] && cmp -s "$GEN.tmp" "$GEN"; then
    rm -f "$GEN.tmp"
else
    mv "$GEN.tmp" "$GEN"
fi

if [ ! -f Cargo.lock ]; then
    cp /repo/Cargo.lock Cargo.lock
    chmod u+w Cargo.lock
fi

mkdir -p "$TARGET"
if cargo build --offline --manifest-path "$HERE/Cargo.toml" --target-dir "$TARGET" $FEATURES > "$TARGET/macro_src.log" 2>&1; then
    cat "$TARGET/macro_src.log"
    echo "built: $TARGET/debug/harness"
elif grep -q 'microscpi-macros/src/\(command\|tree\)\.rs\|src/ops\.rs\|src/main\.rs' "$TARGET/macro_src.log" \
     && cargo build --offline --manifest-path "$HERE/Cargo.toml" --target-dir "$TARGET" --no-default-features $FEATURES; then
    # the by-path include of the macro crate's internals (or the glue around it) does not build: everything
    # else does.  Only the MACRO op is unavailable (it answers `unavailable…`), which the checks that use it report.
    echo "built WITHOUT the macro crate's sources (see $TARGET/macro_src.log): $TARGET/debug/harness"
else
    cat "$TARGET/macro_src.log"
    exit 101
fi
