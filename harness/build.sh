#!/bin/sh
# Generates src/gen.rs from the interface specification and builds the harness.
# usage: build.sh [ifaces.txt]      (default /verif/ifaces/ifaces.txt)
set -eu
HERE="$(cd "$(dirname "$0")" && pwd)"
IFACES="${1:-/verif/ifaces/ifaces.txt}"
export CARGO_NET_OFFLINE=true

cd "$HERE"
mkdir -p src

# Only rewrite src/gen.rs when its content changes, so that cargo does not
# rebuild needlessly.
python3 "$HERE/gen_ifaces.py" "$IFACES" "$HERE/src/gen.rs.tmp"
if [ -f src/gen.rs ] && cmp -s src/gen.rs.tmp src/gen.rs; then
    rm -f src/gen.rs.tmp
else
    mv src/gen.rs.tmp src/gen.rs
fi

if [ ! -f Cargo.lock ]; then
    cp /repo/Cargo.lock Cargo.lock
    chmod u+w Cargo.lock
fi

cargo build --offline --manifest-path "$HERE/Cargo.toml" --target-dir /verif/harness/target
echo "built: /verif/harness/target/debug/harness"
