#!/bin/sh
# Pipes a few ops of every kind through the harness and prints "op => result".
set -eu
HERE="$(cd "$(dirname "$0")" && pwd)"
BIN="${HARNESS_BIN:-$HERE/target/debug/harness}"
IFACES="${1:-/verif/ifaces/ifaces.txt}"
[ -x "$BIN" ] || "$HERE/build.sh" "$IFACES" >/dev/null

h() { printf '%s' "$1" | od -An -v -tx1 | tr -d ' \n'; }

OPS="$(mktemp)"
RES="$(mktemp)"
trap 'rm -f "$OPS" "$RES"' EXIT

cat > "$OPS" <<OPS_END
// RUN
RUN echo std $(h '*IDN?
')
RUN echo pt $(h 'ECHO:U8? 1;STR? "a""b"
')|$(h 'SYST:ERR?;:ECHO:PAIR? -5,"x"
*RST
FAIL')
RUN echo hl8 $(h '*IDN?
')
RUN echo hl256 $(h 'FAIL;FAIL:CUST;NOPE;:SYST:ERR:COUN?;:SYST:VERS?
')
RUN echo pt $(h 'ECHO:QUAD? -1,#13abc,"s",#HFF;:ECHO:F32? 1.5
') pend=3
RUN q2 std $(h 'FAIL;CUST;ARG;VAL?
')
RUN q2 hl8 $(h 'VAL?
')
RUN t1 pt $(h 'syst:test:a?;a;:bar:bar:bar?
nope
')
RUN t1 std -
RUN nosuch std -
RUN echo hl17 -

// PROC
PROC echo 16 $(h 'ECHO:U8? 1
ECHO:U8? 2
') 5,5,5,5,5
PROC echo 16 $(h 'ECHO:U8? 1
ECHO:U8? 2
') 5,5,5,5,5 fault=1:7
PROC echo 7 $(h 'ECHO:U8? 1
X
') - pend=2
PROC echo 256 $(h '*IDN?;ECHO:STR? "abc"
FAIL
') 0,3,0,100
PROC q1 16 $(h 'FAIL
CUST
*IDN?
') - fault=3:-2
PROC q1 7 - -
PROC t1 64 $(h 'BAR:BAR:BAR?
') 1,1,1
PROC t1 16 - $(yes 0 | head -100001 | paste -sd, -)
PROC t1 64 $(h 'OUTP ON;:OUTP:STAT 0
*CLS') 4 pend=1

// ALLOC (harness only)
ALLOC RUN echo hl64 $(h '*IDN?;FAIL;NOPE;:ECHO:QUAD? -1,#13abc,"s",#HFF;:SYST:ERR?
')|$(h 'ECHO:F64? 1.5
*RST')
ALLOC PROC echo 16 $(h 'ECHO:U8? 1
FAIL:CUST
SYST:ERR?
') 5,5,5,5,5
ALLOC RUN echo std -
SELFTEST alloc
SELFTEST alloc-loud

// PARSE
PARSE echo SYST $(h 'A;BAR
')
PARSE echo - $(h 'ECHO:PAIR? 1,"x"
')
PARSE echo - $(h '
rest')
PARSE echo - $(h '*IDN?')
PARSE echo - $(h 'NOPE
')
PARSE echo - $(h 'BLK #13ab')
PARSE echo - $(h 'X &
')
PARSE t1 SYSTEM/TEST $(h 'a?;')
PARSE t1 SYS -

// TREE
TREE t1
TREE nosuch

// CONV
CONV u8 dec $(h '255')
CONV u8 dec $(h '256')
CONV i16 hex $(h 'ff')
CONV i8 bin $(h '10000000')
CONV u64 oct $(h '777')
CONV f32 dec $(h '1.5')
CONV f64 dec $(h '-2.5e3')
CONV f64 dec $(h '.')
CONV bool chars $(h 'ON')
CONV bool dec $(h '2')
CONV str str $(h 'hi')
CONV str chars $(h 'hi')
CONV bytes arb ff00
CONV u8 str ff
CONV u8 arb ff
CONV u128 dec 31

// RESP
RESP std u8:255
RESP std f32:0x3fc00000
RESP std f64:0x7ff8000000000000
RESP std f64:0xfff0000000000000
RESP std t(i32:-5;t(str:$(h 'a"b');bool:1);f64:0x4024000000000000)
RESP pt t(chars:$(h 'VOLT');arb:$(h 'xyz');unit;hstr:$(h 'h'))
RESP hl4 str:$(h 'abc')
RESP hl4 u32:123456
RESP hl5 str:$(h 'abc')
RESP std hv[u8:1;sstr:$(h 'two');err:-113]
RESP pt sl[]
RESP pt chars:-
RESP std sl[errc:7:$(h 'my err');hv[]]
RESP std arb:-
RESP std hv[u8:0;u8:1;u8:2;u8:3;u8:4;u8:5;u8:6;u8:7;u8:8;u8:9;u8:10;u8:11;u8:12;u8:13;u8:14;u8:15;u8:16]
RESP std t(u8:1)
RESP hl7 u8:1
RESP std u8:256

// QUEUE
QUEUE 2 p-113,p-101,p-200,n,o,o,o
QUEUE 1 c5:$(h 'five'),n,p-100,o,n
QUEUE 10 o,n
QUEUE 5 n
QUEUE 2 p-999

// MACRO
MACRO $(h 'SYSTem:ERRor:[NEXT]?');$(h 'SYSTem:ERRor?')
MACRO $(h '[A]:[A]');$(h 'a')
MACRO $(h '*IDN?');$(h 'MEASure:VOLTage?');$(h 'MEASure:VOLTage')
MACRO -

// ERRTAB / UTF8 / garbage
ERRTAB
UTF8 $(h 'ok')
UTF8 c328
UTF8 -
UTF8 zz
FROB 1 2
SELFTEST panic
UTF8 -
OPS_END

"$BIN" "$IFACES" < "$OPS" > "$RES"

if [ "$(wc -l < "$OPS")" != "$(wc -l < "$RES")" ]; then
    echo "LINE COUNT MISMATCH: $(wc -l < "$OPS") ops, $(wc -l < "$RES") results" >&2
    exit 1
fi
paste -d '\n' "$OPS" "$RES" | awk 'NR % 2 == 1 { op = $0; next } { if (op == "" || op ~ /^\/\//) print op; else { if (length(op) > 400) op = substr(op, 1, 60) " ...(" length(op) " chars)"; r = $0; if (length(r) > 4000) r = substr(r, 1, 60) " ... " substr(r, length(r) - 60) " (" length(r) " chars)"; print op; print "  => " r } }'
