//! Shared helpers: hex, typed values, error formatting, the Pending future,
//! the executor, the recording error queue and the `TestIface` trait.

use core::future::Future;
use core::pin::Pin;
use core::task::{Context, Poll, Waker};

use microscpi::{Error, ErrorQueue, StaticErrorQueue};

// ---------------------------------------------------------------------------
// hex

/// Lowercase hex without separators; the empty byte string is `-`.
pub fn hex(bytes: &[u8]) -> String {
    if bytes.is_empty() {
        return String::from("-");
    }
    let mut s = String::with_capacity(bytes.len() * 2);
    for b in bytes {
        s.push(char::from_digit((b >> 4) as u32, 16).unwrap());
        s.push(char::from_digit((b & 15) as u32, 16).unwrap());
    }
    s
}

/// Inverse of [hex]: only lowercase digits, even length, `-` for empty.
pub fn unhex(s: &str) -> Option<Vec<u8>> {
    if s == "-" {
        return Some(Vec::new());
    }
    let b = s.as_bytes();
    if b.is_empty() || b.len() % 2 != 0 {
        return None;
    }
    fn nib(c: u8) -> Option<u8> {
        match c {
            b'0'..=b'9' => Some(c - b'0'),
            b'a'..=b'f' => Some(c - b'a' + 10),
            _ => None,
        }
    }
    let mut out = Vec::with_capacity(b.len() / 2);
    for pair in b.chunks(2) {
        out.push(nib(pair[0])? << 4 | nib(pair[1])?);
    }
    Some(out)
}

// ---------------------------------------------------------------------------
// errors

/// Every standard error (all variants but `Custom`) in the order of the
/// `number()` match in `microscpi/src/error.rs`.
pub const STD_ERRORS: [Error; 59] = [
    Error::CommandError,
    Error::InvalidCharacter,
    Error::SyntaxError,
    Error::InvalidSeparator,
    Error::DataTypeError,
    Error::GetNotAllowed,
    Error::ParameterNotAllowed,
    Error::MissingParameter,
    Error::CommandHeaderError,
    Error::HeaderSeparatorError,
    Error::ProgramMnemonicTooLong,
    Error::UndefinedHeader,
    Error::HeaderSuffixOutOfRange,
    Error::UnexpectedNumberOfParameters,
    Error::NumericDataError,
    Error::InvalidCharacterInNumber,
    Error::ExponentTooLarge,
    Error::TooManyDigits,
    Error::NumericDataNotAllowed,
    Error::SuffixError,
    Error::InvalidSuffix,
    Error::SuffixTooLong,
    Error::SuffixNotAllowed,
    Error::CharacterDataError,
    Error::InvalidCharacterData,
    Error::CharacterDataTooLong,
    Error::CharacterNotAllowed,
    Error::StringDataError,
    Error::InvalidStringData,
    Error::StringDataNotAllowed,
    Error::BlockDataError,
    Error::InvalidBlockData,
    Error::BlockDataNotAllowed,
    Error::ExpressionError,
    Error::InvalidExpression,
    Error::ExpressionDataNotAllowed,
    Error::ExecutionError,
    Error::InvalidWhileInLocal,
    Error::CommandProtected,
    Error::ParameterError,
    Error::TriggerError,
    Error::SettingsConflict,
    Error::DataOutOfRange,
    Error::TooMuchData,
    Error::IllegalParameterValue,
    Error::OutOfMemory,
    Error::ListsNotSameLength,
    Error::DataCorruptOrStale,
    Error::HardwareError,
    Error::DeviceSpecificError,
    Error::SystemError,
    Error::StorageFault,
    Error::SelfTestFailed,
    Error::CalibrationFailed,
    Error::QueueOverflow,
    Error::CommunicationError,
    Error::InputBufferOverrun,
    Error::TimeoutError,
    Error::QueryError,
];

/// Compile-time guard: this match is exhaustive without a wildcard, so adding
/// a variant to `microscpi::Error` breaks the build until [STD_ERRORS] is
/// updated. Returns whether the variant is listed in [STD_ERRORS].
pub fn std_errors_complete(e: Error) -> bool {
    match e {
        Error::Custom(_, _) => return true,
        Error::CommandError
        | Error::InvalidCharacter
        | Error::SyntaxError
        | Error::InvalidSeparator
        | Error::DataTypeError
        | Error::GetNotAllowed
        | Error::ParameterNotAllowed
        | Error::MissingParameter
        | Error::CommandHeaderError
        | Error::HeaderSeparatorError
        | Error::ProgramMnemonicTooLong
        | Error::UndefinedHeader
        | Error::HeaderSuffixOutOfRange
        | Error::UnexpectedNumberOfParameters
        | Error::NumericDataError
        | Error::InvalidCharacterInNumber
        | Error::ExponentTooLarge
        | Error::TooManyDigits
        | Error::NumericDataNotAllowed
        | Error::SuffixError
        | Error::InvalidSuffix
        | Error::SuffixTooLong
        | Error::SuffixNotAllowed
        | Error::CharacterDataError
        | Error::InvalidCharacterData
        | Error::CharacterDataTooLong
        | Error::CharacterNotAllowed
        | Error::StringDataError
        | Error::InvalidStringData
        | Error::StringDataNotAllowed
        | Error::BlockDataError
        | Error::InvalidBlockData
        | Error::BlockDataNotAllowed
        | Error::ExpressionError
        | Error::InvalidExpression
        | Error::ExpressionDataNotAllowed
        | Error::ExecutionError
        | Error::InvalidWhileInLocal
        | Error::CommandProtected
        | Error::ParameterError
        | Error::TriggerError
        | Error::SettingsConflict
        | Error::DataOutOfRange
        | Error::TooMuchData
        | Error::IllegalParameterValue
        | Error::OutOfMemory
        | Error::ListsNotSameLength
        | Error::DataCorruptOrStale
        | Error::HardwareError
        | Error::DeviceSpecificError
        | Error::SystemError
        | Error::StorageFault
        | Error::SelfTestFailed
        | Error::CalibrationFailed
        | Error::QueueOverflow
        | Error::CommunicationError
        | Error::InputBufferOverrun
        | Error::TimeoutError
        | Error::QueryError => {}
    }
    STD_ERRORS.iter().any(|s| *s == e)
}

/// The standard `microscpi::Error` variant with the given number.
pub fn std_error(num: i16) -> Option<Error> {
    STD_ERRORS.iter().copied().find(|e| e.number() == num)
}

/// `<num>` for standard errors, `c<num>:<hexdesc>` for `Error::Custom`.
pub fn fmt_err(e: Error) -> String {
    match e {
        Error::Custom(num, desc) => format!("c{}:{}", num, hex(desc.as_bytes())),
        other => format!("{}", other.number()),
    }
}

/// Leaks a description so that it can be put into `Error::Custom`.
pub fn leak_str(s: &str) -> &'static str {
    Box::leak(s.to_owned().into_boxed_str())
}

// ---------------------------------------------------------------------------
// typed values

/// `tval` of PROTOCOL.md.
pub trait TVal {
    fn tval(&self) -> String;
}

macro_rules! impl_tval_int {
    ($($t:ident),*) => {
        $(impl TVal for $t {
            fn tval(&self) -> String {
                format!(concat!(stringify!($t), ":{}"), self)
            }
        })*
    };
}

impl_tval_int!(u8, i8, u16, i16, u32, i32, u64, i64, usize, isize);

impl TVal for f32 {
    fn tval(&self) -> String {
        format!("f32:0x{:08x}", self.to_bits())
    }
}

impl TVal for f64 {
    fn tval(&self) -> String {
        format!("f64:0x{:016x}", self.to_bits())
    }
}

impl TVal for bool {
    fn tval(&self) -> String {
        format!("bool:{}", if *self { 1 } else { 0 })
    }
}

impl TVal for &str {
    fn tval(&self) -> String {
        format!("str:{}", hex(self.as_bytes()))
    }
}

impl TVal for &[u8] {
    fn tval(&self) -> String {
        format!("bytes:{}", hex(self))
    }
}

/// `<id>(<tval>,<tval>,…)`
pub fn call_entry(id: usize, args: &[String]) -> String {
    format!("{}({})", id, args.join(","))
}

// ---------------------------------------------------------------------------
// futures

/// A future that returns `Pending` k times (waking itself) before completing.
pub struct Pend(pub usize);

impl Future for Pend {
    type Output = ();

    fn poll(mut self: Pin<&mut Self>, cx: &mut Context<'_>) -> Poll<()> {
        if self.0 > 0 {
            self.0 -= 1;
            cx.waker().wake_by_ref();
            Poll::Pending
        }
        else {
            Poll::Ready(())
        }
    }
}

pub fn pend(k: usize) -> Pend {
    Pend(k)
}

/// Polls the future with a no-op waker until it is ready.
pub fn block_on<F: Future>(fut: F) -> F::Output {
    let mut fut = core::pin::pin!(fut);
    let mut cx = Context::from_waker(Waker::noop());
    loop {
        if let Poll::Ready(value) = fut.as_mut().poll(&mut cx) {
            return value;
        }
    }
}

// ---------------------------------------------------------------------------
// recording error queue

/// An `ErrorQueue` that records every pushed error and delegates to
/// `StaticErrorQueue<N>`.
#[derive(Default)]
pub struct RecQueue<const N: usize> {
    inner: StaticErrorQueue<N>,
    pub rec: Vec<String>,
    /// Quiet mode (`ALLOC` ops): pushed errors are only counted.
    pub quiet: bool,
    pub count: usize,
}

impl<const N: usize> ErrorQueue for RecQueue<N> {
    fn error_count(&self) -> usize {
        self.inner.error_count()
    }

    fn push_error(&mut self, error: Error) {
        if self.quiet {
            self.count += 1;
        }
        else {
            self.rec.push(fmt_err(error));
        }
        self.inner.push_error(error);
    }

    fn pop_error(&mut self) -> Option<Error> {
        self.inner.pop_error()
    }
}

impl<const N: usize> RecQueue<N> {
    /// Pops everything, oldest first.
    pub fn drain(&mut self) -> Vec<String> {
        let mut out = Vec::new();
        while let Some(e) = self.inner.pop_error() {
            out.push(fmt_err(e));
            if out.len() > N + 1 {
                out.push(String::from("!queue-does-not-drain"));
                break;
            }
        }
        out
    }
}

// ---------------------------------------------------------------------------
// interface trait

pub trait TestIface: microscpi::Interface + Default {
    fn log(&mut self) -> &mut Vec<String>;
    fn errs(&self) -> Vec<String>;
    fn queue(&mut self) -> Vec<String>;
    fn set_pend(&mut self, k: usize);
    /// Quiet mode (`ALLOC` ops): handlers, error handler and error queue do
    /// not record anything (they only count), so that nothing in the harness
    /// allocates while the library runs.
    fn set_quiet(&mut self, quiet: bool);
}
