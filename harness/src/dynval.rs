//! RESP: a dynamic value tree written with the real `microscpi::Response` impls.

use microscpi::{Arbitrary, Characters, Error, Response, Write};

use crate::ops::parse_i16;
use crate::support::{block_on, fmt_err, hex, leak_str, std_error, unhex};
use crate::writers::{Pt, TestWriter, WriterSel};

pub const HV_CAP: usize = 16;
pub const HSTR_CAP: usize = 64;
const MAX_DEPTH: usize = 32;

pub enum Dyn {
    U8(u8),
    I8(i8),
    U16(u16),
    I16(i16),
    U32(u32),
    I32(i32),
    U64(u64),
    I64(i64),
    Usize(usize),
    Isize(isize),
    F32(f32),
    F64(f64),
    Bool(bool),
    Unit,
    Chars(String),
    Arb(Vec<u8>),
    Str(String),
    HStr(heapless::String<HSTR_CAP>),
    SStr(std::string::String),
    Err(Error),
    Tuple(Vec<Dyn>),
    HVec(Vec<Dyn>),
    Slice(Vec<Dyn>),
}

/// Reference wrapper used to instantiate the generic `Response` impls of the
/// library (tuples, `heapless::Vec<_, 16>`, `&[_]`) with dynamic elements.
pub struct DynRef<'a>(pub &'a Dyn);

impl Response for DynRef<'_> {
    async fn write_response(&self, f: &mut impl Write) -> Result<(), Error> {
        match self.0 {
            Dyn::U8(v) => <u8 as Response>::write_response(v, f).await,
            Dyn::I8(v) => <i8 as Response>::write_response(v, f).await,
            Dyn::U16(v) => <u16 as Response>::write_response(v, f).await,
            Dyn::I16(v) => <i16 as Response>::write_response(v, f).await,
            Dyn::U32(v) => <u32 as Response>::write_response(v, f).await,
            Dyn::I32(v) => <i32 as Response>::write_response(v, f).await,
            Dyn::U64(v) => <u64 as Response>::write_response(v, f).await,
            Dyn::I64(v) => <i64 as Response>::write_response(v, f).await,
            Dyn::Usize(v) => <usize as Response>::write_response(v, f).await,
            Dyn::Isize(v) => <isize as Response>::write_response(v, f).await,
            Dyn::F32(v) => <f32 as Response>::write_response(v, f).await,
            Dyn::F64(v) => <f64 as Response>::write_response(v, f).await,
            Dyn::Bool(v) => <bool as Response>::write_response(v, f).await,
            Dyn::Unit => <() as Response>::write_response(&(), f).await,
            Dyn::Chars(s) => {
                let value = Characters(s.as_str());
                <Characters<'_> as Response>::write_response(&value, f).await
            }
            Dyn::Arb(b) => {
                let value = Arbitrary(b.as_slice());
                <Arbitrary<'_> as Response>::write_response(&value, f).await
            }
            Dyn::Str(s) => {
                let value: &str = s.as_str();
                <&str as Response>::write_response(&value, f).await
            }
            Dyn::HStr(s) => <heapless::String<HSTR_CAP> as Response>::write_response(s, f).await,
            Dyn::SStr(s) => <std::string::String as Response>::write_response(s, f).await,
            Dyn::Err(e) => <Error as Response>::write_response(e, f).await,
            Dyn::Tuple(items) => match items.as_slice() {
                [a, b] => {
                    let value = (DynRef(a), DynRef(b));
                    Box::pin(<(DynRef<'_>, DynRef<'_>) as Response>::write_response(&value, f)).await
                }
                [a, b, c] => {
                    let value = (DynRef(a), DynRef(b), DynRef(c));
                    Box::pin(<(DynRef<'_>, DynRef<'_>, DynRef<'_>) as Response>::write_response(
                        &value, f,
                    ))
                    .await
                }
                [a, b, c, d] => {
                    let value = (DynRef(a), DynRef(b), DynRef(c), DynRef(d));
                    Box::pin(<(DynRef<'_>, DynRef<'_>, DynRef<'_>, DynRef<'_>) as Response>::write_response(
                        &value, f,
                    ))
                    .await
                }
                // rejected by the parser
                _ => Err(Error::Custom(0, "harness: tuple arity")),
            },
            Dyn::HVec(items) => {
                let mut value: heapless::Vec<DynRef<'_>, HV_CAP> = heapless::Vec::new();
                for item in items {
                    if value.push(DynRef(item)).is_err() {
                        // rejected by the parser
                        return Err(Error::Custom(0, "harness: hv capacity"));
                    }
                }
                Box::pin(<heapless::Vec<DynRef<'_>, HV_CAP> as Response>::write_response(&value, f)).await
            }
            Dyn::Slice(items) => {
                let refs: Vec<DynRef<'_>> = items.iter().map(DynRef).collect();
                let value: &[DynRef<'_>] = refs.as_slice();
                Box::pin(<&[DynRef<'_>] as Response>::write_response(&value, f)).await
            }
        }
    }
}

// ---------------------------------------------------------------------------
// valexpr parser

struct Parser<'s> {
    src: &'s [u8],
    pos: usize,
}

type PResult<T> = Result<T, &'static str>;

fn parse_int<T: core::str::FromStr>(text: &str) -> PResult<T> {
    let digits = text.strip_prefix('-').unwrap_or(text);
    if digits.is_empty() || !digits.bytes().all(|b| b.is_ascii_digit()) {
        return Err("val");
    }
    text.parse().map_err(|_| "val")
}

fn parse_bits(text: &str, max_digits: usize) -> PResult<u64> {
    let digits = text.strip_prefix("0x").ok_or("val")?;
    if digits.is_empty()
        || digits.len() > max_digits
        || !digits.bytes().all(|b| matches!(b, b'0'..=b'9' | b'a'..=b'f'))
    {
        return Err("val");
    }
    u64::from_str_radix(digits, 16).map_err(|_| "val")
}

fn hex_text(text: &str) -> PResult<String> {
    let bytes = unhex(text).ok_or("hex")?;
    String::from_utf8(bytes).map_err(|_| "utf8")
}

fn parse_leaf(text: &str) -> PResult<Dyn> {
    if text == "unit" {
        return Ok(Dyn::Unit);
    }
    let (kind, rest) = text.split_once(':').ok_or("val")?;
    Ok(match kind {
        "u8" => Dyn::U8(parse_int(rest)?),
        "i8" => Dyn::I8(parse_int(rest)?),
        "u16" => Dyn::U16(parse_int(rest)?),
        "i16" => Dyn::I16(parse_int(rest)?),
        "u32" => Dyn::U32(parse_int(rest)?),
        "i32" => Dyn::I32(parse_int(rest)?),
        "u64" => Dyn::U64(parse_int(rest)?),
        "i64" => Dyn::I64(parse_int(rest)?),
        "usize" => Dyn::Usize(parse_int(rest)?),
        "isize" => Dyn::Isize(parse_int(rest)?),
        "f32" => Dyn::F32(f32::from_bits(parse_bits(rest, 8)? as u32)),
        "f64" => Dyn::F64(f64::from_bits(parse_bits(rest, 16)?)),
        "bool" => match rest {
            "0" => Dyn::Bool(false),
            "1" => Dyn::Bool(true),
            _ => return Err("val"),
        },
        "chars" => Dyn::Chars(hex_text(rest)?),
        "arb" => Dyn::Arb(unhex(rest).ok_or("hex")?),
        "str" => Dyn::Str(hex_text(rest)?),
        "sstr" => Dyn::SStr(hex_text(rest)?),
        "hstr" => {
            let text = hex_text(rest)?;
            if text.len() > HSTR_CAP {
                return Err("cap");
            }
            let mut value: heapless::String<HSTR_CAP> = heapless::String::new();
            value.push_str(&text).map_err(|_| "cap")?;
            Dyn::HStr(value)
        }
        "err" => {
            let num = parse_i16(rest).ok_or("err")?;
            Dyn::Err(std_error(num).ok_or("err")?)
        }
        "errc" => {
            let (num, desc) = rest.split_once(':').ok_or("val")?;
            let num = parse_i16(num).ok_or("err")?;
            let desc = hex_text(desc)?;
            Dyn::Err(Error::Custom(num, leak_str(&desc)))
        }
        _ => return Err("val"),
    })
}

impl<'s> Parser<'s> {
    fn starts_with(&self, prefix: &[u8]) -> bool {
        self.src[self.pos..].starts_with(prefix)
    }

    fn value(&mut self, depth: usize) -> PResult<Dyn> {
        if depth > MAX_DEPTH {
            return Err("depth");
        }
        if self.starts_with(b"t(") {
            self.pos += 2;
            let items = self.list(b')', depth)?;
            if !(2..=4).contains(&items.len()) {
                return Err("tuple");
            }
            Ok(Dyn::Tuple(items))
        }
        else if self.starts_with(b"hv[") {
            self.pos += 3;
            let items = self.list(b']', depth)?;
            if items.len() > HV_CAP {
                return Err("cap");
            }
            Ok(Dyn::HVec(items))
        }
        else if self.starts_with(b"sl[") {
            self.pos += 3;
            let items = self.list(b']', depth)?;
            Ok(Dyn::Slice(items))
        }
        else {
            let start = self.pos;
            while self.pos < self.src.len() && !matches!(self.src[self.pos], b';' | b')' | b']' | b'(' | b'[') {
                self.pos += 1;
            }
            let text = core::str::from_utf8(&self.src[start..self.pos]).map_err(|_| "val")?;
            parse_leaf(text)
        }
    }

    /// Elements separated by `;` up to the closing delimiter (consumed).
    fn list(&mut self, close: u8, depth: usize) -> PResult<Vec<Dyn>> {
        let mut items = Vec::new();
        if self.pos < self.src.len() && self.src[self.pos] == close {
            self.pos += 1;
            return Ok(items);
        }
        loop {
            items.push(self.value(depth + 1)?);
            match self.src.get(self.pos) {
                Some(b';') => self.pos += 1,
                Some(c) if *c == close => {
                    self.pos += 1;
                    return Ok(items);
                }
                _ => return Err("val"),
            }
        }
    }
}

pub fn parse_valexpr(text: &str) -> Result<Dyn, &'static str> {
    let mut parser = Parser {
        src: text.as_bytes(),
        pos: 0,
    };
    let value = parser.value(0)?;
    if parser.pos != text.len() {
        return Err("val");
    }
    Ok(value)
}

// ---------------------------------------------------------------------------
// RESP

fn resp_with<W: TestWriter>(value: &Dyn) -> String {
    let mut writer = W::make(0);
    let result = block_on(DynRef(value).write_response(&mut writer));
    format!(
        "res={} out={} ev={}",
        match result {
            Ok(()) => String::from("ok"),
            Err(error) => format!("err:{}", fmt_err(error)),
        },
        hex(&writer.out()),
        writer.ev()
    )
}

macro_rules! resp_hl {
    ($cap:expr, $value:expr, $($n:literal),*) => {
        match $cap {
            $($n => resp_with::<heapless::Vec<u8, $n>>($value),)*
            _ => String::from("bad-op writer"),
        }
    };
}

pub fn op_resp(writer: &str, valexpr: &str) -> String {
    let Some(writer) = WriterSel::parse(writer) else {
        return String::from("bad-op writer");
    };
    let value = match parse_valexpr(valexpr) {
        Ok(value) => value,
        Err(reason) => return format!("bad-op {}", reason),
    };
    match writer {
        WriterSel::Std => resp_with::<std::vec::Vec<u8>>(&value),
        WriterSel::Pt => resp_with::<Pt>(&value),
        WriterSel::Hl(cap) => resp_hl!(
            cap, &value, 0, 1, 2, 3, 4, 5, 6, 7, 8, 9, 10, 11, 12, 13, 14, 15, 16, 24, 32, 64, 256
        ),
    }
}
