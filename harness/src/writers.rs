//! Writers for RUN and RESP: `std`, `hl<cap>` and the pass-through writer `pt`.

use core::fmt::Arguments;

use microscpi::Error;

use crate::support::{hex, pend};

/// Capacities of `hl<cap>` writers known to the protocol.
pub const HL_CAPS: [usize; 21] = [
    0, 1, 2, 3, 4, 5, 6, 7, 8, 9, 10, 11, 12, 13, 14, 15, 16, 24, 32, 64, 256,
];

#[derive(Debug, Clone, Copy, PartialEq)]
pub enum WriterSel {
    Std,
    Hl(usize),
    Pt,
}

impl WriterSel {
    pub fn parse(s: &str) -> Option<WriterSel> {
        match s {
            "std" => Some(WriterSel::Std),
            "pt" => Some(WriterSel::Pt),
            _ => {
                let digits = s.strip_prefix("hl")?;
                if digits.is_empty()
                    || !digits.bytes().all(|b| b.is_ascii_digit())
                    || (digits.len() > 1 && digits.starts_with('0'))
                {
                    return None;
                }
                let cap: usize = digits.parse().ok()?;
                if HL_CAPS.contains(&cap) {
                    Some(WriterSel::Hl(cap))
                }
                else {
                    None
                }
            }
        }
    }
}

/// What the harness needs from a writer besides `microscpi::Write`.
pub trait TestWriter: microscpi::Write {
    fn make(pend: usize) -> Self;
    /// All bytes in the writer (for `pt`: all bytes written).
    fn out(&self) -> Vec<u8>;
    /// The `ev=` field.
    fn ev(&self) -> String;
}

impl TestWriter for std::vec::Vec<u8> {
    fn make(_pend: usize) -> Self {
        Vec::new()
    }

    fn out(&self) -> Vec<u8> {
        self.clone()
    }

    fn ev(&self) -> String {
        String::from("-")
    }
}

impl<const N: usize> TestWriter for heapless::Vec<u8, N> {
    fn make(_pend: usize) -> Self {
        heapless::Vec::new()
    }

    fn out(&self) -> Vec<u8> {
        self.as_slice().to_vec()
    }

    fn ev(&self) -> String {
        String::from("-")
    }
}

/// One recorded call of the pass-through writer.
#[derive(Debug, Clone, PartialEq)]
pub enum PtCall {
    Bytes(Vec<u8>),
    Char(Vec<u8>),
    Str(Vec<u8>),
    Fmt(Vec<u8>),
    Flush,
}

/// Pass-through writer: never fails, records every call.
#[derive(Default)]
pub struct Pt {
    pub pend: usize,
    pub calls: Vec<PtCall>,
}

impl microscpi::Write for Pt {
    async fn write_bytes(&mut self, bytes: &[u8]) -> Result<(), Error> {
        pend(self.pend).await;
        self.calls.push(PtCall::Bytes(bytes.to_vec()));
        Ok(())
    }

    async fn write_char(&mut self, c: char) -> Result<(), Error> {
        pend(self.pend).await;
        // Same byte as the writers of the library produce (`c as u8`).
        self.calls.push(PtCall::Char(vec![c as u8]));
        Ok(())
    }

    async fn write_str(&mut self, s: &str) -> Result<(), Error> {
        pend(self.pend).await;
        self.calls.push(PtCall::Str(s.as_bytes().to_vec()));
        Ok(())
    }

    async fn write_fmt(&mut self, args: Arguments<'_>) -> Result<(), Error> {
        let text = format!("{}", args);
        pend(self.pend).await;
        self.calls.push(PtCall::Fmt(text.into_bytes()));
        Ok(())
    }

    async fn flush(&mut self) -> Result<(), Error> {
        pend(self.pend).await;
        self.calls.push(PtCall::Flush);
        Ok(())
    }
}

impl TestWriter for Pt {
    fn make(pend: usize) -> Self {
        Pt {
            pend,
            calls: Vec::new(),
        }
    }

    fn out(&self) -> Vec<u8> {
        let mut out = Vec::new();
        for call in &self.calls {
            match call {
                PtCall::Bytes(b) | PtCall::Char(b) | PtCall::Str(b) | PtCall::Fmt(b) => {
                    out.extend_from_slice(b)
                }
                PtCall::Flush => {}
            }
        }
        out
    }

    /// `[W:<hex>,F,…]`: maximal runs of consecutive write calls are
    /// concatenated into one `W`; a run without any byte (only zero-length
    /// writes) produces no event; one `F` per flush.
    fn ev(&self) -> String {
        let mut events: Vec<String> = Vec::new();
        let mut run: Vec<u8> = Vec::new();
        for call in &self.calls {
            match call {
                PtCall::Bytes(b) | PtCall::Char(b) | PtCall::Str(b) | PtCall::Fmt(b) => {
                    run.extend_from_slice(b)
                }
                PtCall::Flush => {
                    if !run.is_empty() {
                        events.push(format!("W:{}", hex(&run)));
                        run.clear();
                    }
                    events.push(String::from("F"));
                }
            }
        }
        if !run.is_empty() {
            events.push(format!("W:{}", hex(&run)));
        }
        format!("[{}]", events.join(","))
    }
}
