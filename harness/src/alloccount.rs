//! Counting global allocator for the `ALLOC` ops (see /verif/PROTOCOL.md).
//!
//! Wraps `std::alloc::System`.  While counting is switched on every call of
//! `alloc`, `alloc_zeroed` and `realloc` increments a counter (`dealloc` is
//! not an allocation and is not counted).  The harness is single threaded, so
//! a pair of atomics is enough; the allocator itself never allocates.

use std::alloc::{GlobalAlloc, Layout, System};
use std::sync::atomic::{AtomicBool, AtomicUsize, Ordering};

static ENABLED: AtomicBool = AtomicBool::new(false);
static COUNT: AtomicUsize = AtomicUsize::new(0);

pub struct CountingAlloc;

#[inline]
fn note() {
    if ENABLED.load(Ordering::Relaxed) {
        COUNT.fetch_add(1, Ordering::Relaxed);
    }
}

unsafe impl GlobalAlloc for CountingAlloc {
    unsafe fn alloc(&self, layout: Layout) -> *mut u8 {
        note();
        System.alloc(layout)
    }

    unsafe fn alloc_zeroed(&self, layout: Layout) -> *mut u8 {
        note();
        System.alloc_zeroed(layout)
    }

    unsafe fn realloc(&self, ptr: *mut u8, layout: Layout, new_size: usize) -> *mut u8 {
        note();
        System.realloc(ptr, layout, new_size)
    }

    unsafe fn dealloc(&self, ptr: *mut u8, layout: Layout) {
        System.dealloc(ptr, layout)
    }
}

/// A counted region: counting is on from [Region::enter] until
/// [Region::finish] (or until the region is dropped, e.g. while a panic
/// unwinds through it, so that the flag never stays set).
pub struct Region {
    _private: (),
}

impl Region {
    /// Resets the counter and switches counting on.
    pub fn enter() -> Region {
        COUNT.store(0, Ordering::Relaxed);
        ENABLED.store(true, Ordering::Relaxed);
        Region { _private: () }
    }

    /// Switches counting off and returns the number of allocator calls made
    /// since [Region::enter].
    pub fn finish(self) -> usize {
        ENABLED.store(false, Ordering::Relaxed);
        COUNT.load(Ordering::Relaxed)
        // `self` is dropped here: switches off once more, harmless.
    }
}

impl Drop for Region {
    fn drop(&mut self) {
        ENABLED.store(false, Ordering::Relaxed);
    }
}

/// Switches counting off unconditionally (used after a caught panic).
pub fn reset() {
    ENABLED.store(false, Ordering::Relaxed);
}

/// `SELFTEST alloc`: one call of each counted entry point inside a counted
/// region (`alloc`, `realloc`, `alloc_zeroed`), an empty region and an
/// allocation outside any region.  Prints `alloc=3` iff the counter works.
pub fn selftest() -> String {
    use std::hint::black_box;

    // An empty region counts nothing.
    let empty = Region::enter().finish();

    let region = Region::enter();
    // alloc
    let mut v: Vec<u8> = black_box(Vec::with_capacity(8));
    // realloc (grows the same allocation)
    v.extend_from_slice(black_box(&[0u8; 64]));
    let v = black_box(v);
    // alloc_zeroed
    let z: Vec<u8> = black_box(vec![0u8; black_box(32)]);
    let counted = region.finish();

    // Not counted: outside of a region.
    let outside_before = COUNT.load(Ordering::Relaxed);
    let b = black_box(Box::new(7u8));
    let outside = COUNT.load(Ordering::Relaxed) - outside_before;

    drop((v, z, b));
    format!("alloc={}", empty + counted + outside)
}
