//! The ops of PROTOCOL.md except RESP (see dynval.rs).

use std::collections::{HashMap, VecDeque};
#[cfg(feature = "macro_src")]
use std::rc::Rc;

use microscpi::parser::{self, ParseError};
use microscpi::{Adapter, Error, ErrorQueue, Node, StaticErrorQueue, Value};

use crate::alloccount::Region;
use crate::gen::with_iface;
#[cfg(feature = "macro_src")]
use crate::macro_src;
use crate::support::{block_on, fmt_err, hex, leak_str, pend, std_error, unhex, TVal, TestIface, STD_ERRORS};
use crate::writers::TestWriter;
#[cfg(feature = "macro_src")]
use crate::CommandDefinition;

// ---------------------------------------------------------------------------
// RUN

pub struct RunReq {
    pub inputs: Vec<Vec<u8>>,
    pub pend: usize,
    /// `RUNF`: the inputs go through `run_from` with the header path carried over.
    pub from: bool,
    /// `ALLOC RUN`: quiet mode, the result is the number of heap allocations
    /// made between entering and leaving the `run` calls.
    pub alloc: bool,
}

pub fn run_with<I: TestIface, W: TestWriter>(req: &RunReq) -> String {
    if req.alloc {
        return alloc_run_with::<I, W>(req);
    }
    let mut iface = I::default();
    iface.set_pend(req.pend);
    let mut writer = W::make(req.pend);
    let mut rest: Vec<String> = Vec::new();
    let mut header = iface.root_node();
    for input in &req.inputs {
        let remaining = if req.from {
            block_on(iface.run_from(&mut header, input, &mut writer))
        }
        else {
            block_on(iface.run(input, &mut writer))
        };
        rest.push(remaining.len().to_string());
    }
    let log = iface.log().join(";");
    let errs = iface.errs().join(",");
    let queue = iface.queue().join(",");
    format!(
        "log=[{}] out={} ev={} errs=[{}] rest=[{}] q=[{}]",
        log,
        hex(&writer.out()),
        writer.ev(),
        errs,
        rest.join(","),
        queue
    )
}

/// `ALLOC RUN`: the same calls as [run_with] on a quiet interface; only what
/// happens inside `run` (driven by the allocation-free [block_on]) is counted.
fn alloc_run_with<I: TestIface, W: TestWriter>(req: &RunReq) -> String {
    let mut iface = I::default();
    iface.set_pend(0);
    iface.set_quiet(true);
    let mut writer = W::make(0);
    let mut total: usize = 0;
    for input in &req.inputs {
        let region = Region::enter();
        let remaining = block_on(iface.run(input, &mut writer));
        total += region.finish();
        core::hint::black_box(remaining);
    }
    format!("alloc={}", total)
}

/// `SELFTEST alloc-loud`: positive control for `ALLOC RUN`.  The same counted
/// `run` call on an interface that is *not* quiet: the input `&\n` is an error (-113),
/// the recording error handler builds a `String` and pushes it into a `Vec`
/// from inside `run`, so the counter must see allocations.
pub fn alloc_loud_selftest() -> String {
    fn go<I: TestIface>() -> usize {
        let mut iface = I::default();
        let mut writer: heapless::Vec<u8, 16> = heapless::Vec::new();
        let region = Region::enter();
        let remaining = block_on(iface.run(b"&\n", &mut writer));
        let total = region.finish();
        core::hint::black_box(remaining);
        total
    }
    let total = with_iface!(crate::gen::IFACE_NAMES[0], go, 0);
    if total > 0 {
        String::from("alloc-loud=ok")
    }
    else {
        String::from("alloc-loud=FAIL")
    }
}

// ---------------------------------------------------------------------------
// PROC

pub struct ProcReq {
    pub stream: Vec<u8>,
    pub sched: Vec<usize>,
    pub fault: Option<(usize, i32)>,
    pub pend: usize,
    /// `ALLOC PROC`: quiet mode, the result is the number of heap allocations
    /// made between entering and leaving `process`.
    pub alloc: bool,
}

/// Transport error of the scripted adapter.
#[derive(Debug, Clone, Copy, PartialEq)]
pub enum TransportError {
    Eos,
    Fault(i32),
    Budget,
}

pub const CALL_BUDGET: usize = 100_000;

pub struct ScriptAdapter {
    stream: Vec<u8>,
    pos: usize,
    sched: VecDeque<usize>,
    fault: Option<(usize, i32)>,
    pend: usize,
    calls: usize,
    pub trace: Vec<String>,
    /// Quiet mode (`ALLOC PROC`): successful calls are only counted.
    quiet: bool,
    pub events: usize,
}

impl ScriptAdapter {
    pub fn new(req: &ProcReq) -> ScriptAdapter {
        ScriptAdapter {
            stream: req.stream.clone(),
            pos: 0,
            sched: req.sched.iter().copied().collect(),
            fault: req.fault,
            pend: req.pend,
            calls: 0,
            trace: Vec::new(),
            quiet: req.alloc,
            events: 0,
        }
    }

    /// Counts the call (reads, writes and flushes together, from 0) and
    /// applies the fault and the safety budget.
    fn enter(&mut self) -> Result<(), TransportError> {
        let idx = self.calls;
        self.calls += 1;
        if idx >= CALL_BUDGET {
            return Err(TransportError::Budget);
        }
        if let Some((fault_idx, code)) = self.fault {
            if fault_idx == idx {
                return Err(TransportError::Fault(code));
            }
        }
        Ok(())
    }

    /// Records an event of the trace; in quiet mode the event text is not
    /// even built (the closure is not called).
    fn record(&mut self, event: impl FnOnce() -> String) {
        if self.quiet {
            self.events += 1;
        }
        else {
            self.trace.push(event());
        }
    }
}

impl Adapter for ScriptAdapter {
    type Error = TransportError;

    async fn read(&mut self, dst: &mut [u8]) -> Result<usize, TransportError> {
        if self.pend > 0 {
            pend(self.pend).await;
        }
        self.enter()?;
        let remaining = self.stream.len() - self.pos;
        let count = match self.sched.pop_front() {
            Some(size) => size.min(dst.len()).min(remaining),
            None => {
                if remaining == 0 {
                    return Err(TransportError::Eos);
                }
                dst.len().min(remaining)
            }
        };
        dst[..count].copy_from_slice(&self.stream[self.pos..self.pos + count]);
        self.pos += count;
        let dst_len = dst.len();
        self.record(|| format!("R{}/{}", count, dst_len));
        Ok(count)
    }

    async fn write(&mut self, src: &[u8]) -> Result<(), TransportError> {
        if self.pend > 0 {
            pend(self.pend).await;
        }
        self.enter()?;
        self.record(|| format!("W:{}", hex(src)));
        Ok(())
    }

    async fn flush(&mut self) -> Result<(), TransportError> {
        if self.pend > 0 {
            pend(self.pend).await;
        }
        self.enter()?;
        self.record(|| String::from("F"));
        Ok(())
    }
}

pub fn proc_with<I: TestIface, const N: usize>(req: &ProcReq) -> String {
    if req.alloc {
        return alloc_proc_with::<I, N>(req);
    }
    let mut iface = I::default();
    iface.set_pend(req.pend);
    let mut adapter = ScriptAdapter::new(req);
    let result = block_on(iface.process::<N, ScriptAdapter>(&mut adapter));
    let end = match result {
        Err(TransportError::Eos) => String::from("eos"),
        Err(TransportError::Fault(code)) => format!("fault:{}", code),
        Err(TransportError::Budget) => String::from("budget"),
        // `process` only returns on a transport error.
        Ok(()) => String::from("returned"),
    };
    let log = iface.log().join(";");
    let errs = iface.errs().join(",");
    let queue = iface.queue().join(",");
    format!(
        "tr=[{}] log=[{}] errs=[{}] end={} q=[{}]",
        adapter.trace.join(","),
        log,
        errs,
        end,
        queue
    )
}

/// `ALLOC PROC`: the same call as [proc_with] on a quiet interface and a quiet
/// adapter (its stream and schedule are copied before counting starts).
fn alloc_proc_with<I: TestIface, const N: usize>(req: &ProcReq) -> String {
    let mut iface = I::default();
    iface.set_pend(0);
    iface.set_quiet(true);
    let mut adapter = ScriptAdapter::new(req);
    let region = Region::enter();
    let result = block_on(iface.process::<N, ScriptAdapter>(&mut adapter));
    let total = region.finish();
    core::hint::black_box(result.is_ok());
    format!("alloc={}", total)
}

// ---------------------------------------------------------------------------
// TREE / PARSE

fn root_of<I: TestIface>() -> Option<&'static Node> {
    Some(I::default().root_node())
}

pub fn iface_root(name: &str) -> Option<&'static Node> {
    with_iface!(name, root_of, None)
}

/// `-` for the root (no keys), otherwise the keys joined by `/`.
fn show_path<S: AsRef<str>>(keys: &[S]) -> String {
    if keys.is_empty() {
        String::from("-")
    }
    else {
        keys.iter().map(|k| k.as_ref()).collect::<Vec<&str>>().join("/")
    }
}

/// All nodes with their key path, in depth-first order.
fn collect_nodes(
    node: &'static Node, keys: &mut Vec<&'static str>, out: &mut Vec<(&'static Node, String)>,
) {
    out.push((node, show_path(keys)));
    if keys.len() > 64 {
        return;
    }
    for (key, child) in node.children {
        keys.push(key);
        collect_nodes(child, keys, out);
        keys.pop();
    }
}

fn fmt_id(id: Option<usize>) -> String {
    match id {
        Some(id) => id.to_string(),
        None => String::from("none"),
    }
}

pub fn op_tree(iface: &str) -> String {
    let Some(root) = iface_root(iface) else {
        return String::from("bad-op iface");
    };
    let mut nodes = Vec::new();
    collect_nodes(root, &mut Vec::new(), &mut nodes);
    let mut entries: Vec<(String, String)> = nodes
        .into_iter()
        .map(|(node, path)| {
            let entry = format!("{}:c={}:q={}", path, fmt_id(node.command), fmt_id(node.query));
            (path, entry)
        })
        .collect();
    entries.sort_by(|a, b| a.0.as_bytes().cmp(b.0.as_bytes()));
    let entries: Vec<String> = entries.into_iter().map(|e| e.1).collect();
    format!("tree=[{}]", entries.join(";"))
}

fn value_entry(value: &Value<'_>) -> String {
    match value {
        Value::String(s) => format!("str:{}", hex(s.as_bytes())),
        Value::Characters(s) => format!("chars:{}", hex(s.as_bytes())),
        Value::Decimal(s) => format!("dec:{}", hex(s.as_bytes())),
        Value::Hexadecimal(s) => format!("hex:{}", hex(s.as_bytes())),
        Value::Binary(s) => format!("bin:{}", hex(s.as_bytes())),
        Value::Octal(s) => format!("oct:{}", hex(s.as_bytes())),
        Value::Arbitrary(b) => format!("arb:{}", hex(b)),
    }
}

pub fn op_parse(iface: &str, startpath: &str, input: &[u8]) -> String {
    let Some(root) = iface_root(iface) else {
        return String::from("bad-op iface");
    };

    // Start node: walk the given keys from the root (exact key match).
    let mut start: &'static Node = root;
    if startpath != "-" {
        for key in startpath.split('/') {
            match start.children.iter().find(|(k, _)| *k == key) {
                Some((_, child)) => start = child,
                None => return String::from("bad-op path"),
            }
        }
    }

    let mut nodes = Vec::new();
    collect_nodes(root, &mut Vec::new(), &mut nodes);
    let paths: HashMap<*const Node, String> = nodes
        .into_iter()
        .map(|(node, path)| (node as *const Node, path))
        .collect();
    let path_of = |node: &'static Node| -> String {
        paths
            .get(&(node as *const Node))
            .cloned()
            .unwrap_or_else(|| String::from("?"))
    };

    match parser::parse(root, start, input) {
        Ok((rest, None)) => format!("ok {} none", rest.len()),
        Ok((rest, Some(call))) => {
            let args: Vec<String> = call.args.iter().map(value_entry).collect();
            format!(
                "ok {} node={} hdr={} q={} args=[{}] term={}",
                rest.len(),
                path_of(call.node),
                match call.header {
                    Some(header) => path_of(header),
                    None => String::from("none"),
                },
                call.query as u8,
                args.join(","),
                call.terminated as u8
            )
        }
        Err(ParseError::SoftError(None)) => String::from("soft:none"),
        Err(ParseError::SoftError(Some(error))) => format!("soft:{}", fmt_err(error)),
        Err(ParseError::FatalError(error)) => format!("fatal:{}", fmt_err(error)),
        Err(ParseError::Incomplete) => String::from("inc"),
    }
}

// ---------------------------------------------------------------------------
// CONV

fn conv_result<T: TVal>(result: Result<T, Error>) -> String {
    match result {
        Ok(value) => format!("ok {}", value.tval()),
        Err(error) => format!("err {}", fmt_err(error)),
    }
}

pub fn op_conv(ty: &str, kind: &str, text: &[u8]) -> String {
    let value = if kind == "arb" {
        Value::Arbitrary(text)
    }
    else {
        let Ok(text) = core::str::from_utf8(text) else {
            return String::from("bad-op utf8");
        };
        match kind {
            "str" => Value::String(text),
            "chars" => Value::Characters(text),
            "dec" => Value::Decimal(text),
            "hex" => Value::Hexadecimal(text),
            "bin" => Value::Binary(text),
            "oct" => Value::Octal(text),
            _ => return String::from("bad-op kind"),
        }
    };
    // The library converts both `&Value` (what the generated dispatcher uses) and `Value` (public API, e.g. in user code);
    // both are called and must agree — a difference is printed as `mismatch …` and fails the C03 oracle.
    let by_ref = &value;
    let by_value = value;
    fn both(a: String, b: String) -> String {
        if a == b { a } else { format!("mismatch by-ref={} by-value={}", a.replace(' ', "_"), b.replace(' ', "_")) }
    }
    match ty {
        "u8" => both(conv_result(TryInto::<u8>::try_into(by_ref)), conv_result(TryInto::<u8>::try_into(by_value))),
        "i8" => both(conv_result(TryInto::<i8>::try_into(by_ref)), conv_result(TryInto::<i8>::try_into(by_value))),
        "u16" => both(conv_result(TryInto::<u16>::try_into(by_ref)), conv_result(TryInto::<u16>::try_into(by_value))),
        "i16" => both(conv_result(TryInto::<i16>::try_into(by_ref)), conv_result(TryInto::<i16>::try_into(by_value))),
        "u32" => both(conv_result(TryInto::<u32>::try_into(by_ref)), conv_result(TryInto::<u32>::try_into(by_value))),
        "i32" => both(conv_result(TryInto::<i32>::try_into(by_ref)), conv_result(TryInto::<i32>::try_into(by_value))),
        "u64" => both(conv_result(TryInto::<u64>::try_into(by_ref)), conv_result(TryInto::<u64>::try_into(by_value))),
        "i64" => both(conv_result(TryInto::<i64>::try_into(by_ref)), conv_result(TryInto::<i64>::try_into(by_value))),
        "usize" => both(conv_result(TryInto::<usize>::try_into(by_ref)), conv_result(TryInto::<usize>::try_into(by_value))),
        "isize" => both(conv_result(TryInto::<isize>::try_into(by_ref)), conv_result(TryInto::<isize>::try_into(by_value))),
        "f32" => both(conv_result(TryInto::<f32>::try_into(by_ref)), conv_result(TryInto::<f32>::try_into(by_value))),
        "f64" => both(conv_result(TryInto::<f64>::try_into(by_ref)), conv_result(TryInto::<f64>::try_into(by_value))),
        "bool" => both(conv_result(TryInto::<bool>::try_into(by_ref)), conv_result(TryInto::<bool>::try_into(by_value))),
        "str" => both(conv_result(TryInto::<&str>::try_into(by_ref)), conv_result(TryInto::<&str>::try_into(by_value))),
        "bytes" => conv_result(TryInto::<&[u8]>::try_into(by_ref)),
        _ => String::from("bad-op type"),
    }
}

// ---------------------------------------------------------------------------
// QUEUE

enum QueueOp {
    Push(Error),
    Pop,
    Count,
}

fn queue_run<const N: usize>(ops: &[QueueOp]) -> String {
    let mut queue: StaticErrorQueue<N> = StaticErrorQueue::new();
    let mut results: Vec<String> = Vec::new();
    for op in ops {
        match op {
            QueueOp::Push(error) => queue.push_error(*error),
            QueueOp::Pop => results.push(match queue.pop_error() {
                Some(error) => format!("o={}", fmt_err(error)),
                None => String::from("o=none"),
            }),
            QueueOp::Count => results.push(format!("n={}", queue.error_count())),
        }
    }
    format!("[{}]", results.join(","))
}

/// Parses `<num>` as i16 (decimal, optional `-`).
pub fn parse_i16(s: &str) -> Option<i16> {
    let digits = s.strip_prefix('-').unwrap_or(s);
    if digits.is_empty() || !digits.bytes().all(|b| b.is_ascii_digit()) {
        return None;
    }
    s.parse().ok()
}

pub fn op_queue(cap: &str, ops: &str) -> String {
    let mut parsed: Vec<QueueOp> = Vec::new();
    if ops != "-" {
        for op in ops.split(',') {
            if op == "o" {
                parsed.push(QueueOp::Pop);
            }
            else if op == "n" {
                parsed.push(QueueOp::Count);
            }
            else if let Some(num) = op.strip_prefix('p') {
                let Some(error) = parse_i16(num).and_then(std_error) else {
                    return String::from("bad-op err");
                };
                parsed.push(QueueOp::Push(error));
            }
            else if let Some(custom) = op.strip_prefix('c') {
                let Some((num, desc)) = custom.split_once(':') else {
                    return String::from("bad-op queue-op");
                };
                let Some(num) = parse_i16(num) else {
                    return String::from("bad-op err");
                };
                let Some(desc) = unhex(desc) else {
                    return String::from("bad-op hex");
                };
                let Ok(desc) = core::str::from_utf8(&desc) else {
                    return String::from("bad-op utf8");
                };
                parsed.push(QueueOp::Push(Error::Custom(num, leak_str(desc))));
            }
            else {
                return String::from("bad-op queue-op");
            }
        }
    }
    match cap {
        "1" => queue_run::<1>(&parsed),
        "2" => queue_run::<2>(&parsed),
        "3" => queue_run::<3>(&parsed),
        "4" => queue_run::<4>(&parsed),
        "10" => queue_run::<10>(&parsed),
        _ => String::from("bad-op cap"),
    }
}

// ---------------------------------------------------------------------------
// MACRO

#[cfg(feature = "macro_src")]
fn collect_macro_nodes(
    tree: &macro_src::tree::Tree, id: usize, keys: &mut Vec<String>, out: &mut Vec<(String, String)>,
) {
    let Some(node) = tree.items.get(&id) else {
        return;
    };
    let shown = show_path(keys);
    let entry = format!(
        "{}:c={}:q={}",
        shown,
        fmt_id(node.command.as_ref().map(|def| def.id)),
        fmt_id(node.query.as_ref().map(|def| def.id))
    );
    out.push((shown, entry));
    if keys.len() > 64 {
        return;
    }
    for (key, child) in &node.children {
        keys.push(key.clone());
        collect_macro_nodes(tree, *child, keys, out);
        keys.pop();
    }
}

#[cfg(feature = "macro_src")]
pub fn op_macro(decls: &str) -> String {
    use macro_src::command::Command;
    use macro_src::tree::{Error as TreeError, Tree};

    let mut commands: Vec<Command> = Vec::new();
    for decl in decls.split(';') {
        let Some(bytes) = unhex(decl) else {
            return String::from("bad-op hex");
        };
        let Ok(text) = core::str::from_utf8(&bytes) else {
            return String::from("bad-op utf8");
        };
        match Command::try_from(text) {
            Ok(command) => commands.push(command),
            Err(_) => return String::from("bad-op command"),
        }
    }

    // paths of every declaration, in the order `paths()` returns them
    let paths: Vec<String> = commands
        .iter()
        .map(|command| {
            let paths: Vec<String> = command.paths().iter().map(|p| show_path(p)).collect();
            paths.join(",")
        })
        .collect();

    // insertion in order, through one `Rc` per declaration like the macro does
    let mut tree = Tree::new();
    let mut ins = String::from("ok");
    for (index, command) in commands.into_iter().enumerate() {
        let definition = Rc::new(CommandDefinition { id: index, command });
        match tree.insert(definition.clone()) {
            Ok(()) => {}
            Err(TreeError::CommandExists) => {
                ins = format!("CommandExists@{}", index);
                break;
            }
            Err(TreeError::QueryExists) => {
                ins = format!("QueryExists@{}", index);
                break;
            }
        }
    }

    let mut nodes: Vec<(String, String)> = Vec::new();
    collect_macro_nodes(&tree, 0, &mut Vec::new(), &mut nodes);
    nodes.sort_by(|a, b| a.0.as_bytes().cmp(b.0.as_bytes()));
    let nodes: Vec<String> = nodes.into_iter().map(|n| n.1).collect();

    format!("paths=[{}] ins={} tree=[{}]", paths.join("|"), ins, nodes.join(";"))
}

// ---------------------------------------------------------------------------
// ERRTAB / UTF8

pub fn op_errtab() -> String {
    let entries: Vec<String> = STD_ERRORS
        .iter()
        .map(|error| {
            let description: &str = Into::<&str>::into(*error);
            format!("{}:{}", error.number(), hex(description.as_bytes()))
        })
        .collect();
    format!("tab=[{}]", entries.join(","))
}

pub fn op_utf8(bytes: &[u8]) -> String {
    if core::str::from_utf8(bytes).is_ok() {
        String::from("1")
    }
    else {
        String::from("0")
    }
}
