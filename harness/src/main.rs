//! Rust side of the correspondence harness (see /verif/PROTOCOL.md).
//!
//! usage: harness <ifaces.txt>   (op lines on stdin, one result line per line)

use std::io::{BufRead, Write};
use std::panic::{catch_unwind, AssertUnwindSafe};

mod alloccount;
mod dynval;
// `--features fresh`: the interfaces of a thorough run's fresh declaration sets (src/gen_fresh.rs) instead of src/gen.rs
#[cfg_attr(feature = "fresh", path = "gen_fresh.rs")]
mod gen;
mod ops;
mod support;
mod writers;

/// The sources of the macro crate, included by path so that the real code runs.  They sit at
/// the crate root under their own names, so that `crate::command::…`, `crate::tree::…` and
/// `crate::CommandDefinition` resolve exactly as they do inside the macro crate.
///
/// Feature `macro_src` (on by default).  These files are internals of a proc-macro crate: when a change
/// to them no longer fits this glue (a renamed field, a new sibling module), `build.sh` falls back to a
/// build without the feature, in which only the `MACRO` op is unavailable — so that the other ops, and
/// with them the checks that do not look into the macro crate, keep working.
#[cfg(feature = "macro_src")]
#[allow(dead_code)]
#[path = "/repo/microscpi-macros/src/command.rs"]
pub mod command;
#[cfg(feature = "macro_src")]
#[allow(dead_code)]
#[path = "/repo/microscpi-macros/src/tree.rs"]
pub mod tree;

/// Old name of the two modules, kept for the ops.
#[cfg(feature = "macro_src")]
#[allow(dead_code)]
mod macro_src {
    pub use crate::command;
    pub use crate::tree;
}

/// `tree.rs` of the macro crate does `use crate::CommandDefinition;` and needs
/// `cmd.command.paths()` / `cmd.command.is_query()`; `id` is what the tree
/// dump prints.
#[cfg(feature = "macro_src")]
pub struct CommandDefinition {
    pub id: usize,
    pub command: macro_src::command::Command,
}

use ops::{ProcReq, RunReq};
use support::unhex;
use writers::WriterSel;

/// Every allocation of the process goes through the counting allocator; it
/// only counts inside the regions opened by the `ALLOC` ops.
#[global_allocator]
static GLOBAL: alloccount::CountingAlloc = alloccount::CountingAlloc;

fn bad(reason: &str) -> String {
    format!("bad-op {}", reason)
}

/// Plain decimal without sign or leading `+`.
fn parse_usize(s: &str) -> Option<usize> {
    if s.is_empty() || s.len() > 9 || !s.bytes().all(|b| b.is_ascii_digit()) {
        return None;
    }
    s.parse().ok()
}

fn parse_i32(s: &str) -> Option<i32> {
    let digits = s.strip_prefix('-').unwrap_or(s);
    if digits.is_empty() || digits.len() > 9 || !digits.bytes().all(|b| b.is_ascii_digit()) {
        return None;
    }
    s.parse().ok()
}

/// Optional trailing `fault=<idx>:<code>` / `pend=<k>` tokens.
struct Options {
    fault: Option<(usize, i32)>,
    pend: usize,
}

fn parse_options(tokens: &[&str], allow_fault: bool) -> Result<Options, String> {
    let mut options = Options {
        fault: None,
        pend: 0,
    };
    let mut seen_pend = false;
    for token in tokens {
        if let Some(k) = token.strip_prefix("pend=") {
            if seen_pend {
                return Err(bad("option"));
            }
            seen_pend = true;
            options.pend = parse_usize(k).filter(|k| *k <= 1000).ok_or_else(|| bad("pend"))?;
        }
        else if let Some(fault) = token.strip_prefix("fault=") {
            if !allow_fault || options.fault.is_some() {
                return Err(bad("option"));
            }
            let (idx, code) = fault.split_once(':').ok_or_else(|| bad("fault"))?;
            let idx = parse_usize(idx).ok_or_else(|| bad("fault"))?;
            let code = parse_i32(code).ok_or_else(|| bad("fault"))?;
            options.fault = Some((idx, code));
        }
        else {
            return Err(bad("option"));
        }
    }
    Ok(options)
}

/// `RUN …` and (with `alloc`) `ALLOC RUN …`; `t[0]` is the `RUN` token.
fn op_run(t: &[&str], alloc: bool) -> String {
    if t.len() < 4 {
        return bad("args");
    }
    let Some(writer) = WriterSel::parse(t[2]) else {
        return bad("writer");
    };
    if alloc {
        // Only fixed-capacity writers, no options, no self-allocating handlers.
        if !matches!(writer, WriterSel::Hl(_)) {
            return bad("writer");
        }
        if t.len() != 4 {
            return bad("option");
        }
        if gen::handlers_allocate(t[1]) == Some(true) {
            return bad("iface-allocates");
        }
    }
    let mut inputs = Vec::new();
    for part in t[3].split('|') {
        match unhex(part) {
            Some(bytes) => inputs.push(bytes),
            None => return bad("hex"),
        }
    }
    let options = match parse_options(&t[4..], false) {
        Ok(options) => options,
        Err(e) => return e,
    };
    let req = RunReq {
        inputs,
        pend: options.pend,
        from: t[0] == "RUNF",
        alloc,
    };
    gen::run_dispatch(t[1], writer, &req)
}

/// `PROC …` and (with `alloc`) `ALLOC PROC …`; `t[0]` is the `PROC` token.
fn op_proc(t: &[&str], alloc: bool) -> String {
    if t.len() < 5 {
        return bad("args");
    }
    if gen::proc_sizes(t[1]).is_none() {
        return bad("iface");
    }
    if alloc {
        if t.len() != 5 {
            return bad("option");
        }
        if gen::handlers_allocate(t[1]) == Some(true) {
            return bad("iface-allocates");
        }
    }
    let Some(n) = parse_usize(t[2]) else {
        return bad("size");
    };
    let Some(stream) = unhex(t[3]) else {
        return bad("hex");
    };
    let mut sched = Vec::new();
    if t[4] != "-" {
        for size in t[4].split(',') {
            match parse_usize(size) {
                Some(size) => sched.push(size),
                None => return bad("sched"),
            }
        }
    }
    let options = match parse_options(&t[5..], true) {
        Ok(options) => options,
        Err(e) => return e,
    };
    let req = ProcReq {
        stream,
        sched,
        fault: options.fault,
        pend: options.pend,
        alloc,
    };
    gen::proc_dispatch(t[1], n, &req)
}

fn handle(line: &str) -> String {
    let t: Vec<&str> = line.split(' ').collect();
    match t[0] {
        "RUN" => op_run(&t, false),
        // the inputs are pieces handed to `run_from`, the header path carried from piece to piece
        "RUNF" => op_run(&t, false),
        "PROC" => op_proc(&t, false),
        // Harness only: heap allocations made inside `run` / `process`.
        "ALLOC" => match t.get(1).copied() {
            Some("RUN") => op_run(&t[1..], true),
            Some("PROC") => op_proc(&t[1..], true),
            _ => bad("args"),
        },
        "PARSE" => {
            if t.len() != 4 {
                return bad("args");
            }
            match unhex(t[3]) {
                Some(input) => ops::op_parse(t[1], t[2], &input),
                None => bad("hex"),
            }
        }
        "TREE" => {
            if t.len() != 2 {
                return bad("args");
            }
            ops::op_tree(t[1])
        }
        "CONV" => {
            if t.len() != 4 {
                return bad("args");
            }
            match unhex(t[3]) {
                Some(text) => ops::op_conv(t[1], t[2], &text),
                None => bad("hex"),
            }
        }
        "RESP" => {
            if t.len() != 3 {
                return bad("args");
            }
            dynval::op_resp(t[1], t[2])
        }
        "QUEUE" => {
            if t.len() != 3 {
                return bad("args");
            }
            ops::op_queue(t[1], t[2])
        }
        "MACRO" => {
            if t.len() != 2 {
                return bad("args");
            }
            #[cfg(feature = "macro_src")]
            {
                ops::op_macro(t[1])
            }
            #[cfg(not(feature = "macro_src"))]
            {
                String::from("unavailable: command.rs/tree.rs of the macro crate no longer build inside the harness (harness/target/macro_src.log)")
            }
        }
        "ERRTAB" => {
            if t.len() != 1 {
                return bad("args");
            }
            ops::op_errtab()
        }
        "UTF8" => {
            if t.len() != 2 {
                return bad("args");
            }
            match unhex(t[1]) {
                Some(bytes) => ops::op_utf8(&bytes),
                None => bad("hex"),
            }
        }
        // C04: the contract under which float responses decode (plain decimal text that
        // parses back to the same bits), evaluated on the implementation's own formatter.
        "FLOATOK" => {
            if t.len() != 3 || !t[2].starts_with("0x") {
                return bad("args");
            }
            let bits = match u64::from_str_radix(&t[2][2..], 16) {
                Ok(b) => b,
                Err(_) => return bad("hex"),
            };
            let plain = |s: &str| {
                let b = s.strip_prefix('-').unwrap_or(s);
                !b.is_empty()
                    && b.chars().all(|c| c.is_ascii_digit() || c == '.')
                    && b.matches('.').count() <= 1
                    && !b.starts_with('.')
                    && !b.ends_with('.')
            };
            match t[1] {
                "f32" => {
                    if bits > u32::MAX as u64 {
                        return bad("val");
                    }
                    let x = f32::from_bits(bits as u32);
                    if !x.is_finite() {
                        return "na".to_string();
                    }
                    let s = format!("{}", x);
                    let ok = plain(&s) && s.parse::<f32>().map(|y| y.to_bits() == bits as u32).unwrap_or(false);
                    (if ok { "1" } else { "0" }).to_string()
                }
                "f64" => {
                    let x = f64::from_bits(bits);
                    if !x.is_finite() {
                        return "na".to_string();
                    }
                    let s = format!("{}", x);
                    let ok = plain(&s) && s.parse::<f64>().map(|y| y.to_bits() == bits).unwrap_or(false);
                    (if ok { "1" } else { "0" }).to_string()
                }
                _ => bad("type"),
            }
        }
        // Harness only: exercises the `PANIC` path (the model prints bad-op).
        "SELFTEST" if t.len() == 2 && t[1] == "panic" => panic!("selftest"),
        // Harness only: checks the counting allocator, prints `alloc=3`.
        "SELFTEST" if t.len() == 2 && t[1] == "alloc" => alloccount::selftest(),
        // Harness only: allocations of a non-quiet interface inside `run` are seen.
        "SELFTEST" if t.len() == 2 && t[1] == "alloc-loud" => ops::alloc_loud_selftest(),
        // Harness only: a panic inside a counted region must leave counting off.
        "SELFTEST" if t.len() == 2 && t[1] == "alloc-panic" => {
            let _region = alloccount::Region::enter();
            panic!("selftest")
        }
        _ => bad("op"),
    }
}

/// Same normalisation and hash as gen_ifaces.py.
fn spec_hash(text: &str) -> u64 {
    let lines: Vec<&str> = text
        .lines()
        .map(str::trim)
        .filter(|l| !l.is_empty() && !l.starts_with("//"))
        .collect();
    let mut hash: u64 = 0xcbf29ce484222325;
    for byte in lines.join("\n").bytes() {
        hash ^= byte as u64;
        hash = hash.wrapping_mul(0x100000001b3);
    }
    hash
}

fn check_spec(path: &str) -> Result<(), String> {
    let text = std::fs::read_to_string(path).map_err(|e| format!("cannot read {}: {}", path, e))?;
    let names: Vec<&str> = text
        .lines()
        .map(str::trim)
        .filter_map(|l| l.strip_prefix("IFACE "))
        .filter_map(|l| l.split(' ').next())
        .collect();
    if names != gen::IFACE_NAMES {
        return Err(format!(
            "{} declares interfaces {:?} but the harness was generated for {:?}; run build.sh",
            path,
            names,
            gen::IFACE_NAMES
        ));
    }
    if spec_hash(&text) != gen::SPEC_HASH {
        return Err(format!(
            "{} differs from the specification the harness was generated from; run build.sh",
            path
        ));
    }
    Ok(())
}

fn main() {
    let args: Vec<String> = std::env::args().collect();
    if args.len() != 2 {
        eprintln!("usage: harness <ifaces.txt> < ops > results");
        std::process::exit(2);
    }
    if let Err(message) = check_spec(&args[1]) {
        eprintln!("harness: {}", message);
        std::process::exit(2);
    }
    debug_assert!(support::STD_ERRORS.iter().all(|e| support::std_errors_complete(*e)));

    // Panics are reported as the result line `PANIC`, nothing else.
    std::panic::set_hook(Box::new(|_| {}));

    // Watchdog: an op that runs longer than the limit (the library spins without calling the
    // transport, so the adapter-call budget cannot stop it) ends the process with exit code 3;
    // everything printed before that op has been flushed, and the driver script records HANG
    // for it and resumes after it.
    static OP_START_MS: std::sync::atomic::AtomicU64 = std::sync::atomic::AtomicU64::new(0);
    let t0 = std::time::Instant::now();
    {
        let limit_ms: u64 = std::env::var("HARNESS_OP_LIMIT_MS").ok().and_then(|v| v.parse().ok()).unwrap_or(4000);
        std::thread::spawn(move || loop {
            std::thread::sleep(std::time::Duration::from_millis(100));
            let started = OP_START_MS.load(std::sync::atomic::Ordering::Relaxed);
            if started != 0 {
                let now = t0.elapsed().as_millis() as u64 + 1;
                if now.saturating_sub(started) > limit_ms {
                    std::process::exit(3);
                }
            }
        });
    }

    let stdin = std::io::stdin();
    let stdout = std::io::stdout();
    let mut out = std::io::BufWriter::with_capacity(1 << 16, stdout.lock());
    let mut buf: Vec<u8> = Vec::new();
    let mut input = stdin.lock();

    loop {
        buf.clear();
        match input.read_until(b'\n', &mut buf) {
            Ok(0) => break,
            Ok(_) => {}
            Err(e) => {
                let _ = out.flush();
                eprintln!("harness: read error: {}", e);
                std::process::exit(1);
            }
        }
        if buf.last() == Some(&b'\n') {
            buf.pop();
        }
        if buf.last() == Some(&b'\r') {
            buf.pop();
        }
        let result = match core::str::from_utf8(&buf) {
            Err(_) => bad("line-utf8"),
            Ok(line) if line.trim().is_empty() || line.starts_with("//") => String::new(),
            Ok(line) => {
                // Everything printed so far must survive an abort inside the op.
                let _ = out.flush();
                OP_START_MS.store(t0.elapsed().as_millis() as u64 + 1, std::sync::atomic::Ordering::Relaxed);
                let r = match catch_unwind(AssertUnwindSafe(|| handle(line))) {
                    Ok(result) => result,
                    Err(_) => {
                        alloccount::reset();
                        String::from("PANIC")
                    }
                };
                OP_START_MS.store(0, std::sync::atomic::Ordering::Relaxed);
                r
            }
        };
        if out.write_all(result.as_bytes()).is_err() || out.write_all(b"\n").is_err() {
            std::process::exit(1);
        }
    }
    let _ = out.flush();
}
