#!/usr/bin/env python3
"""Regenerates ifaces.txt (deterministic): the hand-written interfaces plus seeded
random declaration sets that exercise tree shapes."""
import os, random, sys
sys.path.insert(0, os.path.join(os.path.dirname(__file__), '..'))
from vlib import spell

def hx(s): return s.encode().hex() if s else '-'
lines = []
def iface(name, flags, qcap, procn, decls):
    assert not spell.set_collides([d[0] for d in decls]), name
    lines.append(f"IFACE {name} {flags} {qcap} {procn}")
    for i, (cmd, asy, args, beh) in enumerate(decls):
        lines.append(f"DECL {i} {hx(cmd)} {asy} {args} {beh}")
    lines.append("END")

# ---- main echo interface -------------------------------------------------
decls = [
 ("*IDN?", "async", "-", "const:str:" + hx("MICROSCPI,TEST,1,1.0")),
 ("*RST", "async", "-", "unit"),
 ("X", "sync", "-", "unit"),
 ("BAR", "async", "-", "unit"),
 ("BLK", "async", "bytes", "unit"),
 ("STR", "sync", "str", "unit"),
 ("SYSTem:A", "async", "-", "unit"),
 ("SYSTem:BAR", "sync", "-", "unit"),
 ("SYSTem:BLK", "async", "bytes", "unit"),
 ("SYSTem:STR", "async", "str", "unit"),
 ("[SENSe]:VOLTage:[DC]:RANGe", "async", "f64", "unit"),
 ("[SENSe]:VOLTage:[DC]:RANGe?", "async", "-", "const:f64:0x4024000000000000"),
 ("FAIL", "async", "-", "err:-200"),
 ("FAIL:CUSTom", "sync", "-", "errc:-1234:" + hx('my "custom" error')),
 ("FAIL:Query?", "async", "-", "err:-222"),
 ("TWO", "async", "u8,str", "unit"),
 ("BOOL", "sync", "bool", "unit"),
]
for t in "u8 i8 u16 i16 u32 i32 u64 i64 usize isize f32 f64 bool str bytes".split():
    decls.append((f"ECHO:{t.upper()}?", "async" if len(decls) % 2 else "sync", t, "echo"))
    decls.append((f"SET:{t.upper()}", "sync" if len(decls) % 2 else "async", t, "unit"))
decls += [
 ("ECHO:PAIR?", "async", "i32,str", "echo"),
 ("ECHO:TRIPle?", "async", "u8,f32,bool", "echo"),
 ("ECHO:QUAD?", "sync", "i64,bytes,str,u16", "echo"),
 ("MANY", "async", "u8,i8,u16,i16,u32,i32,u64,i64,bool,str", "unit"),
 ("NINE", "async", "u8,u8,u8,u8,u8,u8,u8,u8,u8", "unit"),
 ("CHARs?", "sync", "-", "const:chars:" + hx("VOLT")),
 ("ARB?", "async", "-", "const:arb:" + hx("a\nb;c")),
 ("LONG?", "async", "-", "const:str:" + hx("x" * 40)),
 ("RAISe:BIG?", "async", "-", "err:-223"),
 ("RAISe:SYS?", "sync", "-", "err:-310"),
 ("RAISe:UNDef", "async", "-", "err:-113"),
 ("RAISe:QUERy?", "async", "-", "err:-400"),
 ("RAISe:OVERflow", "sync", "-", "err:-350"),
 ("RAISe:ARG?", "async", "u8", "err:-115"),
]
iface("echo", "SE", 10, "full", decls)

# ---- error-queue interfaces with small capacities ----------------------------
for cap in (1, 2, 3, 4):
    iface(f"q{cap}", "E", cap, "basic", [
     ("*IDN?", "async", "-", "const:str:" + hx("Q")),
     ("OK", "async", "-", "unit"),
     ("VAL?", "sync", "-", "const:u8:7"),
     ("FAIL", "async", "-", "err:-200"),
     ("CUST", "async", "-", "errc:42:" + hx("custom")),
     ("ARG", "async", "u8", "unit"),
     ("NOTE", "sync", "str", "unit"),
    ])

# ---- capacity ten: counts with one and two digits
iface("q10", "E", 10, "basic", [
 ("*IDN?", "async", "-", "const:str:" + hx("Q")),
 ("OK", "async", "-", "unit"),
 ("VAL?", "sync", "-", "const:u8:7"),
 ("FAIL", "async", "-", "err:-200"),
 ("CUST", "async", "-", "errc:42:" + hx("custom")),
 ("ARG", "async", "u8", "unit"),
 ("NOTE", "sync", "str", "unit"),
])

# ---- a queue larger than a byte can count ------------------------------------------------------------
iface("q300", "E", 300, "basic", [
 ("*IDN?", "async", "-", "const:str:" + hx("Q")),
 ("OK", "async", "-", "unit"),
 ("VAL?", "sync", "-", "const:u8:7"),
 ("FAIL", "async", "-", "err:-200"),
 ("CUST", "async", "-", "errc:42:" + hx("custom")),
 ("ARG", "async", "u8", "unit"),
 ("NOTE", "sync", "str", "unit"),
])

# ---- the q3 commands on an interface whose own handlers carry the names of the built-in ones -------------
# (the harness names the last three handlers system_error_count, system_error_next, system_version)
iface("k1", "SE", 3, "basic", [
 ("*IDN?", "async", "-", "const:str:" + hx("Q")),
 ("OK", "async", "-", "unit"),
 ("VAL?", "sync", "-", "const:u8:7"),
 ("FAIL", "async", "-", "err:-200"),
 ("CUST", "async", "-", "errc:42:" + hx("custom")),
 ("ARG", "async", "u8", "unit"),
 ("NOTE", "sync", "str", "unit"),
 ("DIAGnostic:ERRor:TOTal?", "sync", "-", "const:u8:200"),
 ("DIAGnostic:ERRor:LAST?", "sync", "-", "const:str:" + hx("none")),
 ("DIAGnostic:VERSion?", "sync", "-", "const:u16:7"),
])

# ---- hand-written tree shapes ---------------------------------------------
iface("t1", "-", 0, "basic", [
 ("*CLS", "async", "-", "unit"),
 ("[SYSTem]:TeST:A", "async", "-", "unit"),
 ("[SYSTem]:TeST:A?", "async", "-", "const:u8:1"),
 ("SYSTem:BAR", "sync", "-", "unit"),
 ("BAR", "sync", "-", "unit"),
 ("BAR:BAR", "sync", "-", "unit"),
 ("BAR:BAR:BAR?", "async", "-", "const:u8:3"),
 ("MEASure:VOLTage:[DC]?", "async", "-", "const:u8:4"),
 ("MEASure:CURRent:[DC]?", "async", "-", "const:u8:5"),
 ("aBc:D_1e", "async", "-", "unit"),
 ("OUTPut:[STATe]", "async", "bool", "unit"),
])
# only standard commands requested, no user declaration that touches SYSTem
iface("s1", "S", 0, "basic", [("PING", "async", "-", "unit")])
iface("e1", "E", 10, "basic", [("PING?", "async", "-", "const:u8:1")])
iface("n1", "-", 0, "basic", [("SYSTem:VERSion", "async", "-", "unit"), ("SYSTem:ERRor:COUNt", "sync", "-", "unit")])

# ---- hand-written shapes that stress the spelling rule -------------------------
# numeric suffixes and underscores after a lower-case tail, siblings sharing a prefix or a short form's
# prefix, upper-case-only optional nodes, a user declaration below SYSTem next to the standard commands,
# mnemonics longer than 12 characters, a command with the maximum number of parameters
iface("a1", "SE", 4, "basic", [
 ("OUTPut2:STATe", "async", "bool", "unit"),
 ("OUTPut2:STATe?", "sync", "-", "const:u8:2"),
 ("OUTPut:STATe?", "sync", "-", "const:u8:1"),
 ("CHANnel1:RANGe_Auto", "async", "-", "unit"),
 ("CHANnel_1:RANGe", "async", "-", "unit"),
 ("MEASure:VOLTage?", "async", "-", "const:u8:3"),
 ("MEASurement:POWer?", "async", "-", "const:u8:4"),
 ("MEASure:[DC]:CURRent?", "async", "-", "const:u8:5"),
 ("SYST:BEEP", "sync", "-", "unit"),
 ("SYSTem:BEEPer:TONE", "sync", "-", "unit"),
 ("CONFigure:OUT_Level", "async", "-", "unit"),
 ("CONFigure:OUTPut", "async", "-", "unit"),
 ("CONFigure:OUTA", "async", "-", "unit"),
 ("CALCulate:TRANSformation:HISTogram:COUNt?", "async", "-", "const:u16:77"),
 ("MATH:OPeration:MULTiplyFloat?", "async", "f64,f64", "echo"),
 ("SIZE:ZERO:NORMalize", "async", "-", "unit"),
 ("WIDE", "async", "u8,u8,u8,u8,u8,u8,u8,u8,u8,u8", "unit"),
 ("TRIGger:SOURce", "sync", "-", "unit"),
 ("TRIGGER:DELay", "sync", "-", "unit"),
 ("[ROOT]:[SUB]:LEAF", "sync", "-", "unit"),
])

# ---- an interface declared on a generic struct (name starts with `g`: see gen_ifaces.py) ------------
iface("g1", "SE", 3, "basic", [
 ("*IDN?", "async", "-", "const:str:" + hx("GENERIC")),
 ("CONFigure:[VOLTage]:RANGe", "async", "f32", "unit"),
 ("CONFigure:[VOLTage]:RANGe?", "sync", "-", "const:f32:0x41200000"),
 ("ECHO?", "async", "str", "echo"),
 ("BLOCk?", "async", "bytes", "echo"),
 ("FAIL", "sync", "-", "err:-240"),
])

# ---- seeded random declaration sets ----------------------------------------
POOL = ["SYSTem", "MEASure", "VOLTage", "CURRent", "CONFigure", "OUTPut", "STATe", "DC", "AC",
        "aBc", "D_1e", "X1", "CH2a", "TeST", "RANGe", "A", "B", "LEVel", "TRIGger", "SOURce",
        "Q_", "Z9z", "FREQuency", "IMMediate", "MODE", "OUTPut2", "CHANnel1", "SIZE", "ZERO", "MEASurement",
        "CALCulation", "CALCulate", "TRANSformation", "L_o"]
def rand_set(rng, n_decl):
    decls = []
    tries = 0
    while len(decls) < n_decl and tries < 400:
        tries += 1
        r = rng.random()
        if r < 0.12:
            name = "*" + rng.choice(["CLS", "RST", "IDN", "TST", "OPC", "Wai"])
            cmd = name
        else:
            depth = rng.choice([1, 2, 2, 3, 3, 4])
            parts = []
            for lvl in range(depth):
                m = rng.choice(POOL)
                if rng.random() < 0.3:
                    m = "[" + m + "]"
                parts.append(m)
            if all(p.startswith('[') for p in parts):
                parts[-1] = parts[-1].strip('[]')
            cmd = ":".join(parts)
        if rng.random() < 0.45:
            cmd += "?"
        # command + query on one node: sometimes add the twin
        cand = [cmd]
        if rng.random() < 0.3:
            cand.append(cmd[:-1] if cmd.endswith('?') else cmd + '?')
        for c in cand:
            if not spell.set_collides([d[0] for d in decls] + [c]) and len(decls) < n_decl:
                q = c.endswith('?')
                args = "u8" if rng.random() < 0.15 else "-"
                beh = f"const:u16:{len(decls)}" if q else "unit"
                decls.append((c, rng.choice(["sync", "async"]), args, beh))
    return decls

for k in range(12):
    rng = random.Random(1000 + k)
    flags = ["-", "S", "E", "SE"][k % 4]
    iface(f"r{k}", flags, 10 if "E" in flags else 0, "basic", rand_set(rng, 6 + k))

def fresh(seed, path, n=8):
    """n fresh random interfaces f0..f(n-1) (thorough tier: the real macro and the model on declaration sets
    that no earlier run has seen), written to `path`."""
    global lines
    saved, lines = lines, []
    try:
        rng = random.Random(seed)
        for k in range(n):
            flags = ["-", "S", "E", "SE"][rng.randrange(4)]
            iface(f"f{k}", flags, rng.choice([1, 2, 3, 4, 10]) if "E" in flags else 0, "basic", rand_set(rng, rng.randint(4, 18)))
        open(path, "w").write("\n".join(lines) + "\n")
    finally:
        lines = saved


if __name__ == "__main__":
    if len(sys.argv) == 4 and sys.argv[1] == "--fresh":
        fresh(int(sys.argv[2]), sys.argv[3])
    else:
        open(os.path.join(os.path.dirname(__file__), "ifaces.txt"), "w").write("\n".join(lines) + "\n")
        print(len([l for l in lines if l.startswith("IFACE")]), "interfaces,", len([l for l in lines if l.startswith("DECL")]), "declarations")
