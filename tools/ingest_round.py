#!/usr/bin/env python3
"""Ingests a round of seeded changes produced by sub-agents in /tmp/mut_Cxx_out/{A,B}/:
verifies each in a scratch worktree, stores it under seeded/<prefix><v>_Cxx/, removes the agents'
worktrees, runs the own-property quick check on each and merges the verdicts into seeded/results.json.
usage: ingest_round.py <prefix e.g. M5> <round number>"""
import json, os, subprocess, sys, shutil, glob
ROOT = os.path.dirname(os.path.dirname(os.path.abspath(__file__)))
prefix, rnd = sys.argv[1], int(sys.argv[2])
wdir = sys.argv[3] if len(sys.argv) > 3 else 'mut'   # agents' directories are /tmp/<wdir>_Cxx and /tmp/<wdir>_Cxx_out
def sh(cmd, **kw):
    return subprocess.run(cmd, shell=True, stdout=subprocess.PIPE, stderr=subprocess.STDOUT, text=True, **kw).stdout
sh('git -C /repo worktree add -q --detach /tmp/verify_mut HEAD')
stored = []
for i in range(1, 15):
    pid = f'C{i:02d}'
    for v in 'AB':
        src = f'/tmp/{wdir}_{pid}_out/{v}'
        demo = f'{src}/demo_c{i:02d}.rs'
        if not (os.path.exists(f'{src}/patch.diff') and os.path.exists(demo)):
            print('missing', src); continue
        out = sh(f'{ROOT}/tools/verify_seeded.sh {pid}{v} {src}/patch.diff {demo} /tmp/verify_mut')
        line = [l for l in out.split('\n') if l.startswith(pid + v)]
        res = line[-1] if line else out[-200:]
        ok = 'demo_on_unchanged=0' in res and 'suite_with_change=0(passed=88)' in res and 'demo_with_change=101' in res
        print(res, 'OK' if ok else 'REJECTED', flush=True)
        if not ok:
            continue
        sid = f'{prefix}{v}_{pid}'
        d = os.path.join(ROOT, 'seeded', sid)
        os.makedirs(d, exist_ok=True)
        shutil.copy(f'{src}/patch.diff', d); shutil.copy(demo, d)
        if os.path.exists(f'{src}/README.md'):
            shutil.copy(f'{src}/README.md', d)
        json.dump({'id': sid, 'breaks_property': pid, 'round': rnd,
                   'source': 'fresh sub-agent given only the property text (plus short descriptions of earlier changes to avoid) and its own scratch worktree; two independent changes (A, B) per agent',
                   'needs_to_manifest': 'see README.md (written by the sub-agent)',
                   'confirmed': {'how': 'tools/verify_seeded.sh in a scratch worktree: demo on the unchanged library, existing suite with the change, demo with the change (0 = pass, 101 = failure / does not compile)', 'result': res},
                   'demo': f'demo_c{i:02d}.rs (drop into microscpi/tests/)'}, open(os.path.join(d, 'meta.json'), 'w'), indent=1)
        stored.append((sid, pid))
for i in range(1, 15):
    sh(f'git -C /repo worktree remove --force /tmp/{wdir}_C{i:02d}; rm -rf /tmp/{wdir}_C{i:02d}_out')
sh('git -C /repo worktree remove --force /tmp/verify_mut; git -C /repo worktree prune')
if os.environ.get('INGEST_PHASE') == 'verify':
    # only verify and store (safe while run_seeded.py is busy with /repo); the own-property runs are done separately
    print('stored', len(stored), [s for s, _ in stored])
    sys.exit(0)
base = json.load(open(os.path.join(ROOT, 'seeded', 'results.json')))
for sid, pid in stored:
    out = sh(f'timeout 1500 python3 {ROOT}/tools/run_seeded.py {sid} --props={pid}', cwd=ROOT)
    print('\n'.join(l[:130] for l in out.split('\n') if l.startswith(prefix)), flush=True)
    try:
        base.update(json.load(open(os.path.join(ROOT, 'seeded', 'results.json'))))
    except Exception as e:
        print('no result for', sid, e)
    json.dump(base, open('/tmp/results_ingest.json', 'w'), indent=1)
json.dump(base, open(os.path.join(ROOT, 'seeded', 'results.json'), 'w'), indent=1)
miss = [sid for sid, pid in stored if not base.get(sid, {}).get(pid, {}).get('rc')]
print('stored', len(stored), 'missed by own check:', miss)
