#!/usr/bin/env python3
"""Writes the table of section 10 of DESIGN.md from seeded/results.json and the READMEs of the seeded changes."""
import json, os, re
ROOT = os.path.dirname(os.path.dirname(os.path.abspath(__file__)))
res = json.load(open(os.path.join(ROOT, 'seeded', 'results.json')))
rows = ['| change | breaks | what it is (from its README) | caught by (quick checks; **bold** = by an implementation oracle with a failing input, plain = broken correspondence) |',
        '|---|---|---|---|']
for sid in sorted(res):
    meta = json.load(open(os.path.join(ROOT, 'seeded', sid, 'meta.json')))
    readme = open(os.path.join(ROOT, 'seeded', sid, 'README.md')).read()
    what = ''
    for line in readme.split('\n'):
        l = line.strip(' #*-')
        if len(l) > 40 and not l.lower().startswith(('mutation', 'seeded', 'c0', 'c1')):
            what = l
            break
    what = re.sub(r'\s+', ' ', what)[:230]
    caught = []
    for p, v in sorted(res[sid].items()):
        if v['rc']:
            strong = 'no-failing-input-found' not in v['violation']
            caught.append(f'**{p}**' if strong else p)
    own = meta['breaks_property']
    flag = '' if any(c.strip('*') == own for c in caught) else ' (NOT caught by its own check)'
    rows.append(f"| {sid} | {own} | {what} | {', '.join(caught) or 'none'}{flag} |")
table = '\n'.join(rows)
p = os.path.join(ROOT, 'DESIGN.md')
s = open(p).read()
if 'SEEDED_TABLE' in s and '<!-- SEEDED_TABLE_BEGIN -->' not in s:
    s = s.replace('SEEDED_TABLE', '<!-- SEEDED_TABLE_BEGIN -->\n' + table + '\n<!-- SEEDED_TABLE_END -->')
else:
    s = re.sub(r'<!-- SEEDED_TABLE_BEGIN -->.*<!-- SEEDED_TABLE_END -->', '<!-- SEEDED_TABLE_BEGIN -->\n' + table.replace('\\', '\\\\') + '\n<!-- SEEDED_TABLE_END -->', s, flags=re.S)
open(p, 'w').write(s)
print(table)
