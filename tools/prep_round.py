#!/usr/bin/env python3
"""Prepares a round of seeded changes: per property a scratch worktree /tmp/<wdir>_Cxx of /repo and
/tmp/<wdir>_Cxx_out/PROPERTY.txt (the property's text + one-line descriptions of the changes already taken),
and the prompt file /tmp/<wdir>_prompt_Cxx.txt.  Usage: prep_round.py <wdir> <prompt template>   (template: tools/mutation_prompt.txt)"""
import json, os, re, subprocess, sys
ROOT = os.path.dirname(os.path.dirname(os.path.abspath(__file__)))
wdir, template = sys.argv[1], sys.argv[2]
tmpl = open(template).read()
props = [json.loads(l) for l in open(os.path.join(ROOT, 'properties.jsonl'))]
for p in props:
    pid = p['id']
    taken = []
    for sid in sorted(os.listdir(os.path.join(ROOT, 'seeded'))):
        mp = os.path.join(ROOT, 'seeded', sid, 'meta.json')
        if not os.path.exists(mp) or json.load(open(mp))['breaks_property'] != pid:
            continue
        what = ''
        for line in open(os.path.join(ROOT, 'seeded', sid, 'README.md')).read().split('\n'):
            l = line.strip(' #*-')
            if len(l) > 40 and not l.lower().startswith(('mutation', 'seeded', 'c0', 'c1')):
                what = l
                break
        taken.append(re.sub(r'\s+', ' ', what)[:300])
    wt = f'/tmp/{wdir}_{pid}'
    out = f'/tmp/{wdir}_{pid}_out'
    subprocess.run(['git', '-C', '/repo', 'worktree', 'add', '-q', '--detach', wt, 'HEAD'], check=True)
    os.makedirs(out, exist_ok=True)
    with open(os.path.join(out, 'PROPERTY.txt'), 'w') as f:
        f.write(f"PROPERTY {pid}: {p['title']}\n\n{p['statement']}\n\n")
        f.write("ALREADY TAKEN (earlier engineers produced these changes for this property; yours must be DIFFERENT — a different "
                "mechanism, preferably in a different function or file, and a different sentence of the property if it has several):\n")
        for k, t in enumerate(taken, 1):
            f.write(f"  {k}. {t}\n")
    open(f'/tmp/{wdir}_prompt_{pid}.txt', 'w').write(tmpl.replace('r6_CXX', f'{wdir}_{pid}').replace('cXX', pid.lower()).replace('CXX', pid))
    print(pid, len(taken), 'taken')
