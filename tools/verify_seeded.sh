#!/bin/bash
# Confirms a seeded change in a scratch worktree: existing tests pass with it, the demo fails with it and passes without.
# usage: verify_seeded.sh <id> <patch> <demo.rs> <worktree>
id=$1; patch=$2; demo=$3; wt=$4
cd $wt || exit 2
git checkout -q -- . ; git clean -fdq microscpi/tests
export CARGO_NET_OFFLINE=true
name=$(basename $demo .rs)
cp $demo microscpi/tests/$name.rs
# 1. demo on the unchanged library
cargo test --offline --workspace --test $name > /tmp/vs_${id}_demo_base.log 2>&1; demo_base=$?
# 2. apply the change, existing suite
git apply $patch || { echo "$id patch-does-not-apply"; exit 1; }
rm microscpi/tests/$name.rs
cargo test --offline --workspace > /tmp/vs_${id}_suite.log 2>&1; suite=$?
npass=$(grep -E "^test result: ok" /tmp/vs_${id}_suite.log | awk '{s+=$4} END{print s}')
# 3. demo with the change
cp $demo microscpi/tests/$name.rs
cargo test --offline --workspace --test $name > /tmp/vs_${id}_demo_mut.log 2>&1; demo_mut=$?
git checkout -q -- . ; git clean -fdq microscpi/tests
echo "$id demo_on_unchanged=$demo_base suite_with_change=$suite(passed=$npass) demo_with_change=$demo_mut"
