#!/usr/bin/env python3
"""Applies each seeded change (/verif/seeded/<id>/patch.diff) to /repo, runs the quick checks,
records which checks raise an alarm, and restores /repo.  Usage: run_seeded.py [id ...] [--props C01,C02]"""
import json, os, subprocess, sys, time

ROOT = os.path.dirname(os.path.dirname(os.path.abspath(__file__)))
SEEDED = os.path.join(ROOT, 'seeded')


def sh(cmd, cwd=None):
    p = subprocess.run(cmd, cwd=cwd, stdout=subprocess.PIPE, stderr=subprocess.STDOUT, text=True)
    return p.returncode, p.stdout


def claimed():
    m = json.load(open(os.path.join(ROOT, 'MANIFEST.json')))
    return [c['property_id'] for c in m['checks']]


def main():
    args = [a for a in sys.argv[1:] if not a.startswith('--')]
    props = None
    for a in sys.argv[1:]:
        if a.startswith('--props='):
            props = a.split('=', 1)[1].split(',')
    global SEEDED
    for a in sys.argv[1:]:
        if a.startswith('--dir='):
            SEEDED = os.path.join(ROOT, a.split('=', 1)[1])
    ids = args or sorted(d for d in os.listdir(SEEDED) if os.path.isdir(os.path.join(SEEDED, d)))
    props = props or claimed()
    results = {}
    # the evidence files must describe the unchanged tree: keep them aside while the changed trees are checked
    import shutil, tempfile
    ev_dir = os.path.join(ROOT, 'evidence')
    ev_backup = tempfile.mkdtemp(prefix='evidence_backup_')
    if os.path.isdir(ev_dir):
        shutil.copytree(ev_dir, os.path.join(ev_backup, 'evidence'))
    rc, out = sh(['git', '-C', '/repo', 'status', '--porcelain'])
    if out.strip():
        print('refusing: /repo has uncommitted changes'); sys.exit(2)
    for sid in ids:
        patch = os.path.join(SEEDED, sid, 'patch.diff')
        rc, out = sh(['git', '-C', '/repo', 'apply', patch])
        if rc != 0:
            print(sid, 'patch does not apply:', out); results[sid] = {'error': 'patch does not apply'}; continue
        try:
            row = {}
            for p in props:
                t = time.time()
                rc, out = sh([os.path.join(ROOT, 'check'), p, 'quick'], cwd=ROOT)
                lines = [l for l in out.split('\n') if l.startswith('VIOLATION')]
                row[p] = {'rc': rc, 'violation': lines[0] if lines else '', 's': round(time.time() - t, 1)}
                print(sid, p, rc, lines[0] if lines else '', flush=True)
            results[sid] = row
        finally:
            sh(['git', '-C', '/repo', 'checkout', '--', '.'])
    # merge into the stored matrix (per change, per property)
    rp = os.path.join(SEEDED, 'results.json')
    merged = json.load(open(rp)) if os.path.exists(rp) else {}
    for sid, row in results.items():
        merged.setdefault(sid, {}).update(row)
    json.dump(merged, open(rp, 'w'), indent=1, sort_keys=True)
    # restore the harness build for the unchanged tree, and the evidence of the unchanged tree
    sh([os.path.join(ROOT, 'harness', 'build.sh')])
    if os.path.isdir(os.path.join(ev_backup, 'evidence')):
        shutil.rmtree(ev_dir, ignore_errors=True)
        shutil.copytree(os.path.join(ev_backup, 'evidence'), ev_dir)
    shutil.rmtree(ev_backup, ignore_errors=True)


if __name__ == '__main__':
    main()
