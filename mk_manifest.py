#!/usr/bin/env python3
"""Writes MANIFEST.json from the registry of theorems (lean/props.json) and the
per-property texts below.  A property is claimed only when its python stream
module exists and (for level `proof`) at least one theorem is registered."""
import json, os

HERE = os.path.dirname(os.path.abspath(__file__))
reg = json.load(open(os.path.join(HERE, 'lean', 'props.json')))
props = [json.loads(l) for l in open(os.path.join(HERE, 'properties.jsonl'))]

COMMON_NOTE = ('Trusted: Lean 4 kernel with axioms propext, Classical.choice, Quot.sound only (no sorry/axiom/native_decide; audited by #print axioms on every '
               'registered theorem on each run); the hand-written model is tied to /repo by the correspondence check (real crate in-process vs compiled Lean '
               'driver on the same op lines, diffed) which covers only generated ops; ')

TEXT = {
 'C01': ('proof', 'The macro trie is proved to contain exactly the spelled paths of the declarations (paths_iff, lookup_iff, no_shadowing), the run-time '
         'case-insensitive child walk is proved equal to the exact walk of the upper-cased header (child_walk_iff, invokes_iff, same_handler, '
         'no_match_no_handler), for all declaration lists. Tie to the code: TREE dump of every generated interface (26, plus eight fresh ones per thorough run) expanded by the real macro vs the model, MACRO '
         'ops running the real command.rs/tree.rs on thousands of declaration sets, RUN on every spelling and near-miss; oracle = independent python '
         're-statement of the spelling rule.',
         'ASCII declarations; the quote! glue in lib.rs is validated on the generated interfaces, not modelled; -113 on undefined headers is checked by '
         'the oracle and the correspondence (the parse-level theorem is in Props/C11 parse_render when present).',
         'Lean 4 proof (trie invariant by induction over insertions) + differential correspondence'),
 'C02': ('proof', 'Dispatcher theorems for all trees/handlers: one-step equations of run (units execute strictly in order), common_keeps_path, '
         'absolute_ignores_path, new_path_is_parent, path_after_unit, and run_append_message_closed: after a newline-terminated, completely consumed input '
         'the interpreter state is the initial one (no dependence on earlier messages). Tie: RUN/PROC compound messages over trees with repeated '
         'mnemonics; oracle = python simulation of the SCPI path rule.',
         'suspension between units (Pending) is exercised with pend=k on the real code, not modelled.',
         'Lean 4 proof (big-step semantics, parser finality) + differential correspondence'),
 'C03': ('proof', 'fromStrRadix_iff: the integer conversion yields the mathematical value of the numeral or nothing (never wrapped/re-based), exact '
         'bool table, kind errors -104/-120/-224, literal lexing verbatim (C03Lex), dispatcher arity/order/first-failing-conversion (C06 execute_err_cases). '
         'Tie: CONV ops on every type x kind x boundary, random decimal floats judged by exact rational rounding in python, RUN echo.',
         'from_str_radix and f32/f64 FromStr are re-stated in Lean and validated by CONV ops; the round-to-nearest theorem covers what Props/C03 states (see file).',
         'Lean 4 proof + differential correspondence with exact-arithmetic oracle'),
 'C04': ('proof', 'decode(encode v) = v for every well-formed response value (integers, bool, strings with doubled quotes, blocks, chars, errors, '
         'tuples, tail lists; floats under the per-value contract FloatTextOk), NaN/inf sentinels, writer_independent / same_bytes, execute_query_ok '
         '(response, newline, exactly one flush), no_output cases, order of two queries. Tie: RESP ops on ~20k values with three writers, RUN echo with the '
         'pass-through writer; oracle = python type-directed decoder (floats by exact rational rounding).',
         'float Display is not verified: its contract is validated on every printed float (python exact parser + model comparison).',
         'Lean 4 proof (round-trip by structural induction) + translation validation of float text + differential correspondence'),
 'C05': ('proof', 'Every panic/spin site of the Rust code is an explicit crash outcome of the model; parse_no_crash, run_never_crashes, '
         'run_returns_suffix, process_never_crashes (all N>=1, all scripts), process_offsets_inv, process_progress are proved for all inputs, trees, '
         'handlers and writers. Tie: exhaustive alphabet strings through PARSE/RUN/PROC with small writers and buffers under catch_unwind and a call budget.',
         'panics inside core/heapless, stack, UB are outside the model; handlers assumed not to panic.',
         'Lean 4 proof (suffix/strictness predicate per combinator, loop invariants) + differential correspondence'),
 'C06': ('proof', 'execute_err_cases (five fault classes; handler not invoked unless the fault is its own; error verbatim), one_error_per_unit (parse-level '
         'faults drop the rest of the message, execution-level faults continue), errors_along_trace, later_messages_unaffected_closed (isolation for run) and '
         'the stream-machine isolation (C06Process, when present). Tie: sequences of messages with every fault kind through RUN and PROC.',
         'message = its only newline is its terminator (a newline inside a payload after a parse-level fault is outside the property, see C06.newline_in_string_after_fault).',
         'Lean 4 proof + differential correspondence'),
 'C07': ('proof', 'process_refines_stream: for N>=1 the non-read trace and final user state of process equal those of a byte-at-a-time stream machine that '
         'depends on the stream only; chunk_independent; process_eq_runs (messages that fit, one newline each = run one at a time). Tie: PROC with exhaustive '
         'compositions of short streams and random schedules incl. zero-length and buffer-filling reads, pend=k; oracle relational on the implementation.',
         'Poll::Pending patterns are not a notion of the model; exercised on the real code (pend=k) and compared with the Pending-free model.',
         'Lean 4 proof (refinement to a stream machine) + differential correspondence'),
 'C08': ('proof', 'string_verbatim / block_verbatim for all payloads, parse_render (payload literals at any argument position), runFrom_resume and '
         'stream_payload_newline (a newline inside a payload neither ends the message nor produces an error under any chunking). Tie: payload-stress messages '
         'through RUN and PROC at minimal buffer sizes and all chunk alignments.',
         'from_utf8 re-stated and validated by UTF8 ops.',
         'Lean 4 proof + differential correspondence'),
 'C09': ('proof', 'queue_refines (bounded FIFO for every capacity and op sequence), length_le_cap, overflow_keeps_older, pushAll_items, SYST:ERR responses, '
         'number_table (59 entries). Tie: exhaustive QUEUE op sequences, ERRTAB, end-to-end histories; oracle = python reference FIFO.',
         'heapless::Deque re-stated as list operations.',
         'Lean 4 proof (refinement + invariant by induction) + differential correspondence'),
 'C10': ('proof', 'trace_grammar (non-empty write immediately followed by flush), read_after_flush, writes_are_run_outputs, process_outcome (never Ok; eos or the '
         'injected fault, unchanged, trace length = fault index), fault_run_is_cut. Tie: PROC with a fault injected at every adapter call index.',
         'response buffer modelled as fresh per terminator (Rust clears it after each write).',
         'Lean 4 proof (trace invariants by induction over the loops) + fault enumeration on the real code'),
 'C11': ('proof', 'parse_render: the result of parse on a rendered unit does not mention the lexical choices (white space runs and bytes, CR LF); isWs_iff for '
         'every byte value; child_case_insensitive; short/long exchange via C01.same_handler. Tie: RUN on base rendering vs variants, every white-space byte value.',
         'Forms.Consistent: two declared siblings must not share one spelling (otherwise exchanging short/long changes the node meant).',
         'Lean 4 proof + metamorphic differential correspondence'),
 'C12': ('proof', 'parse_ok_append, parse_ok_consumes, parse_newline_final / parse_err_final, parse_incomplete_only_inside for all trees, start nodes, x and y. '
         'Tie: PARSE ops on exhaustive alphabet strings and (x, x++y) pairs cut at every position.',
         '-', 'Lean 4 proof (terminator-presence predicate per combinator) + differential correspondence'),
 'C13': ('other', 'Partial by nature: the model carries only the reason no allocation is needed — every container stays within its fixed capacity '
         '(args_le_max, writer_within_cap, queue length_le_cap, process_offsets_inv; Lean theorems). That the compiled code never calls the allocator and builds as '
         'no_std without alloc is OBSERVED, not proved: a counting GlobalAlloc around run/process on generated inputs (ALLOC ops, model prediction = 0) and a '
         'no_std staticlib without allocator that must link.',
         'observation of rustc output, not proof; listed as level other.',
         'Lean 4 capacity invariants + allocation counting + no_std link check'),
 'C14': ('proof', 'insertAll_ok_iff / compiles_iff: the trie construction fails iff two different declarations share a spelled path of one kind; '
         'first_collision(_reported), no_shadowing, lookup_iff. Tie: MACRO ops on colliding pairs and collision-free twins through the real tree.rs, and real '
         'cargo builds of generated crates (ambiguous crate + twin).',
         'compile failure = unwrap panic inside the attribute macro, validated on real compiler runs.',
         'Lean 4 proof + differential correspondence + compile-fail tests'),
}

checks, na = [], []
for p in props:
    pid = p['id']
    have_mod = os.path.exists(os.path.join(HERE, 'vlib', 'props', pid + '.py'))
    level, text, note, tech = TEXT[pid]
    nthm = len(reg.get(pid, {}).get('theorems', []))
    if have_mod and (nthm > 0):
        checks.append({
            'property_id': pid,
            'quick_cmd': f'./check {pid} quick',
            'thorough_cmd': f'./check {pid} thorough',
            'evidence_file': f'/verif/evidence/{pid}.json',
            'replay_cmd_template': './check replay {path}',
            'engine': 'lean-model+correspondence',
            'level_claimed': {'category': level, 'text': f'{nthm} registered theorems. ' + text, 'design_ref': f'DESIGN.md section 5, {pid}'},
            'level_note': COMMON_NOTE + note,
            'technique': tech,
        })
    else:
        na.append({'property_id': pid, 'reason': 'not claimed in this commit: ' + ('theorems not yet registered' if have_mod else 'stream module missing') +
                   ' (machinery under construction, see DESIGN.md)'})

m = {
 'version': 1,
 'setup_cmd': './setup.sh',
 'hooks': {'guard': 'microscpi_verif',
           'enable': 'no source hook exists: every observation point is already public (traits Interface/Adapter/ErrorHandler/Write, pub parser::parse, '
                     'pub tree::Node, run_from); the harness links /repo/microscpi by path and includes the macro crate sources by path',
           'baseline_off_cmd': 'cd /repo && cargo test --workspace --no-fail-fast --offline',
           'source_commits': [], 'add_only': True},
 'engines': [{'name': 'lean-model+correspondence', 'path': '/verif/lean, /verif/harness, /verif/check, /verif/vlib',
              'serves_properties': [c['property_id'] for c in checks],
              'kind_free_text': 'hand-written Lean 4 model with machine-checked theorems; Rust harness running the real crate in-process and the compiled '
                                'Lean driver fed the same op lines; python generators and implementation oracles'}],
 'checks': checks,
 'notes': 'Repairs of genuine defects are the ten unguarded "fix:" commits in /repo (recorded in known_findings.json as fixed entries).',
 'not_applicable': na,
}
json.dump(m, open(os.path.join(HERE, 'MANIFEST.json'), 'w'), indent=1)
print('claimed', [c['property_id'] for c in checks], 'not claimed', [x['property_id'] for x in na])
