#!/bin/sh
# Builds the framework from files on disk only (offline): the Lean model, the
# theorem modules and the driver; the Rust harness against /repo's current tree.
set -eu
HERE="$(cd "$(dirname "$0")" && pwd)"
export CARGO_NET_OFFLINE=true
cd "$HERE/lean"
MODS=$(python3 -c "
import json
r=json.load(open('props.json'))
print(' '.join(sorted({m for v in r.values() for m in v['modules']})))")
lake build Scpi driver $MODS
cd "$HERE"
"$HERE/harness/build.sh" "$HERE/ifaces/ifaces.txt"
echo "setup done"
